"""Monitors A: C04, C05, C06, C11, C14 evaluated on the real gateway, straight from the property texts.

Nothing here consults the Coq model.  `Ref` is the independent reference meaning of a sequence of accepted
messages on plain dicts (C04, reused by C05 to know which nodes/children/values exist).  Which lines count as
accepted is decided by the implementation's own decoder+validator (`monitors.accepted`), whose conformance is C03.
"""
import collections

from harness import monitors
from harness.monitors import Base, accepted

VERSIONS = ["1.4", "1.5", "2.0", "2.1", "2.2"]
Counter = collections.Counter


# ----------------------------------------------------------------------------------------------- reference meaning
def to_int(payload, lo=None, hi=None):
    """int payload with the safe fallback 0 for unusable ones."""
    try:
        v = int(payload)
    except (ValueError, TypeError):
        return 0
    if lo is not None and not lo <= v <= hi:
        return 0
    return v


def ref_version(p, library):
    """The version a node holds after presenting payload p: for ASCII-decimal sections d(.d)* the property's own rule
    (kept as written when numerically >= 1.4, else the fallback '1.4'), otherwise the library's verdict."""
    import re
    if isinstance(p, str) and p.isascii() and re.fullmatch(r"[0-9]+(\.[0-9]+)*", p) and len(p) <= 200:
        secs = [int(x) for x in p.split(".")]
        return p if secs + [0] * (2 - len(secs)) >= [1, 4] else "1.4"
    return library(p)


class Ref:
    """Protocol meaning of accepted messages: node/child/value tree on plain dicts."""

    def __init__(self, ver):
        self.vi = VERSIONS.index(ver)
        self.nodes = {}

    @staticmethod
    def blank(nid):
        return {"id": nid, "type": None, "pv": "1.4", "bat": 0, "sn": None, "sv": None, "hb": 0, "children": {}}

    def next_id(self):
        nid = max(self.nodes) + 1 if self.nodes else 1
        return nid if nid <= 254 else None

    def apply(self, m):
        """Fold one accepted message into the tree; returns the kind of message (for statistics / keys)."""
        from mysensors.validation import safe_is_version
        n, c, t, _a, s, p = m
        nodes = self.nodes
        if t == 0:
            if c == 255:                                   # node presentation
                new = n not in nodes
                if new:
                    nodes[n] = self.blank(n)
                nodes[n]["type"] = s
                nodes[n]["pv"] = ref_version(p, safe_is_version)
                return "nodepres" if new else "nodepres-again"
            if n not in nodes:
                return "childpres-unknown-node"
            if c in nodes[n]["children"]:                  # first presentation wins
                return "childpres-again"
            nodes[n]["children"][c] = {"id": c, "type": s, "desc": p, "values": {}}
            return "childpres"
        if t == 1:
            if n in nodes and c in nodes[n]["children"]:
                nodes[n]["children"][c]["values"][s] = p
                return "set"
            return "set-unknown"
        if t == 3:
            if s == 3:                                     # id request
                nid = self.next_id()
                if nid is None:
                    return "idreq-exhausted"
                nodes[nid] = self.blank(nid)
                return "idreq"
            attr = {0: "battery", 11: "sketchname", 12: "sketchversion"}.get(s)
            if s == 22 and self.vi >= 2:
                attr = "heartbeat"
            if attr is None:
                return "other"
            if n not in nodes:
                return attr + "-unknown-node"
            if s == 0:
                nodes[n]["bat"] = to_int(p, 0, 100)
            elif s == 11:
                nodes[n]["sn"] = p
            elif s == 12:
                nodes[n]["sv"] = p
            else:
                nodes[n]["hb"] = to_int(p)
            return attr
        return "other"


def strict(v):
    """scalar with its type made explicit (so that 5 != '5' != True and 2 != '2' as a key)."""
    if v is None:
        return None
    if isinstance(v, bool):
        return ("bool", v)
    if isinstance(v, int):
        return ("int", int(v))
    if isinstance(v, str):
        return ("str", v)
    return (type(v).__name__, repr(v))


def plain(sensors, typed=False):
    """The real tree as plain dicts (same shape as Ref.nodes)."""
    f = strict if typed else (lambda v: v)
    out = {}
    for nid, s in sensors.items():
        if not all(hasattr(s, a) for a in ("sensor_id", "children", "battery_level", "heartbeat")) or \
                not all(hasattr(ch, "values") and hasattr(ch, "id") for ch in getattr(s, "children", {}).values()):
            # not a Sensor (e.g. a raw dict left by a decoder that did not rebuild the object)
            out[f(nid)] = {"id": ("not-a-sensor", type(s).__name__), "type": None, "pv": None, "bat": None, "sn": None,
                           "sv": None, "hb": None, "children": {}}
            continue
        out[f(nid)] = {
            "id": f(s.sensor_id), "type": f(s.type), "pv": f(s.protocol_version), "bat": f(s.battery_level),
            "sn": f(s.sketch_name), "sv": f(s.sketch_version), "hb": f(s.heartbeat),
            "children": {f(cid): {"id": f(ch.id), "type": f(ch.type), "desc": f(ch.description),
                                  "values": {f(k): f(v) for k, v in ch.values.items()}}
                         for cid, ch in s.children.items()}}
    return out


def show(k):
    """typed scalar / dict back to its plain repr (for messages)."""
    if isinstance(k, tuple) and len(k) == 2 and isinstance(k[0], str):
        return repr(k[1])
    if isinstance(k, dict):
        return "{" + ", ".join(f"{show(a)}: {show(b)}" for a, b in k.items()) + "}"
    return repr(k)


def where(a, b):
    """Name of the first field in which two trees differ (no ids: a structural fingerprint), and a description."""
    if set(a) != set(b):
        return "node-set", f"nodes {sorted(map(show, a))} vs {sorted(map(show, b))}"
    for n in a:
        for fld in ("id", "type", "pv", "bat", "sn", "sv", "hb"):
            if a[n][fld] != b[n][fld]:
                return "node." + fld, f"node {show(n)} {fld}: {show(a[n][fld])} vs {show(b[n][fld])}"
        ca, cb = a[n]["children"], b[n]["children"]
        if set(ca) != set(cb):
            return "child-set", f"node {show(n)} children {sorted(map(show, ca))} vs {sorted(map(show, cb))}"
        for c in ca:
            for fld in ("id", "type", "desc", "values"):
                if ca[c][fld] != cb[c][fld]:
                    return "child." + fld, f"node {show(n)} child {show(c)} {fld}: {show(ca[c][fld])} vs {show(cb[c][fld])}"
    return None, ""


def copy_tree(t):
    return {n: dict(v, children={c: dict(ch, values=dict(ch["values"])) for c, ch in v["children"].items()})
            for n, v in t.items()}


def line_kind(m, vi):
    """coarse handler kind of an accepted message."""
    n, c, t, _a, s, _p = m
    if t == 0:
        return "nodepres" if c == 255 else "childpres"
    if t == 1:
        return "set"
    if t == 2:
        return "req"
    if t == 4:
        return "stream"
    names = {0: "battery", 1: "time", 3: "idreq", 6: "config", 11: "sketchname", 12: "sketchversion", 14: "gwready"}
    if vi >= 2:
        names.update({21: "discoverresp", 22: "heartbeat"})
    if vi >= 4:
        names[32] = "presleep"
    return names.get(s, "internal-other")


class QueueWatch:
    """Mixin: which strings were appended to a node's hold queue by the current op."""

    def snap_queues(self, im):
        self.preq = {nid: list(s.queue) for nid, s in im.gw.sensors.items()}

    def withheld(self, im):
        out = []
        for nid, s in im.gw.sensors.items():
            now = list(s.queue)
            old = self.preq.get(nid, [])
            new = now[len(old):] if now[:len(old)] == old else now
            out += [(nid, q) for q in new]
        return out


# ------------------------------------------------------------------------------------------------------------ C04
@monitors.register
class C04Mirror(Base):
    """C04: the tree equals the protocol meaning of the accepted messages; callbacks are exact."""
    name = "c04"

    def start(self, im):
        self.ref = Ref(im.cfg["ver"])

    def before(self, im, op, trk):
        from harness.impl.gwrun import render_tree
        self.pre = render_tree(im.gw.sensors)

    def after(self, im, op, events, trk):
        from harness.impl.gwrun import render_tree
        if op[0] == "restart":                       # persistence is C11/C14: resynchronise
            self.ref.nodes = copy_tree(plain(im.gw.sensors))
            return
        post = render_tree(im.gw.sensors)
        cbs = [e for e in events if e[0] == "CB"]
        line = trk.processed
        if line is None:
            if post != self.pre:
                self.fail(f"tree-changed-without-message/{op[0]}", f"op {op!r} changed the node tree")
                self.ref.nodes = copy_tree(plain(im.gw.sensors))
            if cbs:
                self.fail(f"callback-without-message/{op[0]}", f"op {op!r} fired the event callback {cbs[0][1]}")
            return
        acc = accepted(line, im.cfg["ver"])
        kind = self.ref.apply(acc) if acc is not None else "rejected"
        self.stats["line:" + kind] += 1
        real = plain(im.gw.sensors)
        if real != self.ref.nodes:
            fld, desc = where(real, self.ref.nodes)
            self.fail(f"tree-mismatch/{kind}/{fld}",
                      f"after {line!r} ({kind}) the tree is not the protocol meaning: implementation vs reference {desc}")
            self.ref.nodes = copy_tree(real)
        changed = post != self.pre
        if changed:
            self.stats["tree-changing-line"] += 1
        if len(cbs) > 1:
            self.fail(f"callback-more-than-once/{kind}", f"{len(cbs)} callbacks for {line!r}")
        if changed and im.cfg.get("callback", True) and not cbs:
            self.fail(f"callback-missing/{kind}", f"{line!r} changed the tree but the event callback did not fire")
        if cbs:
            self.stats["callback"] += 1
            if acc is None:
                self.fail("callback-for-rejected-line", f"callback fired for the rejected line {line!r}")
            elif list(cbs[0][1]) != list(acc) or any(type(x) is not type(y) for x, y in zip(cbs[0][1], acc)):
                self.fail(f"callback-wrong-fields/{kind}", f"callback fields {cbs[0][1]} for message {list(acc)}")
            if cbs[0][2] != post:
                self.fail(f"callback-before-state/{kind}",
                          f"inside the callback for {line!r} the tree did not yet reflect the message")


# ------------------------------------------------------------------------------------------------------------ C05
class _Rec:
    """Everything one cause (an inbound line or a controller call) emitted."""

    def __init__(self, what, nodes, required=None, allowed=None, stream=None, kind="call", check=True):
        self.what = what
        self.nodes = set(nodes) | {255}
        self.required = required or Counter()
        self.allowed = allowed or Counter()
        self.stream = stream          # (node, response sub-type) of an allowed firmware response
        self.kind = kind
        self.check = check            # evaluate part (i)
        self.got = []
        self.open = 0                 # nested jobs still in the FIFO
        self.cut = False              # FIFO dropped (restart) or an exception escaped: "missing" is not judged
        self.done = False


@monitors.register
class C05Replies(Base, QueueWatch):
    """C05: every inbound message gets exactly the prescribed reply; every emitted command is one canonical,
    correctly addressed line.  (Validity for the configured version is checked in c05.run with the independent
    spec validator on the same emitted strings.)"""
    name = "c05"

    def start(self, im):
        self.ref = Ref(im.cfg["ver"])
        self.vi = self.ref.vi
        self.metric = True
        self.sleeping = set()
        self.desired = {}
        self.shadow = []              # mirrors gw.tasks.queue of the threaded flavour: "L" | _Rec
        self.recs = []
        self.carriable = im.cfg.get("carriable", True)

    # ---- prescription, from the property text
    def prescribe(self, m, im):
        n, c, t, a, s, _p = m
        v2 = self.vi >= 2
        node = self.ref.nodes.get(n)
        req, allow, stream = Counter(), Counter(), None

        def need(child=False):
            ok = node is not None and (not child or c in node["children"])
            if not ok and v2:
                req[f"{n};255;3;0;19;\n"] += 1
            return ok

        if t == 0:
            if c != 255:
                need()
        elif t == 1:
            if need(True) and self.pre_reboot.get(n):
                allow[f"{n};255;3;0;13;\n"] += 1               # C10
        elif t == 2:
            if need(True):
                val = self.desired.get((n, c, s)) if n in self.sleeping else None
                if val is None:
                    val = node["children"][c]["values"].get(s)
                if val is not None:
                    req[f"{n};{c};1;*;{s};{val}\n"] += 1       # ack flag: not prescribed by the text
        elif t == 3:
            if s == 1:
                req[f"{n};{c};3;0;1;{im.clock}\n"] += 1
            elif s == 3:
                nid = self.ref.next_id()
                if nid is not None:
                    req[f"{n};{c};3;0;4;{nid}\n"] += 1
            elif s == 6:
                req[f"{n};{c};3;0;6;{'M' if self.metric else 'I'}\n"] += 1
            elif s == 14:
                if v2:
                    req[f"255;{c};3;0;20;\n"] += 1
            elif s in (0, 11, 12) or (v2 and s in (21, 22)) or (self.vi >= 4 and s == 32):
                if need() and self.is_wake(s):
                    # the node woke up: withheld replies are released and pending desired values pushed (C08)
                    allow.update(self.preq.get(n, []))
                    for (n2, c2, vt), val in self.desired.items():
                        if n2 == n and val is not None:
                            allow[f"{n};{c2};1;0;{vt};{val}\n"] += 1
        elif t == 4:
            if need() and s in (0, 2):
                stream = (n, s + 1)                               # C09/C10
        return req, allow, stream

    def is_wake(self, s):
        return (self.vi in (2, 3) and s == 22) or (self.vi >= 4 and s == 32)

    # ---- hooks
    def before(self, im, op, trk):
        self.snap_queues(im)
        self.pre_reboot = {nid: s.reboot for nid, s in im.gw.sensors.items()}
        self.popped = None
        if op[0] == "pump" and not im.is_async and self.shadow:
            self.popped = self.shadow.pop(0)
            if isinstance(self.popped, _Rec):
                self.popped.open -= 1

    def after(self, im, op, events, trk):
        sends = [e[1] for e in events if e[0] == "S"]
        held = self.withheld(im)
        raised = any(e[0] == "R" for e in events)
        kind = op[0]
        line = trk.processed
        owner = None
        if line is not None:
            acc = accepted(line, im.cfg["ver"])
            if acc is None:
                owner = _Rec(f"rejected line {line!r}", [], kind="rejected")
            else:
                req, allow, stream = self.prescribe(acc, im)
                owner = _Rec(f"line {line!r}", [acc[0]], req, allow, stream, kind=line_kind(acc, self.vi))
                self.fold(acc)
            self.recs.append(owner)
        elif isinstance(self.popped, _Rec):
            owner = self.popped
        elif kind == "setchild":
            owner = _Rec(f"call {op!r}", [op[1]], check=False)
            self.recs.append(owner)
            self.note_call(op, raised)
        elif kind == "updatefw":
            owner = _Rec(f"call {op!r}", op[1], check=False)
            self.recs.append(owner)
        elif kind == "metric":
            self.metric = bool(op[1])
        if kind == "restart":
            self.sleeping.clear()
            self.desired.clear()
            self.metric = True          # gateway.metric is an attribute of the (new) gateway object: back to its default
        for s in sends:
            self.emitted(owner, s, None, op)
        for nid, s in held:
            self.emitted(owner, s, nid, op)
        if owner is not None and raised:
            owner.cut = True
        if not im.is_async:
            real = len(im.gw.tasks.queue)
            while len(self.shadow) < real:
                if owner is None:
                    self.shadow.append("L")
                else:
                    self.shadow.append(owner)
                    owner.open += 1
            for dropped in self.shadow[real:]:
                if isinstance(dropped, _Rec):
                    dropped.open -= 1
                    dropped.cut = True
            del self.shadow[real:]
        for r in self.recs:
            if r.open <= 0 and not r.done:
                self.judge(r)
        self.recs = [r for r in self.recs if not r.done]

    def end(self, im, trk):
        for _ in range(3000):                       # deliver what is still queued (threaded flavour)
            if im.is_async or not im.gw.tasks.queue:
                break
            o = ("pump",)
            trk.before(o)
            self.before(im, o, trk)
            start = len(im.log)
            im.op(o)
            self.after(im, o, im.log[start:], trk)
            trk.after(o)
        for r in self.recs:
            if not r.done:
                r.cut = r.cut or r.open > 0
                self.judge(r)

    # ---- bookkeeping of what the text calls "pending desired value"
    def fold(self, acc):
        n, c, t, _a, s, _p = acc
        kind = self.ref.apply(acc)
        if kind == "set":
            self.desired.pop((n, c, s), None)       # the node reported: nothing pending any more
        if t == 3 and self.is_wake(s) and n in self.ref.nodes and self.ref.nodes[n]["children"]:
            self.sleeping.add(n)

    def note_call(self, op, raised):
        _, sid, cid, vt, val, _mt, _ack = op
        node = self.ref.nodes.get(sid)
        if raised or sid not in self.sleeping or node is None or cid not in node["children"]:
            return
        try:
            self.desired[(sid, cid, int(vt))] = val
            self.stats["desired-value-set"] += 1
        except (ValueError, TypeError):
            pass

    # ---- part (ii): every emitted string on its own
    def emitted(self, owner, s, queue_of, op):
        from mysensors.message import Message
        self.stats["emitted" if queue_of is None else "emitted:withheld"] += 1
        if owner is None:
            self.fail(f"emission-without-cause/{op[0]}", f"op {op!r} emitted {s!r}")
            return
        owner.got.append(s)
        what = f"{s!r} emitted for {owner.what}"
        if not isinstance(s, str):
            self.fail("emitted-not-a-string", what)
            return
        try:
            m = Message(s)
        except ValueError:
            if self.carriable:
                self.fail(f"emitted-undecodable/{owner.kind}", what)
            return
        if self.carriable:
            if not s.endswith("\n") or "\n" in s[:-1]:
                self.fail(f"emitted-not-one-line/{owner.kind}", what)
            elif m.encode() != s:
                self.fail(f"emitted-not-canonical/{owner.kind}", what + f" re-encodes to {m.encode()!r}")
        if m.node_id not in owner.nodes:
            self.fail(f"emitted-wrong-addressee/{owner.kind}", what + f" (concerned: {sorted(owner.nodes)})")
        if queue_of is not None and m.node_id != queue_of:
            self.fail(f"withheld-in-wrong-queue/{owner.kind}", what + f" held for node {queue_of}")

    # ---- part (i): the multiset of one cause's emissions
    def judge(self, r):
        r.done = True
        if not r.check:
            return
        self.stats["judged:" + r.kind] += 1
        got = Counter(r.got)
        missing = []
        for want, k in r.required.items():
            for _ in range(k):
                hit = None
                if "*" in want:
                    for ack in "01":
                        cand = want.replace(";*;", f";{ack};", 1)
                        if got[cand] > 0:
                            hit = cand
                            self.stats["req-reply:ack" + ack] += 1
                            break
                elif got[want] > 0:
                    hit = want
                if hit is None:
                    missing.append(want)
                else:
                    got[hit] -= 1
        extra = []
        allowed = Counter(r.allowed)
        stream = r.stream
        for s, k in got.items():
            for _ in range(k):
                if allowed[s] > 0:
                    allowed[s] -= 1
                    self.stats["allowed:" + ("reboot" if s.endswith(";3;0;13;\n") else "wake-release")] += 1
                elif stream and self.is_fw_response(s, stream):
                    stream = None
                    self.stats["allowed:firmware-response"] += 1
                else:
                    extra.append(s)
        if r.required:
            self.stats["reply-prescribed:" + r.kind] += 1
        if extra:
            tag = "presentation-request" if all(e.endswith(";3;0;19;\n") for e in extra) else "reply"
            self.fail(f"unprescribed-{tag}/{r.kind}", f"{r.what}: emitted {extra} beyond the prescribed {list(r.required.elements())}")
        if missing and not r.cut:
            self.fail(f"missing-reply/{r.kind}", f"{r.what}: prescribed {missing} but emitted {r.got}")

    @staticmethod
    def is_fw_response(s, stream):
        from mysensors.message import Message
        try:
            m = Message(s)
        except ValueError:
            return False
        return (m.node_id, m.child_id, m.type, m.sub_type) == (stream[0], 255, 4, stream[1])


# ------------------------------------------------------------------------------------------------------------ C06
@monitors.register
class C06Ids(Base, QueueWatch):
    """C06: ids carried by id responses are in 1..254, not known, never handed out before (also across restarts)."""
    name = "c06"

    def start(self, im):
        self.handed = {}              # id -> number of restarts seen when it was handed out
        self.held = Counter()         # id responses sitting in a hold queue (released later, not a new hand-out)
        self.restarts = 0

    def before(self, im, op, trk):
        self.snap_queues(im)
        self.known = set(im.gw.sensors)

    @staticmethod
    def id_response(s):
        from mysensors.message import Message
        try:
            m = Message(s)
        except (ValueError, AttributeError):
            return None
        return m if (m.type, m.sub_type) == (3, 4) else None

    def after(self, im, op, events, trk):
        if op[0] == "restart":
            self.restarts += 1
            self.held.clear()
            self.stats["restart"] += 1
            return
        if op[0] == "save":
            self.stats["save-tick"] += 1
        if op[0] in ("setchild", "updatefw"):
            return                                     # controller-originated commands are not id assignments
        if trk.popped is not None and trk.popped[0] == "N" and isinstance(trk.popped[1], tuple):
            return
        acc = accepted(trk.processed, im.cfg["ver"]) if trk.processed is not None else None
        is_req = acc is not None and (acc[2], acc[4]) == (3, 3)
        fresh = []
        for s in [e[1] for e in events if e[0] == "S"]:
            m = self.id_response(s)
            if m is None:
                continue
            if not is_req and self.held[s] > 0:
                self.held[s] -= 1                       # release of a withheld response
                continue
            fresh.append((s, m))
        for _nid, s in self.withheld(im):
            m = self.id_response(s)
            if m is not None:
                self.held[s] += 1
                fresh.append((s, m))
                self.stats["id-response:withheld"] += 1
        if is_req:
            free = [i for i in range(1, 255) if i not in self.known and i not in self.handed]
            self.stats["id-request"] += 1
            if acc[0] != 255:
                self.stats["id-request:from-node-other-than-255"] += 1
            if not fresh:
                self.stats["id-request:no-response"] += 1
                if self.known and max(self.known) >= 254:
                    self.stats["id-request:no-response:max-known>=254"] += 1
            if not free:
                self.stats["id-request:nothing-allocatable"] += 1
            if len(fresh) > 1:
                self.fail("id-response-multiple", f"{trk.processed!r} got {len(fresh)} id responses")
        for s, m in fresh:
            where_ = f"id response {s!r} to {trk.processed!r}"
            if not is_req:
                self.fail("id-response-unprompted", where_)
            try:
                k = int(m.payload)
            except ValueError:
                self.fail("id-response-malformed", where_)
                continue
            self.stats["id-response"] += 1
            if self.restarts:
                self.stats["id-response:after-restart"] += 1
            if not 1 <= k <= 254:
                self.fail("id-out-of-range", where_ + f": {k} is not in 1..254")
            elif k in self.known:
                self.fail("id-of-known-node", where_ + f": node {k} is already known")
            elif k in self.handed:
                tag = "/after-restart" if self.handed[k] < self.restarts else ""
                self.fail("id-handed-out-twice" + tag, where_ + f": {k} was handed out earlier")
            self.handed.setdefault(k, self.restarts)
            if self.known and k > max(self.known) + 1:
                self.stats["id-response:skips-ids"] += 1
            if self.known and max(self.known) >= 200:
                self.stats["id-response:after-jump>=200"] += 1


# ------------------------------------------------------------------------------------------------------ C11 / C14
class _RestartWatch(Base):
    """Typed snapshot of the tree before each ("restart",) compared with the tree loaded afterwards."""

    def fmt(self, im):
        return "json" if str(im.cfg.get("persist", "")).endswith(".json") else "pickle"

    def before(self, im, op, trk):
        if op[0] == "restart":
            self.pre = plain(im.gw.sensors, typed=True)
            self.pre_transient = {
                "desired": sum(1 for s in im.gw.sensors.values() for d in s.new_state.values()
                               for v in d.values.values() if v is not None),
                "sleeping": sum(1 for s in im.gw.sensors.values() if s.new_state),
                "withheld": sum(len(s.queue) for s in im.gw.sensors.values()),
                "reboot": sum(1 for s in im.gw.sensors.values() if s.reboot)}


@monitors.register
class C11RoundTrip(_RestartWatch):
    """C11: save+load restores the tree exactly (typed), never the transient state."""
    name = "c11"

    def after(self, im, op, events, trk):
        if op[0] != "restart":
            return
        fmt = self.fmt(im)
        self.stats["roundtrip:" + fmt] += 1
        for e in events:
            if e[0] == "R":
                self.fail(f"roundtrip-raises/{fmt}/{e[1]}", f"stop/start raised {e[1]}")
        post = plain(im.gw.sensors, typed=True)
        if im.held_at_stop is not None:          # the state when stop() returned (not when it was called)
            self.pre = plain(im.held_at_stop, typed=True)
        pre = self.pre
        nodes = len(pre)
        self.stats[f"state:nodes={'0' if not nodes else '1-2' if nodes < 3 else '3+'}"] += 1
        for k, v in self.pre_transient.items():
            if v:
                self.stats["state:with-" + k] += 1
        for n, nd in pre.items():
            if nd["type"] is None:
                self.stats["state:node-without-type"] += 1
            if n[1] in (0, 255):
                self.stats["state:node-id-0-or-255"] += 1
            if not nd["children"]:
                self.stats["state:node-without-children"] += 1
            for ch in nd["children"].values():
                if not ch["values"]:
                    self.stats["state:child-without-values"] += 1
                if len(ch["values"]) >= 4:
                    self.stats["state:child-with-4+-values"] += 1
                if ch["desc"] == ("str", ""):
                    self.stats["state:empty-description"] += 1
                strs = [ch["desc"][1]] + [v[1] for v in ch["values"].values() if v and v[0] == "str"]
                if any(ord(x) > 0xFFFF for s in strs for x in s):
                    self.stats["state:astral-text"] += 1
                if any(ord(x) < 32 or 0x7f <= ord(x) < 0xa0 for s in strs for x in s):
                    self.stats["state:control-chars"] += 1
        if post != pre:
            fld, desc = where(pre, post)
            if fld is None:
                fld, desc = "key-type", "same values, different key types"
            keys_bad = ("node" if any(k[0] != "int" for k in post) else
                        "child" if any(k[0] != "int" for nd in post.values() for k in nd["children"]) else
                        "value-type" if any(k[0] != "int" for nd in post.values() for ch in nd["children"].values()
                                            for k in ch["values"]) else None)
            if keys_bad:
                self.fail(f"key-not-int/{fmt}/{keys_bad}", f"after the {fmt} round trip {keys_bad} keys are not integers: {desc}")
            else:
                self.fail(f"roundtrip-differs/{fmt}/{fld}", f"{fmt} save+load changed the state, before vs after: {desc}")
        for s in im.gw.sensors.values():
            if not hasattr(s, "new_state"):
                continue
            if s.new_state:
                self.fail(f"transient-resurrected/{fmt}/desired-state", f"node {s.sensor_id} has desired state after load")
            if len(s.queue):
                self.fail(f"transient-resurrected/{fmt}/withheld", f"node {s.sensor_id} has withheld replies after load")
            if s.reboot:
                self.fail(f"transient-resurrected/{fmt}/reboot", f"node {s.sensor_id} has the reboot flag after load")


@monitors.register
class C14CleanStop(_RestartWatch):
    """C14: what the gateway held at stop() is what the next start loads."""
    name = "c14"
    TAIL_KINDS = ("nodepres", "childpres", "set", "battery", "sketchname", "sketchversion", "heartbeat", "idreq")

    def start(self, im):
        self.since_save = None        # accepted/processed lines since the last periodic save tick
        self.restarts = 0
        self.vi = VERSIONS.index(im.cfg["ver"])

    def before(self, im, op, trk):
        super().before(im, op, trk)
        self.tree0 = plain(im.gw.sensors, typed=True) if trk.processed is not None else None

    def after(self, im, op, events, trk):
        if op[0] == "save":
            self.since_save = []
            self.stats["save-tick"] += 1
            return
        if trk.processed is not None and self.since_save is not None:
            acc = accepted(trk.processed, im.cfg["ver"])
            kind = line_kind(acc, self.vi) if acc else "rejected"
            self.since_save.append((kind, plain(im.gw.sensors, typed=True) != self.tree0))
        if op[0] in ("setchild", "updatefw") and self.since_save is not None:
            self.since_save.append(("call", False))
        if op[0] != "restart":
            return
        fmt = self.fmt(im)
        self.stats["stop:" + fmt] += 1
        if self.restarts:
            self.stats["stop:after-an-earlier-restart"] += 1
        if not im.cfg.get("callback", True):
            self.stats["stop:no-callback-configured"] += 1
        tail = None
        if self.since_save is not None and len(self.since_save) == 1 and self.since_save[0][1]:
            tail = self.since_save[0][0]
            self.stats["stop:only-change-since-save-tick/" + tail] += 1
        elif self.since_save is None:
            self.stats["stop:no-save-tick-before"] += 1
        if self.since_save is not None and self.pre:
            self.stats["stop:nonempty-state-after-save-tick"] += 1
        self.restarts += 1
        self.since_save = None
        for e in events:
            if e[0] == "R":
                self.fail(f"stop-start-raises/{e[1]}", f"stop/start raised {e[1]}")
        post = plain(im.gw.sensors, typed=True)
        if im.held_at_stop is not None:          # the state when stop() returned (not when it was called)
            self.pre = plain(im.held_at_stop, typed=True)
        if post != self.pre:
            fld, desc = where(self.pre, post)
            self.fail(f"stop-loses-state/{fld or 'key-type'}",
                      f"{fmt}: state held at stop() vs state loaded at the next start: {desc}"
                      + (f" (only change since the last save tick: {tail})" if tail else ""))
