"""setup_cmd: regenerate all generated files, clean build, runner, coqchk."""
import subprocess
import sys

from harness import core

ALL_TRANSLATORS = ["unicode_tables"]


def main():
    with core.Lock():
        errs = core.regenerate(ALL_TRANSLATORS)
        bad = {k: v for k, v in errs.items() if v}
        if bad:
            print("translator errors:", bad)
        hits = core.grep_gate()
        if hits:
            print("FORBIDDEN vernacular:", hits)
            return 1
        subprocess.run(["sh", "-c", "cd %s && ./mk.sh clean >/dev/null 2>&1 || true" % core.COQ])
        ok, log, wall = core.coq_build([], timeout=3000)
        print(log[-3000:])
        print(f"coq build ok={ok} wall={wall:.0f}s")
        if not ok:
            return 1
        rok, rlog = core.build_runner()
        print("runner:", rok, rlog[-500:])
        if not rok:
            return 1
    if "--coqchk" in sys.argv:
        vos = sorted(str(p) for p in (core.COQ / "theories" / "Props").glob("*.vo"))
        mods = ["PMS.Props." + p.split("/")[-1][:-3] for p in vos]
        proc = subprocess.run(["timeout", "3000", "coqchk", "-silent", "-o", "-Q", "theories", "PMS"] + mods,
                              cwd=core.COQ, stdout=subprocess.PIPE, stderr=subprocess.STDOUT, text=True)
        (core.BUILD / "coqchk.txt").write_text(proc.stdout)
        print(proc.stdout[-1500:])
        return proc.returncode
    return 0


if __name__ == "__main__":
    sys.exit(main())
