"""setup_cmd: regenerate all generated files, build the theorems and runners of every
claimed property from scratch, optionally run coqchk."""
import importlib
import json
import subprocess
import sys

from harness import core


def claimed():
    m = json.loads((core.VERIF / "MANIFEST.json").read_text())
    return [c["property_id"] for c in m["checks"]]


def main():
    props = [importlib.import_module(f"harness.props.{p.lower()}") for p in claimed()]
    translators = []
    for p in props:
        for t in getattr(p, "TRANSLATORS", []):
            if t not in translators:
                translators.append(t)
    with core.Lock():
        errs = core.regenerate(translators)
        bad = {k: v for k, v in errs.items() if v}
        if bad:
            print("translator errors:", bad)
        hits = core.grep_gate()
        if hits:
            print("FORBIDDEN vernacular:", hits)
            return 1
        if "--clean" in sys.argv:
            subprocess.run(["sh", "-c", "cd %s && find theories -name '*.vo' -o -name '*.glob' -o -name '*.vok' -o -name '*.vos' -o -name '.*.aux' | xargs rm -f" % core.COQ])
        targets = []
        tags = []
        for p in props:
            tag = getattr(p, "RUNNER", "")
            targets += [f"theories/Props/{p.PROP_FILE}o", f"theories/Model/Shell{tag}.vo"]
            if tag not in tags:
                tags.append(tag)
        ok, log, wall = core.coq_build(sorted(set(targets)), timeout=3000)
        print(log[-3000:])
        print(f"coq build ok={ok} wall={wall:.0f}s")
        if not ok:
            return 1
        for tag in tags:
            rok, rlog = core.build_runner(tag)
            print("runner", repr(tag), rok, rlog[-300:])
            if not rok:
                return 1
    if "--coqchk" in sys.argv:
        mods = ["PMS.Props." + p.PROP_FILE[:-2] for p in props]
        proc = subprocess.run(["timeout", "3000", "coqchk", "-silent", "-o", "-Q", "theories", "PMS"] + mods,
                              cwd=core.COQ, stdout=subprocess.PIPE, stderr=subprocess.STDOUT, text=True)
        (core.BUILD / "coqchk.txt").write_text(proc.stdout)
        print(proc.stdout[-2500:])
        return proc.returncode
    return 0


if __name__ == "__main__":
    sys.exit(main())
