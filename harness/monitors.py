"""Monitors: the properties evaluated directly on the real implementation, one op at a time.

A monitor lives in the worker process next to the real gateway (`im.gw`, an `harness.impl.gwrun.Impl`).
Interface (all optional except `name`):
    start(im)                      once, after the gateway was built
    before(im, op, trk)            before the op is applied
    after(im, op, events, trk)     after the op; `events` = list of ("S", line) | ("CB", fields, tree_tokens) | ("R", cls)
                                   appended by this op; `trk` = Tracker (see below)
    end(im, trk)                   after the last op (may apply further ops through im.op(...))
    self.violations                list of (key, what) — key = short structural fingerprint of the failure kind
    self.stats                     dict counter (merged into the evidence input distribution)
Monitors never consult the Coq model.
"""
import collections


class Tracker:
    """Shadows the job FIFO of the threaded flavour so that monitors know which inbound line an op
    processed and where each sent string came from."""

    def __init__(self, im):
        self.im = im
        self.sync = not im.is_async
        self.shadow = []          # entries: ("L", line) | ("N", origin_line, sleeping_at_enqueue)
        self.processed = None     # the inbound line processed by the current op (or None)
        self.popped = None        # the shadow entry popped by the current pump op
        self.current_line = None
        self.opno = 0             # number of the current op (shadow entries remember when they were enqueued)

    def sleeping_now(self):
        return frozenset(n for n, s in self.im.gw.sensors.items() if getattr(s, "is_smart_sleep_node", False))

    def before(self, op):
        self.opno += 1
        self.processed = None
        self.popped = None
        kind = op[0]
        if kind == "recv":
            if self.sync:
                self.shadow.append(("L", op[1]))
            else:
                self.processed = op[1]
        elif kind == "pump" and self.sync and self.shadow:
            self.popped = self.shadow.pop(0)
            if self.popped[0] == "L":
                self.processed = self.popped[1]
        self.pre_sleeping = self.sleeping_now()

    def after(self, op):
        if self.sync:
            real = len(self.im.gw.tasks.queue)
            origin = self.processed if self.processed is not None else ("call", op[0])
            while len(self.shadow) < real:
                self.shadow.append(("N", origin, self.pre_sleeping, self.opno))
            if len(self.shadow) > real:      # should not happen
                del self.shadow[real:]


def decode_line(line):
    """(node, child, type, ack, sub, payload) or None, with the implementation's own decoder."""
    from mysensors.message import Message
    try:
        m = Message(line)
    except ValueError:
        return None
    return (m.node_id, m.child_id, m.type, m.ack, m.sub_type, m.payload)


def accepted(line, ver):
    """decoded fields if the implementation's decoder and validator accept the line, else None."""
    import voluptuous as vol
    from mysensors.message import Message
    try:
        m = Message(line)
        m.validate(ver)
    except (ValueError, vol.Invalid):
        return None
    return (m.node_id, m.child_id, m.type, m.ack, m.sub_type, m.payload)


class Base:
    name = "base"

    def __init__(self):
        self.violations = []
        self.stats = collections.Counter()

    def start(self, im):
        pass

    def before(self, im, op, trk):
        pass

    def after(self, im, op, events, trk):
        pass

    def end(self, im, trk):
        pass

    def fail(self, key, what):
        if len(self.violations) < 20:
            self.violations.append((key, what))


class C01Pump(Base):
    """C01: nothing raises in the pump; a rejected line has no effect at all; the pump still answers."""
    name = "c01"

    def start(self, im):
        self.notes = []

    def before(self, im, op, trk):
        from harness.impl.gwrun import render_state
        self.pre = [t for t in _no_jobs(render_state(im.gw))]

    def after(self, im, op, events, trk):
        from harness.impl.gwrun import render_state
        if op[0] in ("recv", "pump"):
            for e in events:
                if e[0] == "R":
                    self.fail(f"pump-raises/{e[1]}", f"{e[1]} escaped the message pump while processing {trk.processed!r}")
        if trk.processed is not None:
            acc = accepted(trk.processed, im.cfg["ver"])
            self.stats["line:accepted" if acc else "line:rejected"] += 1
            if acc is not None:
                # for the independent judge (the extracted serial API spec, see props/c01.py): lines the
                # implementation's own validator accepted and that had an effect
                if (events or _no_jobs(render_state(im.gw)) != self.pre) and trk.processed not in self.notes:
                    self.notes.append(trk.processed)
            if acc is None:
                post = _no_jobs(render_state(im.gw))
                if events:
                    self.fail("rejected-line-has-effect/events", f"rejected line {trk.processed!r} produced {events[:2]}")
                elif post != self.pre:
                    self.fail("rejected-line-has-effect/state", f"rejected line {trk.processed!r} changed the state")

    def end(self, im, trk):
        # liveness probe: a config request from an unknown node must still be answered
        probe = next(n for n in range(200, 256) if n not in im.gw.sensors or not im.gw.sensors[n].is_smart_sleep_node)
        start = len(im.log)
        im.op(("recv", f"{probe};255;3;0;6;0"))
        for _ in range(2000):
            if im.is_async or not im.gw.tasks.queue:
                break
            im.op(("pump",))
        got = [e[1] for e in im.log[start:] if e[0] == "S"]
        want = f"{probe};255;3;0;6;{'M' if im.gw.metric else 'I'}\n"
        if any(e[0] == "R" for e in im.log[start:]):
            self.fail("pump-raises/probe", "exception while draining the queue for the liveness probe")
        elif want not in got:
            self.fail("pump-dead", f"liveness probe got no reply {want!r}; sent {got[-3:]}")
        self.stats["probe"] += 1


def _no_jobs(tokens):
    """state tokens without the job counter (a processed job is consumed)."""
    t = list(tokens)
    if "J" in t:
        i = t.index("J")
        del t[i:i + 2]
    return t


REGISTRY = {"c01": C01Pump}


def register(cls):
    REGISTRY[cls.name] = cls
    return cls
