(* Extraction of the C15 runner.  ExtrOcamlBasic only: bool, option, unit, list,
   prod, sumbool, sumor map to OCaml natives; N, Z, positive, nat stay the
   extracted inductives. *)
From Coq Require Extraction ExtrOcamlBasic.
From PMS Require Import Model.ShellSched.
Extraction Language OCaml.
Extraction "model.ml" shell_init shell_step.
