(* Extraction of the C16 model runner.  ExtrOcamlBasic only. *)
From Coq Require Extraction ExtrOcamlBasic.
From PMS Require Import Model.ShellRace.
Extraction Language OCaml.
Extraction "model.ml" shell_init shell_step.
