(* Extraction of the executable C18 model.  ExtrOcamlBasic only. *)
From Coq Require Extraction ExtrOcamlBasic.
From PMS Require Import Model.ShellConfig.
Extraction Language OCaml.
Extraction "model.ml" shell_init shell_step.
