(* Extraction of the C19 runner.  ExtrOcamlBasic only: bool, option, unit, list,
   prod, sumbool, sumor map to OCaml natives; N, Z, positive, nat, Decimal.uint
   stay the extracted inductives. *)
From Coq Require Extraction ExtrOcamlBasic.
From PMS Require Import Model.ShellFraming.
Extraction Language OCaml.
Extraction "model.ml" shell_init shell_step.
