(* Extraction of the executable model.  ExtrOcamlBasic only: bool, option,
   unit, list, prod, sumbool, sumor map to OCaml natives; N, Z, positive, nat,
   Decimal.uint stay the extracted inductives. *)
From Coq Require Extraction ExtrOcamlBasic.
From PMS Require Import Model.ShellFs.
Extraction Language OCaml.
Extraction "model.ml" shell_init shell_step.
