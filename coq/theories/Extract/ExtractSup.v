(* Extraction of the C20 model runner.  ExtrOcamlBasic only. *)
From Coq Require Extraction ExtrOcamlBasic.
From PMS Require Import Model.ShellSup.
Extraction Language OCaml.
Extraction "model.ml" shell_init shell_step.
