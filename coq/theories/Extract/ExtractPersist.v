(* Extraction of the "Persist" runner (C11 file formats).  ExtrOcamlBasic only. *)
From Coq Require Extraction ExtrOcamlBasic.
From PMS Require Import Model.ShellPersist.
Extraction Language OCaml.
Extraction "model.ml" shell_init shell_step.
