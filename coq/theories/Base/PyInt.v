(* CPython int(str) and str(int), base 10, over code-point strings. *)
From Coq Require Import List NArith ZArith Bool Decimal DecimalZ Lia.
From PMS Require Import Base.PyStr Gen.UnicodeTables.
Import ListNotations.
Open Scope N_scope.

Definition isspace (c : N) : bool := in_ranges isspace_ranges c.
Definition intspace (c : N) : bool := in_ranges intspace_ranges c.

(* value of a Unicode decimal digit (any script) *)
Fixpoint digit_in (starts : list N) (c : N) : option N :=
  match starts with
  | [] => None
  | s :: r => if (N.leb s c && N.ltb c (s + 10)) then Some (c - s) else digit_in r c
  end.
Definition digit_of (c : N) : option N := digit_in digit_starts c.

Definition cons_digit (d : N) (u : uint) : uint :=
  match d with
  | 0 => D0 u | 1 => D1 u | 2 => D2 u | 3 => D3 u | 4 => D4 u
  | 5 => D5 u | 6 => D6 u | 7 => D7 u | 8 => D8 u | _ => D9 u
  end.

Inductive bstate := BStart | BDigit | BUnder.

(* digits with single underscores strictly between digits *)
Fixpoint body (st : bstate) (s : pstr) : option uint :=
  match s with
  | [] => match st with BDigit => Some Nil | _ => None end
  | c :: s' =>
      if N.eqb c 95 then
        match st with BDigit => body BUnder s' | _ => None end
      else
        match digit_of c with
        | Some d => option_map (cons_digit d) (body BDigit s')
        | None => None
        end
  end.

Definition sign_split (s : pstr) : bool * pstr :=
  match s with
  | 43 :: r => (false, r)
  | 45 :: r => (true, r)
  | r => (false, r)
  end.

(* int(s): None models ValueError *)
Definition parse (s : pstr) : option Z :=
  let '(neg, r) := sign_split (strip intspace s) in
  option_map (fun u => Z.of_int (if neg then Neg u else Pos u)) (body BStart r).

Fixpoint uint_chars (u : uint) : pstr :=
  match u with
  | Nil => []
  | D0 u => 48 :: uint_chars u | D1 u => 49 :: uint_chars u
  | D2 u => 50 :: uint_chars u | D3 u => 51 :: uint_chars u
  | D4 u => 52 :: uint_chars u | D5 u => 53 :: uint_chars u
  | D6 u => 54 :: uint_chars u | D7 u => 55 :: uint_chars u
  | D8 u => 56 :: uint_chars u | D9 u => 57 :: uint_chars u
  end.

(* str(z) *)
Definition print (z : Z) : pstr :=
  match Z.to_int z with
  | Pos u => uint_chars u
  | Neg u => 45 :: uint_chars u
  end.

(* str.isdigit() restricted to what the persistence decoder needs: every
   character is an ASCII or Unicode decimal digit and the string is not empty.
   (str.isdigit also accepts superscripts etc.; only used on keys the encoder
   itself produced, see Persist.v) *)
Definition all_ascii_digits (s : pstr) : bool :=
  match s with [] => false | _ => forallb (fun c => N.leb 48 c && N.leb c 57) s end.
