(* Python exceptions as values. *)
From Coq Require Import List.
Import ListNotations.

Inductive exn :=
| ValueError | KeyError | IndexError | AttributeError | TypeError
| StructError | BinasciiError | VolInvalid | OSError | EOFError
| UnpicklingError | RuntimeError | OtherError.

Definition exn_eqb (a b : exn) : bool :=
  match a, b with
  | ValueError, ValueError | KeyError, KeyError | IndexError, IndexError
  | AttributeError, AttributeError | TypeError, TypeError
  | StructError, StructError | BinasciiError, BinasciiError
  | VolInvalid, VolInvalid | OSError, OSError | EOFError, EOFError
  | UnpicklingError, UnpicklingError | RuntimeError, RuntimeError
  | OtherError, OtherError => true
  | _, _ => false
  end.

Inductive res (A : Type) :=
| Ok : A -> res A
| Raise : exn -> res A.
Arguments Ok {A} _.
Arguments Raise {A} _.

Definition bind {A B} (r : res A) (f : A -> res B) : res B :=
  match r with Ok a => f a | Raise e => Raise e end.

Definition is_ok {A} (r : res A) : bool := match r with Ok _ => true | Raise _ => false end.

Definition of_option {A} (e : exn) (o : option A) : res A :=
  match o with Some a => Ok a | None => Raise e end.

Notation "'do' x <- r ; k" := (bind r (fun x => k)) (at level 200, x name, r at level 100, k at level 200).
