(* Python str as a list of code points; the str methods the library uses. *)
From Coq Require Import List NArith ZArith Bool Ascii String Lia.
Import ListNotations.
Open Scope N_scope.

Definition pstr := list N.

Definition s2p (s : string) : pstr := map N_of_ascii (list_ascii_of_string s).

Fixpoint pstr_eqb (a b : pstr) : bool :=
  match a, b with
  | [], [] => true
  | x :: a', y :: b' => N.eqb x y && pstr_eqb a' b'
  | _, _ => false
  end.

Fixpoint mem_N (x : N) (l : list N) : bool :=
  match l with [] => false | y :: r => N.eqb x y || mem_N x r end.

Fixpoint mem_pstr (x : pstr) (l : list pstr) : bool :=
  match l with [] => false | y :: r => pstr_eqb x y || mem_pstr x r end.

(* str.split(d) for a one-character delimiter: never returns the empty list *)
Fixpoint split (d : N) (s : pstr) : list pstr :=
  match s with
  | [] => [[]]
  | c :: s' =>
      if N.eqb c d then [] :: split d s'
      else match split d s' with
           | h :: t => (c :: h) :: t
           | [] => [[c]]
           end
  end.

(* d.join(l) *)
Fixpoint join (d : pstr) (l : list pstr) : pstr :=
  match l with
  | [] => []
  | x :: r => match r with [] => x | _ => x ++ d ++ join d r end
  end.

(* str.rstrip() / lstrip() / strip() relative to a character class *)
Fixpoint rstrip (sp : N -> bool) (s : pstr) : pstr :=
  match s with
  | [] => []
  | c :: s' =>
      match rstrip sp s' with
      | [] => if sp c then [] else [c]
      | r => c :: r
      end
  end.

Fixpoint lstrip (sp : N -> bool) (s : pstr) : pstr :=
  match s with
  | [] => []
  | c :: s' => if sp c then lstrip sp s' else s
  end.

Definition strip (sp : N -> bool) (s : pstr) : pstr := rstrip sp (lstrip sp s).

(* last character is not in the class (or the string is empty) *)
Definition no_trailing (sp : N -> bool) (s : pstr) : bool :=
  match rev s with [] => true | c :: _ => negb (sp c) end.

(* membership in a sorted list of inclusive ranges *)
Fixpoint in_ranges (rs : list (N * N)) (c : N) : bool :=
  match rs with
  | [] => false
  | (lo, hi) :: r => (N.leb lo c && N.leb c hi) || in_ranges r c
  end.

(* str.find(sub): index of first occurrence or None (-1) *)
Fixpoint is_prefix (p s : pstr) : bool :=
  match p, s with
  | [], _ => true
  | x :: p', y :: s' => N.eqb x y && is_prefix p' s'
  | _ :: _, [] => false
  end.

Fixpoint find_from (sub s : pstr) (i : nat) : option nat :=
  if is_prefix sub s then Some i
  else match s with
       | [] => None
       | _ :: s' => find_from sub s' (S i)
       end.

Definition find (sub s : pstr) : option nat := find_from sub s 0.

(* ASCII lower-casing (used for inf/nan literals only) *)
Definition lower_ascii (c : N) : N := if (N.leb 65 c && N.leb c 90) then c + 32 else c.
