(* awesomeversion on dotted numeric strings  [0-9]+(\.[0-9]+)*  (ASCII digits):
   the exact comparison (moved here from Model/ConfigVersion.v so that the core
   machine can use it too), the two verdicts the core machine needs
   (validation.is_version accepts / the constants module const.get_const selects)
   and an independent, purely numeric reading of "at least" (num_ge). *)
From Coq Require Import List NArith Bool String.
From PMS Require Import Base.PyStr.
Import ListNotations.
Open Scope N_scope.
Open Scope list_scope.

(* ---- dotted numeric strings: [0-9]+(\.[0-9]+)*  (ASCII digits) *)
Definition dot : N := 46.
Definition is_digit (c : N) : bool := N.leb 48 c && N.leb c 57.
Definition section_ok (s : pstr) : bool :=
  match s with [] => false | _ => forallb is_digit s end.
Definition dotted_numeric (s : pstr) : bool := forallb section_ok (split dot s).

(* AwesomeVersion.section(i): int() of the i-th dot separated part *)
Definition sec_val (s : pstr) : N := fold_left (fun a c => 10 * a + (c - 48)) s 0.
Definition sections (s : pstr) : list N := map sec_val (split dot s).

(* comparehandlers.sections.compare_base_sections(a, b): walk the sections
   up to the longer length, a missing section counts 0; Some true = a is
   greater, Some false = b is greater, None = no difference found *)
Definition nonzero (l : list N) : bool := existsb (fun x => negb (N.eqb x 0)) l.
Fixpoint base_cmp (a b : list N) : option bool :=
  match a, b with
  | [], _ => if nonzero b then Some false else None
  | _, [] => if nonzero a then Some true else None
  | x :: a', y :: b' => if N.eqb x y then base_cmp a' b' else Some (N.ltb y x)
  end.

(* AwesomeVersion.__gt__ / __lt__ / __eq__ for two dotted numeric strings:
   identical strings are never greater/less; otherwise _compare_versions,
   whose handlers all reduce to compare_base_sections and finally False.
   __eq__ is equality of the strings, __ge__ is "__eq__ or __gt__",
   __le__ is "__eq__ or __lt__" (so "2.0.0" >= "2.0" is False). *)
Definition av_gt_num (a b : pstr) : bool :=
  if pstr_eqb a b then false
  else match base_cmp (sections a) (sections b) with Some r => r | None => false end.
Definition av_lt_num (a b : pstr) : bool :=
  if pstr_eqb a b then false
  else match base_cmp (sections b) (sections a) with Some r => r | None => false end.

(* ---- the two verdicts of the core machine on a dotted numeric string s.
   A dotted numeric string never has the strategies SPECIALCONTAINER / UNKNOWN that
   validation.is_version refuses first (it is SIMPLEVER, BUILDVER, SEMVER or CALVER), and
   comparing two such strings never raises, so is_version(s) accepts s exactly when
   `AwesomeVersion("1.4") > AwesomeVersion(s)` is False. *)
Definition v_floor : pstr := s2p "1.4".
Definition ver_ge14 (s : pstr) : bool := negb (av_gt_num v_floor s).

(* validation.safe_is_version on a dotted numeric string *)
Definition safe_num (s : pstr) : pstr := if ver_ge14 s then s else v_floor.

(* const.get_const: `sorted(CONST_VERSIONS, reverse=True)` paired with the index of the
   constants module in [const_14; const_15; const_20; const_21; const_22]; the first key k
   with `not AwesomeVersion(s) < AwesomeVersion(k)` wins, default "mysensors.const_14".
   (Proofs/VersionProofs.v checks the key list against the generated Gen/Signatures.v.) *)
Definition const_keys_desc : list (pstr * nat) :=
  [(s2p "2.2", 4%nat); (s2p "2.1", 3%nat); (s2p "2.0", 2%nat); (s2p "1.5", 1%nat); (s2p "1.4", 0%nat)].
Fixpoint first_not_lt (s : pstr) (ks : list (pstr * nat)) : nat :=
  match ks with
  | [] => 0%nat
  | (k, i) :: r => if negb (av_lt_num s k) then i else first_not_lt s r
  end.
(* get_const(safe_is_version(s)) *)
Definition const_index (s : pstr) : nat := first_not_lt (safe_num s) const_keys_desc.

(* ---- "numerically at least", stated without awesomeversion: compare the section values
   left to right, a missing section counting as 0 *)
Definition all_zero (l : list N) : bool := forallb (N.eqb 0) l.
Fixpoint num_ge (a b : list N) : bool :=
  match a, b with
  | _, [] => true
  | [], _ => all_zero b
  | x :: a', y :: b' => if N.eqb x y then num_ge a' b' else N.ltb y x
  end.

(* the greatest of 1.4, 1.5, 2.0, 2.1, 2.2 (as index 0..4) that is not numerically above l;
   0 when there is none *)
Definition floor_index (l : list N) : nat :=
  if num_ge l [2; 2] then 4%nat
  else if num_ge l [2; 1] then 3%nat
  else if num_ge l [2; 0] then 2%nat
  else if num_ge l [1; 5] then 1%nat
  else 0%nat.
