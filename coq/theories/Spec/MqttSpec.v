(* What C17 requires, written independently of the model's f-string templates. *)
From Coq Require Import List NArith ZArith Bool String.
From PMS Require Import Base.PyStr Base.PyInt Base.Exn Model.Codec Model.Mqtt.
Import ListNotations.
Open Scope N_scope.

(* a topic level: no '/' inside *)
Definition level (l : pstr) : Prop := mem_N 47 l = false.

(* the topic a command is published under, without the prefix: /node/child/type/ack/subtype *)
Definition topic_of (m : msg) : pstr :=
  s2p "/" ++ print (m_node m) ++ s2p "/" ++ print (m_child m) ++ s2p "/" ++ print (m_type m) ++
  s2p "/" ++ print (m_ack m) ++ s2p "/" ++ print (m_sub m).

(* the command line without its newline *)
Definition line_of (m : msg) : pstr :=
  print (m_node m) ++ s2p ";" ++ print (m_child m) ++ s2p ";" ++ print (m_type m) ++ s2p ";" ++
  print (m_ack m) ++ s2p ";" ++ print (m_sub m) ++ s2p ";" ++ m_payload m.

(* the same message with ack and payload as the broker delivered them *)
Definition delivered (m : msg) (qos : Z) (payload : pstr) : msg :=
  mkMsg (m_node m) (m_child m) (m_type m) (if Z.ltb 0 qos then 1 else 0)%Z (m_sub m) payload.

(* subscriptions *)
Definition presentation_topic (pfx : pstr) : pstr := pfx ++ s2p "/+/+/0/+/+".
Definition internal_topic (pfx : pstr) : pstr := pfx ++ s2p "/+/+/3/+/+".
(* t = 1 (set) or 2 (req) *)
Definition child_topic (pfx : pstr) (n c t : Z) : pstr :=
  pfx ++ s2p "/" ++ print n ++ s2p "/" ++ print c ++ s2p "/" ++ print t ++ s2p "/+/+".
Definition stream_topic (pfx : pstr) (n : Z) : pstr :=
  pfx ++ s2p "/" ++ print n ++ s2p "/+/4/+/+".

Definition has_child (st : net) (n c : Z) : Prop := exists cs, In (n, cs) st /\ In c cs.

Definition subscribed (subs : list (pstr * Z)) (topic : pstr) : Prop := In topic (map fst subs).

(* the three topics of child c of node n are subscribed *)
Definition child_covered (pfx : pstr) (subs : list (pstr * Z)) (n c : Z) : Prop :=
  subscribed subs (child_topic pfx n c 1) /\ subscribed subs (child_topic pfx n c 2) /\
  subscribed subs (stream_topic pfx n).
