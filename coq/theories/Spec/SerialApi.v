(* Hand-written statement of the MySensors serial API rules named by property C03.
   Independent of const_*.py / Gen/Tables.v.  Where the property text leaves a choice the
   spec takes the code's side and says so (DESIGN C03). *)
From Coq Require Import List NArith ZArith QArith Bool String.
From PMS Require Import Base.PyStr Base.PyInt Base.Version Model.Rules.
Import ListNotations.
Open Scope Z_scope.

Inductive ver := V14 | V15 | V20 | V21 | V22.
Definition all_vers : list ver := [V14; V15; V20; V21; V22].
Definition ver_index (v : ver) : nat :=
  match v with V14 => 0 | V15 => 1 | V20 => 2 | V21 => 3 | V22 => 4 end%nat.
Definition ver_next (v : ver) : ver :=
  match v with V14 => V15 | V15 => V20 | V20 => V21 | V21 => V22 | V22 => V22 end.

(* commands *)
Definition c_presentation := 0.
Definition c_set := 1.
Definition c_req := 2.
Definition c_internal := 3.
Definition c_stream := 4.

(* largest defined sub-type of each command (sub-types are contiguous from 0) *)
Definition max_sub (v : ver) (t : Z) : Z :=
  if t =? c_presentation then match v with V14 => 25 | V15 => 35 | _ => 39 end
  else if (t =? c_set) || (t =? c_req) then match v with V14 => 39 | V15 => 46 | _ => 56 end
  else if t =? c_internal then match v with V14 => 14 | V15 => 17 | V20 | V21 => 28 | V22 => 33 end
  else if t =? c_stream then 5
  else -1.

Inductive pclass :=
| AnyStr                                   (* any text *)
| Empty                                    (* must be empty *)
| Words (l : list pstr)                    (* one of an enumerated list *)
| IntRange (lo hi : Z)                     (* int() spelling with lo <= value <= hi *)
| IntAny                                   (* any int() spelling *)
| IntOrEmpty
| IntRangeOr (lo hi : Z) (alts : list pstr)
| FloatRange (lo hi : Z)                   (* float() spelling, lo <= binary64 value <= hi, NaN rejected *)
| Rgb | Rgbw                               (* exactly 6 / 8 hex digits *)
| Gps                                      (* lat,lon,alt: three float() spellings *)
| Version14.                               (* a version >= 1.4: the verdict orc_version of is_version; for the
                                              machine's verdict (Model/Oracles.v) that is the numeric rule
                                              version_rule below on dotted numeric payloads, awesomeversion's
                                              own verdict (oracle table) on all other strings *)

Definition w (s : string) : pstr := s2p s.
Definition binary : pclass := Words [w "0"; w "1"].
Definition percent : pclass := IntRange 0 100.
Definition hvac_flow : pclass := Words [w "Off"; w "HeatOn"; w "CoolOn"; w "AutoChangeOver"].
Definition hvac_speed : pclass := Words [w "Min"; w "Normal"; w "Max"; w "Auto"].

Definition between (lo hi s : Z) : bool := (lo <=? s) && (s <=? hi).
Definition one_of (k : Z) (l : list Z) : bool := existsb (Z.eqb k) l.

(* payload rule of set messages (value types) *)
Definition set_class (v : ver) (s : Z) : pclass :=
  if one_of s [2; 15; 16; 36] then binary                     (* status / armed / tripped / lock *)
  else if s =? 3 then percent                                 (* dimmer, percentage *)
  else if s =? 21 then hvac_flow                              (* heater mode / hvac flow state *)
  else if s =? 22 then match v with V14 => binary (* V_HEATER_SW *) | _ => hvac_speed end
  else if s =? 23 then FloatRange 0 100                       (* light level *)
  else if s =? 40 then Rgb
  else if s =? 41 then Rgbw
  else if one_of s [44; 45] then FloatRange 0 100             (* hvac set points *)
  else if s =? 49 then Gps
  else if s =? 56 then FloatRange (-1) 1                      (* power factor *)
  else AnyStr.                                                (* incl. V_FORECAST: the code accepts any text *)

Definition internal_class (v : ver) (s : Z) : pclass :=
  if s =? 0 then percent                                      (* battery level *)
  else if s =? 1 then IntOrEmpty                              (* time *)
  else if one_of s [3; 7; 13] then Empty                      (* id request, find parent, reboot *)
  else if s =? 4 then IntRange 1 254                          (* id response *)
  else if s =? 5 then binary                                  (* inclusion mode *)
  else if s =? 6 then IntRangeOr 0 254 [w "M"; w "I"]          (* config *)
  else if s =? 8 then IntRange 0 254                          (* find parent response *)
  else if one_of s [18; 19; 20] then Empty                    (* heartbeat / presentation / discover requests *)
  else if s =? 21 then IntRange 0 254                         (* discover response *)
  else if one_of s [22; 24; 25] then IntAny                   (* heartbeat response, ping, pong *)
  else if between 30 33 s then IntAny                         (* signal report reverse/response, pre/post sleep *)
  else AnyStr.

Definition spec_class (v : ver) (t s : Z) : pclass :=
  if t =? c_presentation then (if one_of s [17; 18] then Version14 else AnyStr)
  else if t =? c_set then set_class v s
  else if t =? c_req then Empty
  else if t =? c_internal then internal_class v s
  else AnyStr.                                                (* stream: any text *)

Section Spec.
  Variable orc_version : pstr -> bool.
  Variable orc_float : pstr -> fres.

  Definition int_in (lo hi : Z) (p : pstr) : bool :=
    match parse p with Some z => range_ok_Z lo hi true true z | None => false end.

  Definition is_float (p : pstr) : bool :=
    match orc_float p with FErr => false | _ => true end.

  Definition in_class (k : pclass) (p : pstr) : bool :=
    match k with
    | AnyStr => true
    | Empty => pstr_eqb p []
    | Words l => mem_pstr p l
    | IntRange lo hi => int_in lo hi p
    | IntAny => match parse p with Some _ => true | None => false end
    | IntOrEmpty => pstr_eqb p [] || match parse p with Some _ => true | None => false end
    | IntRangeOr lo hi alts => int_in lo hi p || mem_pstr p alts
    | FloatRange lo hi =>
        match orc_float p with
        | FErr => false
        | f => range_ok_F lo hi true true f
        end
    | Rgb => Nat.eqb (List.length p) 6 && hex_ok p
    | Rgbw => Nat.eqb (List.length p) 8 && hex_ok p
    | Gps => match split 44 p with
             | [a; b; c] => is_float a && is_float b && is_float c
             | _ => false
             end
    | Version14 => orc_version p
    end.

  (* child id rule: 255 only for presentation/internal/stream; required for internal and
     stream except id request/response, whose child id the code leaves unconstrained *)
  Definition spec_child_ok (t s c : Z) : bool :=
    if (t =? c_internal) && one_of s [3; 4] then true
    else if (t =? c_internal) || (t =? c_stream) then c =? 255
    else if t =? c_presentation then between 0 255 c
    else between 0 254 c.

  Definition spec_accepts (v : ver) (n c t a s : Z) (p : pstr) : bool :=
    between 0 255 n && spec_child_ok t s c && between 0 4 t && one_of a [0; 1] &&
    between 0 (max_sub v t) s && in_class (spec_class v t s) p.
End Spec.

(* "A version >= 1.4", numerically: on a dotted numeric payload  [0-9]+(\.[0-9]+)*  compare the
   section values with 1.4 left to right, a missing section counting as 0 (leading zeros are
   irrelevant: num_ge, sections of Base/Version.v - stated without awesomeversion's algorithm);
   `other` decides every string that is not dotted numeric. *)
Definition version_rule (other : pstr -> bool) (p : pstr) : bool :=
  if dotted_numeric p then num_ge (sections p) [1%N; 4%N] else other p.

(* the section values of the five supported protocol versions *)
Definition ver_sections (v : ver) : list N :=
  match v with V14 => [1; 4] | V15 => [1; 5] | V20 => [2; 0] | V21 => [2; 1] | V22 => [2; 2] end%N.

(* the greatest supported protocol version that is not numerically above the section list l
   (1.4 when there is none): the version a node that reported l is served with *)
Definition floor_ver (l : list N) : ver :=
  if num_ge l [2%N; 2%N] then V22
  else if num_ge l [2%N; 1%N] then V21
  else if num_ge l [2%N; 0%N] then V20
  else if num_ge l [1%N; 5%N] then V15
  else V14.
