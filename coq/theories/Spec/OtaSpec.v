(* Node-side vocabulary used to state C09: how an updating node reads a block
   response and how it reassembles the image from the answers it received.
   Definitions only. *)
From Coq Require Import List NArith ZArith Bool.
From PMS Require Import Base.PyStr Base.Exn Model.Hex Model.Ota Model.OtaServe.
Import ListNotations.

(* a block response payload, read the way the bootloader does: three
   little-endian words (type, version, block index) then the block bytes *)
Definition parse_response (p : pstr) : res (list Z * list N) :=
  do b <- unhexlify p;
  do h <- unpack_le16 3 (firstn 6 b);
  Ok (h, skipn 6 b).

(* the node keeps, for every index, the block of the first answer that carried it *)
Definition answer_for (i : Z) (answers : list (Z * list N)) : list N :=
  match List.find (fun a => Z.eqb (fst a) i) answers with
  | Some a => snd a
  | None => []
  end.

Definition reassemble (blocks : nat) (answers : list (Z * list N)) : list N :=
  concat (map (fun i => answer_for (Z.of_nat i) answers) (seq 0 blocks)).

(* the answer to a block request as a function of the firmware dict and the
   request payload only (no stores, no history) *)
Definition block_answer (d : fwdict) (p : pstr) : res (option pstr) :=
  match fw_hex_to_int p 3 with
  | Ok [t; v; i] =>
      match fw_get (t, v) d with
      | Some fw => do r <- fw_response_payload t v i fw; Ok (Some r)
      | None => Ok None
      end
  | _ => Ok None
  end.

(* stream requests as a history *)
Inductive request := CfgReq (n : Z) (p : pstr) | BlkReq (n : Z) (p : pstr).

Definition serve (st : otast) (r : request) : otast * res (option pstr) :=
  match r with
  | CfgReq n p => respond_fw_config st n p
  | BlkReq n p => respond_fw st n p
  end.

Fixpoint serve_all (st : otast) (rs : list request) : otast * list (res (option pstr)) :=
  match rs with
  | [] => (st, [])
  | r :: rest =>
      let '(st1, a) := serve st r in
      let '(st2, l) := serve_all st1 rest in
      (st2, a :: l)
  end.

(* the request payload a node sends for block i of firmware (t, v) *)
Definition req_payload (t v i : Z) : pstr :=
  match fw_int_to_hex [t; v; i] with Ok p => p | Raise _ => [] end.
Definition blk_request (t v : Z) (ni : Z * Z) : request :=
  BlkReq (fst ni) (req_payload t v (snd ni)).

(* node n is past its config request: block requests are answered *)
Definition is_some {A} (o : option A) : bool := match o with Some _ => true | None => false end.
Definition active (st : otast) (n : Z) : bool :=
  is_some (ns_get n (o_uns st)) || is_some (ns_get n (o_sta st)).

(* every firmware in the dict came out of prepare_fw on a byte string and its
   block count fits the 16-bit header word; every scheduled id fits 16 bits *)
Definition fware_ok (f : fware) : Prop :=
  exists img, bytes_ok img = true /\ f = prepare_fw img /\ (fw_blocks f <= 65535)%Z.
Definition store_ok (s : nstore) : Prop :=
  forall n t v, ns_get n s = Some (t, v) -> word_ok t = true /\ word_ok v = true.
Definition ota_ok (st : otast) : Prop :=
  (forall k f, fw_get k (o_fw st) = Some f -> fware_ok f) /\
  store_ok (o_req st) /\ store_ok (o_uns st) /\ store_ok (o_sta st).
