(* Abstract file system for C12/C13 (mysensors/persistence.py).

   Three directory entries (Main = persistence_file, Bak = persistence_file + ".bak",
   Tmp = <root>.tmp<ext>) bound to inodes.  An inode carries its volatile
   content (what a reader sees now: OS page cache), its durable content (what
   survives a power loss) and a dirty bit (volatile <> durable).  Contents are
   abstract: a complete saved state, a partial file, an empty file, or a file
   on which the decoder raises the class e.  The type St of saved states is a
   parameter: no operation inspects a state.

   ASSUMPTIONS (POSIX as in DESIGN 7):
   * rename is atomic and replaces the target; remove unbinds a name;
   * file data becomes durable only by fsync; on a crash a dirty inode keeps
     its durable content, its volatile content, or something in between;
   * open(..., "w") of an existing file truncates it (truncation is ordered
     with the journal: durable content becomes empty);
   * directory operations are journalled: after a crash a PREFIX of the
     directory operations issued so far is in effect (crash_fs with
     keep = prefix_keep n).  The weaker file system where an arbitrary subset
     of them may be lost is expressed by an arbitrary keep mask; the save
     protocol is NOT safe on it (C12_atomic_save_unordered_metadata_refuted). *)
From Coq Require Import List Bool Arith NArith.
From PMS Require Import Base.PyStr.
Import ListNotations.

Inductive name := Main | Bak | Tmp.

Definition name_eqb (a b : name) : bool :=
  match a, b with Main, Main | Bak, Bak | Tmp, Tmp => true | _, _ => false end.

(* Python exception class, by qualified name, e.g. "json.decoder.JSONDecodeError" *)
Definition cls := pstr.

Inductive content (St : Type) :=
| CGood (s : St)        (* decodes to the complete state s *)
| CPartial             (* proper non-empty prefix of a file / unknown junk *)
| CEmpty               (* zero length *)
| CBad (e : cls).      (* damaged: the decoder raises e (C13) *)
Arguments CGood {St} _.
Arguments CPartial {St}.
Arguments CEmpty {St}.
Arguments CBad {St} _.

Record file (St : Type) := mkFile { f_vol : content St; f_dur : content St; f_dirty : bool }.
Arguments mkFile {St} _ _ _.
Arguments f_vol {St} _.
Arguments f_dur {St} _.
Arguments f_dirty {St} _.

Definition synced {St} (c : content St) : file St := mkFile c c false.

Record dirmap := mkDir { d_main : option nat; d_bak : option nat; d_tmp : option nat }.

Definition dget (d : dirmap) (n : name) : option nat :=
  match n with Main => d_main d | Bak => d_bak d | Tmp => d_tmp d end.

Definition dset (d : dirmap) (n : name) (v : option nat) : dirmap :=
  match n with
  | Main => mkDir v (d_bak d) (d_tmp d)
  | Bak => mkDir (d_main d) v (d_tmp d)
  | Tmp => mkDir (d_main d) (d_bak d) v
  end.

Inductive dirop := DCreate (n : name) (ino : nat) | DRename (a b : name) | DRemove (a : name).

Definition dir_apply (o : dirop) (d : dirmap) : dirmap :=
  match o with
  | DCreate n i => dset d n (Some i)
  | DRename a b =>
      if name_eqb a b then d
      else match dget d a with
           | Some i => dset (dset d b (Some i)) a None
           | None => d
           end
  | DRemove a => dset d a None
  end.

(* live directory [dir]; directory as of the last point known durable [ddur];
   directory operations issued since then, newest first [dlog] *)
Record fsys (St : Type) := mkFs { inodes : list (file St); dir : dirmap; ddur : dirmap; dlog : list dirop }.
Arguments mkFs {St} _ _ _ _.
Arguments inodes {St} _.
Arguments dir {St} _.
Arguments ddur {St} _.
Arguments dlog {St} _.

Fixpoint upd_nth {A} (l : list A) (i : nat) (f : A -> A) : list A :=
  match l, i with
  | [], _ => []
  | x :: r, O => f x :: r
  | x :: r, S k => x :: upd_nth r k f
  end.

Definition fs_isfile {St} (fs : fsys St) (n : name) : bool :=
  match dget (dir fs) n with Some _ => true | None => false end.

Definition fs_upd_ino {St} (fs : fsys St) (i : nat) (f : file St -> file St) : fsys St :=
  mkFs (upd_nth (inodes fs) i f) (dir fs) (ddur fs) (dlog fs).

Definition fs_dirop {St} (fs : fsys St) (o : dirop) : fsys St :=
  mkFs (inodes fs) (dir_apply o (dir fs)) (ddur fs) (o :: dlog fs).

(* open(n, "w"): truncate or create; returns the inode number *)
Definition fs_open_trunc {St} (fs : fsys St) (n : name) : fsys St * nat :=
  match dget (dir fs) n with
  | Some i => (fs_upd_ino fs i (fun _ => synced CEmpty), i)
  | None =>
      let i := length (inodes fs) in
      (fs_dirop (mkFs (inodes fs ++ [synced CEmpty]) (dir fs) (ddur fs) (dlog fs)) (DCreate n i), i)
  end.

(* data reaches the OS: volatile content replaced, inode dirty *)
Definition fs_set_vol {St} (fs : fsys St) (i : nat) (c : content St) : fsys St :=
  fs_upd_ino fs i (fun f => mkFile c (f_dur f) true).

Definition fs_fsync {St} (fs : fsys St) (i : nat) : fsys St :=
  fs_upd_ino fs i (fun f => synced (f_vol f)).

(* None = OSError (FileNotFoundError) *)
Definition fs_rename {St} (fs : fsys St) (a b : name) : option (fsys St) :=
  match dget (dir fs) a with
  | Some _ => Some (fs_dirop fs (DRename a b))
  | None => None
  end.

Definition fs_remove {St} (fs : fsys St) (a : name) : option (fsys St) :=
  match dget (dir fs) a with
  | Some _ => Some (fs_dirop fs (DRemove a))
  | None => None
  end.

Definition fs_read {St} (fs : fsys St) (n : name) : option (content St) :=
  match dget (dir fs) n with
  | Some i => option_map f_vol (nth_error (inodes fs) i)
  | None => None
  end.

(* ---- crash ---- *)
Inductive loss := LoseAll | LoseHalf | LoseNone.

Definition half {St} (c : content St) : content St :=
  match c with CEmpty => CEmpty | _ => CPartial end.

Definition lose {St} (l : loss) (f : file St) : file St :=
  if f_dirty f then
    synced match l with LoseAll => f_dur f | LoseHalf => half (f_vol f) | LoseNone => f_vol f end
  else synced (f_vol f).

Fixpoint replay_dir (keep : nat -> bool) (i : nat) (ops : list dirop) (d : dirmap) : dirmap :=
  match ops with
  | [] => d
  | o :: r => replay_dir keep (S i) r (if keep i then dir_apply o d else d)
  end.

Definition prefix_keep (n : nat) : nat -> bool := fun i => Nat.ltb i n.

(* state found on disk after a crash: directory operation number i (0 = oldest
   since ddur) survives iff keep i; dirty inodes lose data according to l *)
Definition crash_fs {St} (keep : nat -> bool) (l : loss) (fs : fsys St) : fsys St :=
  let d := replay_dir keep 0 (rev (dlog fs)) (ddur fs) in
  mkFs (map (lose l) (inodes fs)) d d [].

(* everything issued so far is on disk (used between an orderly run and the next one) *)
Definition settle {St} (fs : fsys St) : fsys St := mkFs (inodes fs) (dir fs) (dir fs) [].

(* ---- functorial action on the state type (no operation looks inside St) ---- *)
Definition cmap {St T} (g : St -> T) (c : content St) : content T :=
  match c with CGood s => CGood (g s) | CPartial => CPartial | CEmpty => CEmpty | CBad e => CBad e end.
Definition fmap {St T} (g : St -> T) (f : file St) : file T :=
  mkFile (cmap g (f_vol f)) (cmap g (f_dur f)) (f_dirty f).
Definition fsmap {St T} (g : St -> T) (fs : fsys St) : fsys T :=
  mkFs (map (fmap g) (inodes fs)) (dir fs) (ddur fs) (dlog fs).

(* ---- syntax of the generated programs (Gen/SaveTrace.v) ---- *)

(* primitive file-system calls as the harness records them *)
Inductive prim :=
| PIsfile (n : name) | PAccessDir | PAccess (n : name)
| POpen (n : name) | PWrite | PFlush | PFsync | PClose
| PRename (a b : name) | PRemove (a : name).

(* statements of Persistence.save_sensors with _save_<fmt> inlined *)
Inductive instr :=
| IGuardNeedSave            (* if not self.need_save: return *)
| IExists (n : name)        (* exists = os.path.isfile(fname) *)
| IPermCheck (n : name)     (* if not os.access(dirname, W_OK) or exists and not os.access(fname, W_OK): return *)
| ISetNeedSave (b : bool)   (* self.need_save = b *)
| IOpen (n : name)          (* with open(n, "w") as file_handle: *)
| IDump                     (* json.dump / pickle.dump(self._sensors, file_handle): w >= 1 writes *)
| IFlush                    (* file_handle.flush() *)
| IFsync                    (* os.fsync(file_handle.fileno()) *)
| IClose                    (* end of the with block *)
| IRename (a b : name)      (* os.rename(a, b) *)
| IRemove (a : name).       (* os.remove(a) *)

(* i_guard: under `if exists:`; i_try: inside the try whose handler is
   `except Exception: self.need_save = True; raise`; i_with: inside the with
   block (an exception closes the file) *)
Record sinstr := mkI { i_op : instr; i_guard : bool; i_try : bool; i_with : bool }.

(* statements of Persistence._load_sensors(path) *)
Inductive linstr :=
| LExists                   (* exists = os.path.isfile(path) *)
| LRenameToMain             (* os.rename(path, self.persistence_file) *)
| LSetPathMain              (* path = self.persistence_file *)
| LLoad                     (* self._perform_file_action(path, "load"): self._sensors.update(<fmt>.load(fh)) *)
| LReturn (b : bool).

(* l_guard: under `if exists and os.access(path, R_OK):`; l_bak: under `if path == self.persistence_bak:` *)
Record slinstr := mkL { l_op : linstr; l_guard : bool; l_bak : bool }.

(* safe_load_sensors: try: loaded = _load_sensors() except sl_h1: loaded = False
   if not loaded: try: _load_sensors(sl_fallback) except sl_h2: <sl_h2_body> *)
Record safe_load_shape := mkSL {
  sl_h1 : list cls; sl_fallback : name; sl_h2 : list cls; sl_h2_body : list prim }.
