(* C04: the protocol MEANING of an accepted message on the persisted node/child/value tree.
   Hand-written from the property text.  Trees only: no queues, no OTA, no jobs, no log.
   Independent of the generated tables and of the handler registry; the types of the tree
   (pnode, pchild, tree) and the two payload readers (battery_of, heartbeat_of) are those of
   the machine (Model/Gateway.v); their closed forms are theorem C04_setters_fallback. *)
From Coq Require Import List NArith ZArith Bool.
From PMS Require Import Base.PyStr Base.PyInt Model.Codec Model.TableTypes Model.Gateway Spec.SerialApi.
Import ListNotations.
Open Scope Z_scope.

(* hand-written classification of an accepted message (header fields only) *)
Inductive kind :=
| KNodePres | KChildPres | KSet
| KBattery | KSketchName | KSketchVersion | KHeartbeat
| KIdRequest | KGatewayReady | KStreamReq | KOther.

Definition internal_kind (v : ver) (s : Z) : kind :=
  if s =? 0 then KBattery
  else if s =? 3 then KIdRequest
  else if s =? 11 then KSketchName
  else if s =? 12 then KSketchVersion
  else if s =? 14 then KGatewayReady
  else if s =? 22 then match v with V14 | V15 => KOther | V20 | V21 | V22 => KHeartbeat end
  else KOther.                          (* incl. discover response, pre-sleep (2.2), log, time, config *)

Definition kind_of (v : ver) (m : msg) : kind :=
  if m_type m =? 0 then (if m_child m =? 255 then KNodePres else KChildPres)
  else if m_type m =? 1 then KSet
  else if m_type m =? 3 then internal_kind v (m_sub m)
  else if m_type m =? 4 then (if (m_sub m =? 0) || (m_sub m =? 2) then KStreamReq else KOther)
  else KOther.                          (* req *)

(* ---- trees ---- *)
Definition tnew (k : Z) : pnode := mkPNode k [] None None None 0 [49%N; 46%N; 52%N] (* "1.4" *) 0.

(* change the node with key k (position kept); no such node: no change *)
Definition tupd (k : Z) (f : pnode -> pnode) (t : tree) : tree :=
  match zassoc k t with Some n => zset k (f n) t | None => t end.

(* the node k exists afterwards: appended at the end if new *)
Definition tadd (k : Z) (t : tree) : tree := if zhas k t then t else t ++ [(k, tnew k)].

(* next id: largest key + 1, or 1 for the empty tree *)
Definition tnext (t : tree) : Z :=
  match t with [] => 1 | (k, _) :: r => fold_left Z.max (map fst r) k + 1 end.

Definition known (t : tree) (n : Z) : bool := zhas n t.
Definition known_child (t : tree) (n c : Z) : bool :=
  match zassoc n t with Some nd => zhas c (pn_children nd) | None => false end.

Definition with_pchildren (n : pnode) (ch : list (Z * pchild)) : pnode :=
  mkPNode (pn_id n) ch (pn_type n) (pn_sk_name n) (pn_sk_ver n) (pn_batt n) (pn_pver n) (pn_hb n).

Definition meaning (sv : pstr -> pstr) (k : kind) (t : tree) (m : msg) : tree :=
  match k with
  | KNodePres =>
      tupd (m_node m)
           (fun n => mkPNode (pn_id n) (pn_children n) (Some (m_sub m)) (pn_sk_name n) (pn_sk_ver n)
                             (pn_batt n) (sv (m_payload m)) (pn_hb n))
           (tadd (m_node m) t)
  | KChildPres =>                       (* first presentation wins; unknown node: nothing *)
      tupd (m_node m)
           (fun n => if zhas (m_child m) (pn_children n) then n
                     else with_pchildren n (pn_children n ++
                                            [(m_child m, mkPChild (m_child m) (m_sub m) (m_payload m) [])])) t
  | KSet =>                             (* known node AND known child *)
      tupd (m_node m)
           (fun n => match zassoc (m_child m) (pn_children n) with
                     | None => n
                     | Some c => with_pchildren n
                                   (zset (m_child m)
                                         (mkPChild (pc_id c) (pc_type c) (pc_desc c)
                                                   (zset (m_sub m) (PS (m_payload m)) (pc_values c)))
                                         (pn_children n))
                     end) t
  | KBattery =>
      tupd (m_node m) (fun n => mkPNode (pn_id n) (pn_children n) (pn_type n) (pn_sk_name n) (pn_sk_ver n)
                                        (battery_of (m_payload m)) (pn_pver n) (pn_hb n)) t
  | KSketchName =>
      tupd (m_node m) (fun n => mkPNode (pn_id n) (pn_children n) (pn_type n) (Some (m_payload m)) (pn_sk_ver n)
                                        (pn_batt n) (pn_pver n) (pn_hb n)) t
  | KSketchVersion =>
      tupd (m_node m) (fun n => mkPNode (pn_id n) (pn_children n) (pn_type n) (pn_sk_name n) (Some (m_payload m))
                                        (pn_batt n) (pn_pver n) (pn_hb n)) t
  | KHeartbeat =>
      tupd (m_node m) (fun n => mkPNode (pn_id n) (pn_children n) (pn_type n) (pn_sk_name n) (pn_sk_ver n)
                                        (pn_batt n) (pn_pver n) (heartbeat_of (m_payload m))) t
  | KIdRequest => if tnext t <=? 254 then t ++ [(tnext t, tnew (tnext t))] else t
  | KGatewayReady | KStreamReq | KOther => t
  end.

(* the exact set of accepted messages for which the event callback fires (and the state is
   marked unsaved): closed predicate on (kind, tree before, message) *)
Definition alerting_k (k : kind) (t : tree) (m : msg) : bool :=
  match k with
  | KNodePres | KGatewayReady => true
  | KChildPres => known t (m_node m) && negb (known_child t (m_node m) (m_child m))
  | KSet => known_child t (m_node m) (m_child m)
  | KBattery | KSketchName | KSketchVersion | KHeartbeat | KStreamReq => known t (m_node m)
  | KIdRequest => tnext t <=? 254
  | KOther => false
  end.
Definition alerting (v : ver) (t : tree) (m : msg) : bool := alerting_k (kind_of v m) t m.

(* a received line: its meaning when it decodes and is accepted (acc = the validation verdict of
   the configured version), the identity otherwise *)
Definition meaning_line (sv : pstr -> pstr) (acc : msg -> bool) (v : ver) (t : tree) (l : pstr) : tree :=
  match decode l with
  | Some m => if acc m then meaning sv (kind_of v m) t m else t
  | None => t
  end.
Definition alerted_line (acc : msg -> bool) (v : ver) (t : tree) (l : pstr) : option msg :=
  match decode l with
  | Some m => if acc m && alerting v t m then Some m else None
  | None => None
  end.
