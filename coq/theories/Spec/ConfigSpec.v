(* C18 - specification, written from README.md and the property text only
   (nothing here depends on the generated part or on the model):
   the documented keyword options of each gateway class, where each option
   must be visible after construction, and the version floor rule. *)
From Coq Require Import List NArith ZArith Bool String.
From PMS Require Import Base.PyStr Model.ConfigSyntax.
Import ListNotations.
Open Scope N_scope.
Open Scope list_scope.

(* ------------------------------------------------------------------ *)
(* Numeric comparison of dotted versions.  A version is its list of
   sections; the shorter one is padded with zero sections, then the lists are
   compared lexicographically.  So "2", "2.0" and "2.0.0" are numerically
   equal (cmpv = Eq) although they are different strings. *)
Fixpoint lex (a b : list N) : comparison :=
  match a, b with
  | [], [] => Eq
  | [], _ :: _ => Lt
  | _ :: _, [] => Gt
  | x :: a', y :: b' => match N.compare x y with Eq => lex a' b' | c => c end
  end.

Definition pad (n : nat) (l : list N) : list N := l ++ repeat 0 (n - List.length l).

Definition cmpv (a b : list N) : comparison :=
  let n := Nat.max (List.length a) (List.length b) in lex (pad n a) (pad n b).

Definition le_num (a b : list N) : Prop := cmpv a b <> Gt.
Definition le_numb (a b : list N) : bool := match cmpv a b with Gt => false | _ => true end.

(* The supported protocol versions and the constants module of each
   (README: "supports serial protocol v1.4, v1.5, v2.0 - v2.2"). *)
Definition supported : list (list N * pstr) :=
  [ ([1; 4], s2p "mysensors.const_14");
    ([1; 5], s2p "mysensors.const_15");
    ([2; 0], s2p "mysensors.const_20");
    ([2; 1], s2p "mysensors.const_21");
    ([2; 2], s2p "mysensors.const_22") ].

Definition fallback_version : list N := [1; 4].
Definition fallback_module : pstr := s2p "mysensors.const_14".

(* c is the version floor of v: the highest supported version not above v *)
Definition is_floor (v c : list N) : Prop :=
  In c (map fst supported) /\ le_num c v /\
  forall c', In c' (map fst supported) -> le_num c' v -> le_num c' c.

(* the rule as a function: scan the supported versions, keep the best so far *)
Fixpoint floor_from (best : option (list N * pstr)) (l : list (list N * pstr)) (v : list N)
  : option (list N * pstr) :=
  match l with
  | [] => best
  | (c, m) :: r =>
      let better := match best with None => true | Some (b, _) => le_numb b c end in
      floor_from (if le_numb c v && better then Some (c, m) else best) r v
  end.

Definition floor_module (v : list N) : pstr :=
  match floor_from None supported v with Some (_, m) => m | None => fallback_module end.

(* the constants of a 2.x protocol version (they know the presentation request) *)
Definition is_2x (m : pstr) : bool :=
  pstr_eqb m (s2p "mysensors.const_20") || pstr_eqb m (s2p "mysensors.const_21")
  || pstr_eqb m (s2p "mysensors.const_22").

(* ------------------------------------------------------------------ *)
(* Documented constructor options. *)
Inductive gwclass := SerialGw | AsyncSerialGw | TCPGw | AsyncTCPGw | MQTTGw | AsyncMQTTGw.
Definition all_classes : list gwclass := [SerialGw; AsyncSerialGw; TCPGw; AsyncTCPGw; MQTTGw; AsyncMQTTGw].

Definition class_name (c : gwclass) : pstr :=
  s2p match c with
      | SerialGw => "SerialGateway" | AsyncSerialGw => "AsyncSerialGateway"
      | TCPGw => "TCPGateway" | AsyncTCPGw => "AsyncTCPGateway"
      | MQTTGw => "MQTTGateway" | AsyncMQTTGw => "AsyncMQTTGateway"
      end%string.

Inductive opt :=
| OEventCallback | OPersistence | OPersistenceFile | OProtocolVersion
| OBaud | OPort | OTimeout | OReconnectTimeout
| OInPrefix | OOutPrefix | ORetain.

Definition opt_name (o : opt) : pstr :=
  s2p match o with
      | OEventCallback => "event_callback" | OPersistence => "persistence"
      | OPersistenceFile => "persistence_file" | OProtocolVersion => "protocol_version"
      | OBaud => "baud" | OPort => "port" | OTimeout => "timeout"
      | OReconnectTimeout => "reconnect_timeout"
      | OInPrefix => "in_prefix" | OOutPrefix => "out_prefix" | ORetain => "retain"
      end%string.

Definition common : list opt := [OEventCallback; OPersistence; OPersistenceFile; OProtocolVersion].

Definition documented (c : gwclass) : list opt :=
  match c with
  | SerialGw | AsyncSerialGw => common ++ [OBaud; OTimeout; OReconnectTimeout]
  | TCPGw | AsyncTCPGw => common ++ [OPort; OTimeout; OReconnectTimeout]
  | MQTTGw | AsyncMQTTGw => common ++ [OInPrefix; OOutPrefix; ORetain]
  end.

(* the arguments every call needs: the serial port, the host, the two MQTT callbacks *)
Definition required (c : gwclass) : list (pstr * val) :=
  match c with
  | SerialGw | AsyncSerialGw => [(s2p "port", VStr (s2p "/dev/ttyACM0"))]
  | TCPGw | AsyncTCPGw => [(s2p "host", VStr (s2p "127.0.0.1"))]
  | MQTTGw | AsyncMQTTGw => [(s2p "pub_callback", VObj (s2p "pub")); (s2p "sub_callback", VObj (s2p "sub"))]
  end.

(* two representative values per option *)
Definition rep (o : opt) (second : bool) : val :=
  match o, second with
  | OEventCallback, false => VObj (s2p "cbA")     | OEventCallback, true => VObj (s2p "cbB")
  | OPersistence, false => VBool true             | OPersistence, true => VBool false
  | OPersistenceFile, false => VStr (s2p "a.json") | OPersistenceFile, true => VStr (s2p "dir/b.pickle")
  | OProtocolVersion, false => VStr (s2p "2.2")   | OProtocolVersion, true => VStr (s2p "2.0.0")
  | OBaud, false => VInt 57600                    | OBaud, true => VInt 9600
  | OPort, false => VInt 5004                     | OPort, true => VInt 1
  | OTimeout, false => VFloat (s2p "2.5")         | OTimeout, true => VInt 3
  | OReconnectTimeout, false => VFloat (s2p "7.0") | OReconnectTimeout, true => VFloat (s2p "0.5")
  | OInPrefix, false => VStr (s2p "in-a")         | OInPrefix, true => VStr (s2p "a/b")
  | OOutPrefix, false => VStr (s2p "out-a")       | OOutPrefix, true => VStr (s2p "x/y")
  | ORetain, false => VBool false                 | ORetain, true => VBool true
  end.

(* the version sections of the two representative protocol_version values *)
Definition rep_version_sections (second : bool) : list N := if second then [2; 0; 0] else [2; 2].

(* per documented option: absent, first or second representative value *)
Inductive choice := Absent | RepA | RepB.

Fixpoint selected_of (os : list opt) (ch : list choice) : list (opt * val) :=
  match os, ch with
  | o :: os', Absent :: ch' => selected_of os' ch'
  | o :: os', RepA :: ch' => (o, rep o false) :: selected_of os' ch'
  | o :: os', RepB :: ch' => (o, rep o true) :: selected_of os' ch'
  | _, _ => []
  end.
Definition selected (c : gwclass) (ch : list choice) : list (opt * val) := selected_of (documented c) ch.

(* the call: required arguments positionally (as README does) or by keyword,
   every selected option by keyword *)
Definition call_of (c : gwclass) (by_keyword : bool) (ch : list choice)
  : list val * list (pstr * val) :=
  let kws := map (fun ov => (opt_name (fst ov), snd ov)) (selected c ch) in
  if by_keyword then ([], required c ++ kws) else (map snd (required c), kws).

(* all choice vectors of a given length *)
Fixpoint all_choices (n : nat) : list (list choice) :=
  match n with
  | O => [[]]
  | S k => flat_map (fun t => [Absent :: t; RepA :: t; RepB :: t]) (all_choices k)
  end.

(* ---- where each option acts.  `look path` reads an attribute path of the
   constructed gateway object (gw.tasks.transport.timeout = look [tasks;transport;timeout]) *)
Definition p (l : list string) : list pstr := map s2p l.

Definition opt_eqb (a b : opt) : bool :=
  match a, b with
  | OEventCallback, OEventCallback | OPersistence, OPersistence
  | OPersistenceFile, OPersistenceFile | OProtocolVersion, OProtocolVersion
  | OBaud, OBaud | OPort, OPort | OTimeout, OTimeout | OReconnectTimeout, OReconnectTimeout
  | OInPrefix, OInPrefix | OOutPrefix, OOutPrefix | ORetain, ORetain => true
  | _, _ => false
  end.

Definition is_true_val (v : val) : bool := match v with VBool true => true | _ => false end.

(* persistence was switched on by the call *)
Definition persistence_on (sel : list (opt * val)) : bool :=
  existsb (fun ov => opt_eqb (fst ov) OPersistence && is_true_val (snd ov)) sel.

Definition host_of (c : gwclass) : val :=
  match required c with (_, h) :: _ => h | [] => VNone end.

Section Honoured.
Variable look : list pstr -> option val.

Definition honoured (c : gwclass) (sel : list (opt * val)) (o : opt) (v : val) : Prop :=
  match o with
  | OTimeout => look (p ["tasks"; "transport"; "timeout"]%string) = Some v
  | OReconnectTimeout => look (p ["tasks"; "transport"; "reconnect_timeout"]%string) = Some v
  | OBaud => look (p ["baud"]%string) = Some v
  | OPort => look (p ["server_address"]%string) = Some (VPair (host_of c) v)
  | OInPrefix => look (p ["tasks"; "transport"; "in_prefix"]%string) = Some v
  | OOutPrefix => look (p ["tasks"; "transport"; "out_prefix"]%string) = Some v
  | ORetain => look (p ["tasks"; "transport"; "_retain"]%string) = Some v
  | OEventCallback => look (p ["event_callback"]%string) = Some v
  | OPersistence =>
      if is_true_val v
      then exists n, look (p ["tasks"; "persistence"]%string) = Some (VRef n)
      else look (p ["tasks"; "persistence"]%string) = Some VNone
  | OPersistenceFile =>
      (* the file name matters only when persistence is on *)
      persistence_on sel = true ->
      look (p ["tasks"; "persistence"; "persistence_file"]%string) = Some v
  | OProtocolVersion =>
      (* both representative values are supported-or-newer numeric versions:
         kept as given, and the constants are those of the version floor *)
      look (p ["protocol_version"]%string) = Some v /\
      exists second, v = rep OProtocolVersion second /\
        look (p ["const"]%string) = Some (VObj (floor_module (rep_version_sections second)))
  end.

(* the required arguments are visible too *)
Definition required_visible (c : gwclass) : Prop :=
  match c with
  | SerialGw | AsyncSerialGw => look (p ["port"]%string) = Some (host_of c)
  | TCPGw | AsyncTCPGw => exists port, look (p ["server_address"]%string) = Some (VPair (host_of c) port)
  | MQTTGw | AsyncMQTTGw => True
  end.

End Honoured.
