(* C05: the closed reply table.  Hand-written from the property text and the MySensors serial
   API; independent of handler.py, const_*.py, Gen/Tables.v and Model/Gateway.v.
   A message is `msg` of Model/Codec.v (node; child; type; ack; sub-type; payload).
   Where the property text leaves a choice the table takes the code's side and says so. *)
From Coq Require Import List ZArith Bool String.
From PMS Require Import Base.PyStr Base.PyInt Model.Codec Spec.SerialApi.
Import ListNotations.
Open Scope Z_scope.

(* what a reply may depend on: the gateway's registry as seen before the message is processed,
   the unit setting and the controller's clock *)
Record view := mkView {
  vw_ids : list Z;                           (* registered node ids, in registry order *)
  vw_child : Z -> Z -> bool;                 (* node, child: the child is registered on the node *)
  vw_sleeping : Z -> bool;                   (* the node is registered and holds desired state (smart sleep) *)
  vw_desired : Z -> Z -> Z -> option pstr;   (* node, child, sub-type: pending (unconfirmed) desired value *)
  vw_reported : Z -> Z -> Z -> option pstr;  (* node, child, sub-type: latest reported value *)
  vw_reboot : Z -> bool;                     (* a firmware update has been ordered for the node *)
  vw_metric : bool;
  vw_clock : Z;                              (* calendar.timegm(time.localtime()) *)
  (* OTA part, not interpreted here (C09 / C10): the payload of the firmware config response /
     firmware block response that the OTA session gives to this request, if any *)
  vw_fw_config : msg -> option pstr;
  vw_fw_block : msg -> option pstr }.

Definition v_ge20 (v : ver) : bool := match v with V20 | V21 | V22 => true | _ => false end.

Definition known (vw : view) (n : Z) : bool := existsb (Z.eqb n) (vw_ids vw).

(* Gateway._get_next_id: largest registered id + 1 (1 for an empty registry), if <= 254 *)
Definition spec_next_id (ids : list Z) : option Z :=
  let nid := match ids with [] => 1 | i :: _ => fold_left Z.max ids i + 1 end in
  if nid <=? 254 then Some nid else None.

(* the value a request is answered with: the pending desired value while the node sleeps,
   else the latest reported value *)
Definition answer_value (vw : view) (n c s : Z) : option pstr :=
  if vw_sleeping vw n then
    match vw_desired vw n c s with Some p => Some p | None => vw_reported vw n c s end
  else vw_reported vw n c s.

(* what the gateway does with an accepted internal message, per protocol version *)
Inductive action :=
| Silent        (* nothing *)
| NodeGuard     (* nothing, but the node must be known *)
| Time | Config | IdRequest
| Discover      (* gateway ready on a >= 2.0 gateway *)
| WakeUp.       (* node must be known; then the wake-up flush of withheld commands: C08 *)

Definition internal_action (v : ver) (s : Z) : action :=
  if s =? 0 then NodeGuard                                     (* I_BATTERY_LEVEL *)
  else if s =? 1 then Time                                     (* I_TIME *)
  else if s =? 3 then IdRequest                                (* I_ID_REQUEST *)
  else if s =? 6 then Config                                   (* I_CONFIG *)
  else if (s =? 11) || (s =? 12) then NodeGuard                (* I_SKETCH_NAME / I_SKETCH_VERSION *)
  else if s =? 14 then (if v_ge20 v then Discover else Silent) (* I_GATEWAY_READY *)
  else if (s =? 21) && v_ge20 v then NodeGuard                 (* I_DISCOVER_RESPONSE *)
  else if s =? 22 then match v with V20 | V21 => WakeUp | V22 => NodeGuard | _ => Silent end  (* I_HEARTBEAT_RESPONSE *)
  else if s =? 32 then match v with V22 => WakeUp | _ => Silent end   (* I_PRE_SLEEP_NOTIFICATION *)
  else Silent.

Definition presentation_request (n : Z) : msg := mkMsg n 255 3 0 19 [].
Definition reboot_order (n : Z) : msg := mkMsg n 255 3 0 13 [].
Definition discover_request (c : Z) : msg := mkMsg 255 c 3 0 20 [].

(* reply to a message that needs a node / child the gateway does not know *)
Definition unknown_reply (v : ver) (n : Z) : list msg :=
  if v_ge20 v then [presentation_request n] else [].

(* The table.  m is an accepted (decoded, valid for v) inbound message. *)
Definition prescribed (v : ver) (vw : view) (m : msg) : list msg :=
  let n := m_node m in let c := m_child m in let s := m_sub m in
  let need_node (k : list msg) := if known vw n then k else unknown_reply v n in
  let need_child (k : list msg) := if known vw n && vw_child vw n c then k else unknown_reply v n in
  if m_type m =? 0 then                                            (* presentation *)
    if c =? 255 then [] else need_node []
  else if m_type m =? 1 then                                       (* set *)
    need_child (if vw_reboot vw n then [reboot_order n] else [])
  else if m_type m =? 2 then                                       (* req: a copy of the request with
                                                                      type set and the value; the ack flag is the request's *)
    need_child (match answer_value vw n c s with
                | Some p => [mkMsg n c 1 (m_ack m) s p]
                | None => []
                end)
  else if m_type m =? 3 then                                       (* internal *)
    match internal_action v s with
    | Silent => []
    | NodeGuard => need_node []
    | Time => [mkMsg n c 3 0 1 (print (vw_clock vw))]
    | Config => [mkMsg n c 3 0 6 (s2p (if vw_metric vw then "M" else "I"))]
    | IdRequest => match spec_next_id (vw_ids vw) with
                   | Some i => [mkMsg n c 3 0 4 (print i)]
                   | None => []
                   end
    | Discover => [discover_request c]
    | WakeUp => need_node []            (* for a known node the flush follows: excluded, see wakes_up *)
    end
  else                                                             (* stream *)
    need_node (if s =? 0 then match vw_fw_config vw m with
                              | Some p => [mkMsg n c 4 (m_ack m) 1 p]
                              | None => []
                              end
               else if s =? 2 then match vw_fw_block vw m with
                                   | Some p => [mkMsg n c 4 (m_ack m) 3 p]
                                   | None => []
                                   end
               else []).

(* the messages whose handling includes the wake-up flush (C08) *)
Definition wakes_up (v : ver) (vw : view) (m : msg) : bool :=
  (m_type m =? 3) && known vw (m_node m) &&
  match internal_action v (m_sub m) with WakeUp => true | _ => false end.

(* routing: a command for a sleeping node is withheld in that node's queue, unless it is a
   stream (OTA) command.  sl = the sleeping predicate of the view (vw_sleeping vw). *)
Definition withheld (sl : Z -> bool) (x : msg) : bool := negb (m_type x =? 4) && sl (m_node x).
Definition emitted_part (sl : Z -> bool) (p : list msg) : list pstr :=
  map encode (filter (fun x => negb (withheld sl x)) p).
Definition withheld_part (sl : Z -> bool) (k : Z) (p : list msg) : list pstr :=
  map encode (filter (fun x => withheld sl x && (m_node x =? k)) p).
