(* C20 - vocabulary of the statements in Props/C20.v (definitions only). *)
From Coq Require Import List ZArith Bool.
From PMS Require Import Gen.SupConsts Model.Watchdog Model.Supervise.
Import ListNotations.
Open Scope Z_scope.

Definition is_async_fl := is_async.
Definition is_made (o : output) : bool := match o with MadeCb => true | _ => false end.
Definition is_lost (o : output) : bool := match o with LostCb _ => true | _ => false end.
Definition is_cb (o : output) : bool := is_made o || is_lost o.
Definition is_attempt (o : output) : bool := match o with Attempt _ => true | _ => false end.
Definition is_sleep (o : output) : bool := match o with Sleep _ => true | _ => false end.

(* the callbacks among some outputs, in order *)
Definition cbs (o : out) : out := filter is_cb o.

Definition user_event (e : event) : bool :=
  match e with UserDisconnect | Stop => true | _ => false end.

(* The exc argument on_conn_lost must get when event e ends a link: an exception object
   for errors the reader detects (read error, reset, and - threaded TCP only - the
   watchdog, whose OSError is raised in the reader thread); None when mysensors code closed
   the link itself (disconnect(), stop(), failed write, asyncio watchdog) or the peer
   closed in an orderly way. *)
Definition loss_exc (fl : flavour) (e : event) : bool :=
  match e with
  | ReadError | PeerReset => true
  | UserDisconnect | Stop | WriteError | Send => false
  | PeerClose | Tick _ | ProbeAnswered | AttemptOk | AttemptFail =>
      match fl with SyncTcp => true | _ => false end
  end.

(* callbacks a step must produce, from the link state before (c) and after (c') *)
Definition cb_expected (c c' : bool) (exc : bool) : out :=
  if negb c && c' then [MadeCb] else if c && negb c' then [LostCb exc] else [].

(* invariant of reachable states *)
Definition Inv (fl : flavour) (s : st) : Prop :=
  (conn s = true -> tp s = true /\ ct s = CIdle) /\
  (forall w, timer s = Some w -> conn s = true /\ fl = AsyncTcp) /\
  (stopped s = true -> tp s = false /\ conn s = false).

(* number of links established / lost along a run *)
Fixpoint links_made (fl : flavour) (p : params) (s : st) (es : list event) : nat :=
  match es with
  | [] => O
  | e :: r => let s' := fst (step fl p s e) in
              ((if negb (conn s) && conn s' then 1 else 0) + links_made fl p s' r)%nat
  end.
Fixpoint links_lost (fl : flavour) (p : params) (s : st) (es : list event) : nat :=
  match es with
  | [] => O
  | e :: r => let s' := fst (step fl p s e) in
              ((if conn s && negb (conn s') then 1 else 0) + links_lost fl p s' r)%nat
  end.

(* made / lost callbacks alternate, starting with made when no link is up (c = false) *)
Fixpoint alternate (c : bool) (l : out) : bool :=
  match l with
  | [] => true
  | MadeCb :: r => negb c && alternate true r
  | LostCb _ :: r => c && alternate false r
  | _ :: r => alternate c r
  end.

(* total simulated time of the Tick events of a sequence *)
Fixpoint total_ticks (es : list event) : Z :=
  match es with
  | [] => 0
  | Tick dt :: r => Z.max 0 dt + total_ticks r
  | _ :: r => total_ticks r
  end.

Definition no_user (es : list event) : bool := forallb (fun e => negb (user_event e)) es.

Fixpoint first_attempt (o : out) : option Z :=
  match o with
  | [] => None
  | Attempt t :: _ => Some t
  | _ :: r => first_attempt r
  end.

(* nothing but the dial loop's sleeps: no callback, attempt, write or close *)
Definition quiet (o : out) : bool := forallb is_sleep o.

(* the dial loop that is running, if any, is ended by stop() at once (asyncio: it is
   transport.connect_task and gets cancelled).  Any other loop - threaded, or the first
   asyncio loop run by start() - ends at its next loop test (`while transport.protocol`) *)
Definition stoppable (s : st) : Prop := ct s = CIdle \/ cancellable s = true.

(* parameters used by the Examples: reconnect_timeout = 0.5 s, call_later slack 0.1 s, in ticks of 1/1024 s *)
Definition p0 : params := mkParams 512 103.
