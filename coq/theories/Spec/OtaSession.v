(* Reference automaton of one node's OTA firmware session, written from the text of
   property C10 ("OTA sessions are gated, restartable and terminate"), independent of
   mysensors/ota.py and of Model/Gateway.v.

     Idle --Update k--> Requested k --CfgReq/CfgResp k--> Offered k --BlkReq k' i/BlkResp k' i--> Fetching k
                                                          (CfgReq repeats CfgResp k)             (BlkReq repeats)
     Update k from ANY state -> Requested k (restart);  Malformed: no output, no change;
     Idle / Fetching ignore CfgReq;  Idle / Requested ignore BlkReq.

   An output is an OFFER: the concrete gateway sends the corresponding message when the
   firmware dictionary holds an image for the key of the output (the scheduled key for a
   config response, the REQUESTED key for a block response) and nothing otherwise; the
   state moves in both cases (DESIGN C10, reading note). *)
From Coq Require Import List ZArith Bool.
Import ListNotations.
Open Scope Z_scope.

Definition fwkey := (Z * Z)%type.          (* (firmware type, firmware version) *)

Inductive session :=
| Idle
| Requested (k : fwkey)      (* scheduled by an update call, no config request seen yet *)
| Offered (k : fwkey)        (* config response sent at least once, no block request yet *)
| Fetching (k : fwkey).      (* the node has started fetching blocks *)

Inductive sin :=
| Update (k : fwkey)         (* update call naming this known node; firmware for k available; k in range *)
| CfgReq                     (* well-formed firmware config request *)
| BlkReq (k : fwkey) (i : Z) (* well-formed firmware (block) request for key k, block i *)
| Malformed.                 (* config / block request whose payload is not the hex of 5 / 3 words *)

Inductive sout :=
| NoOut
| CfgResp (k : fwkey)
| BlkResp (k : fwkey) (i : Z).

Definition sstep (s : session) (i : sin) : session * sout :=
  match i with
  | Update k => (Requested k, NoOut)
  | CfgReq =>
      match s with
      | Requested k | Offered k => (Offered k, CfgResp k)
      | Idle | Fetching _ => (s, NoOut)
      end
  | BlkReq k' b =>
      match s with
      | Offered k | Fetching k => (Fetching k, BlkResp k' b)
      | Idle | Requested _ => (s, NoOut)
      end
  | Malformed => (s, NoOut)
  end.

Fixpoint srun (s : session) (is : list sin) : session * list sout :=
  match is with
  | [] => (s, [])
  | i :: r => let '(s1, o) := sstep s i in let '(s2, os) := srun s1 r in (s2, o :: os)
  end.

(* the key a session was scheduled with *)
Definition key_of (s : session) : option fwkey :=
  match s with Idle => None | Requested k | Offered k | Fetching k => Some k end.

Definition is_update (i : sin) : bool := match i with Update _ => true | _ => false end.
Definition is_cfg_resp (o : sout) : bool := match o with CfgResp _ => true | _ => false end.
Definition is_fetching (s : session) : bool := match s with Fetching _ => true | _ => false end.

(* ---- the reboot window of a node: a one-bit automaton ---- *)
Inductive rin :=
| RUpdate            (* update call scheduling this known node *)
| RSet               (* accepted set message from a known child of the node *)
| RPresented.        (* node presentation (child id 255) *)

(* state: the reboot flag; output: is a reboot request sent in reply? *)
Definition rstep (b : bool) (i : rin) : bool * bool :=
  match i with
  | RUpdate => (true, false)
  | RSet => (b, b)
  | RPresented => (false, false)
  end.
