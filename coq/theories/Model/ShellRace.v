(* Command interpreter of the C16 model runner (extracted to _build/model_runRace and
   evaluated by vm_compute in the extraction cross-check).

   race <ev> <open0> <usercb> <msg> s<tids> s<lines>
       replay a LINE-level schedule recorded on the real code: for each (tid, line) the thread
       executes its next steps while they carry that source line (labels and jumps are executed
       eagerly: they touch nothing shared); a line for which the thread has no step is a no-op.
   atomic <ev> <open0> <usercb> <msg> s<choices>     run an atomic-step schedule (1 = sender)
   explore <ev> <open0> <usercb> <msg>               size of the enumeration and its verdict
   queue <pumps> s<events> <list> ...                the job queue (event 2p = producer p appends
                                                     its next job, 2i+1 = pump i does one deque access)
   observation: <sender exn|-> <event exn|-> s<log> <protocol set> <transport 0|1+cid> <open0> <open1>
                <reconnect requests> <user callbacks> <sender finished> <event finished>
   log entry = 100*cid + 10*kind + open   (kind 1 = the encoded message, 2 = the str, 0 = other) *)
From Coq Require Import List NArith ZArith Bool String.
From PMS Require Import Base.PyStr Base.PyInt Base.Exn Model.Codec Model.ShellBase Model.SendRace Gen.SendSteps.
Import ListNotations.
Open Scope N_scope.

Record shell_state := mkShell { sh_unit : unit }.
Definition shell_init : shell_state := mkShell tt.

Definition P_gen : progs :=
  mkProgs send_steps send_nregs disconnect_steps disconnect_nregs
          connection_lost_steps connection_lost_nregs connection_made_steps connection_made_nregs.

Definition silent (i : instr) : bool := match i with ILabel _ | IJmp _ => true | _ => false end.

(* one macro step of thread `who` for source line L (None: silent steps only) *)
Fixpoint macro (fuel : nat) (pa pb : list step) (who : bool) (L : option N) (c : config) : config :=
  match fuel with
  | O => c
  | S f =>
      let prog := if who then pa else pb in
      let t := if who then c_a c else c_b c in
      if enabled prog t then
        match nth_error prog (t_pc t) with
        | Some s =>
            if silent (s_ins s) || match L with Some l => N.eqb (s_line s) l | None => false end
            then match cstep pa pb who c with Some c' => macro f pa pb who L c' | None => c end
            else c
        | None => c
        end
      else c
  end.

Fixpoint replay (fuel : nat) (pa pb : list step) (tr : list (N * N)) (c : config) : config :=
  match tr with
  | [] => macro fuel pa pb false None (macro fuel pa pb true None c)
  | (t, l) :: r => replay fuel pa pb r (macro fuel pa pb (N.eqb t 0) (Some l) c)
  end.

Definition tok_bool (t : pstr) : option bool :=
  match tok_N t with Some 0 => Some false | Some 1 => Some true | _ => None end.

Definition tok_event (t : pstr) : option event :=
  match tok_N t with
  | Some 0 => Some EvLostNoErr | Some 1 => Some EvLostErr
  | Some 2 => Some EvDisconnect | Some 3 => Some EvLostReconn | _ => None
  end.

Definition tok_scenario (a b c d : pstr) : option scenario :=
  match tok_event a, tok_bool b, tok_bool c, tok_bool d with
  | Some ev, Some o, Some u, Some m => Some (mkSc ev o u m)
  | _, _, _, _ => None
  end.

Definition out_exn (e : option exn) : pstr := match e with Some x => exn_name x | None => [45] end.

Definition enc_entry (e : N * val * bool) : N :=
  let '(c, a, o) := e in
  100 * c + 10 * (match a with VMsgBytes => 1 | VMsg => 2 | _ => 0 end) + (if o then 1 else 0).

Definition out_obs (pa pb : list step) (c : config) : pstr :=
  let h := c_h c in
  sp [out_exn (t_exn (c_a c)); out_exn (t_exn (c_b c)); out_str (map enc_entry (h_log h));
      out_bool (h_protocol h); out_N (match h_transport h with Some k => 1 + k | None => 0 end);
      out_bool (h_open0 h); out_bool (h_open1 h); out_N (h_reconn h); out_N (h_user h);
      out_bool (negb (enabled pa (c_a c))); out_bool (negb (enabled pb (c_b c)))].

Fixpoint zip {A B} (l : list A) (m : list B) : list (A * B) :=
  match l, m with x :: l', y :: m' => (x, y) :: zip l' m' | _, _ => [] end.

Definition race_cmd (cmd : pstr) (args : list pstr) : option pstr :=
  if pstr_eqb cmd (s2p "race") then
    match args with
    | [a; b; c; d; ts; ls] =>
        match tok_scenario a b c d, tok_str ts, tok_str ls with
        | Some sc, Some tids, Some lines =>
            let pa := p_send P_gen in let pb := event_prog P_gen (sc_ev sc) in
            if Nat.eqb (List.length tids) (List.length lines)
            then Some (out_obs pa pb (replay (List.length pa + List.length pb) pa pb (zip tids lines) (init_cfg P_gen sc)))
            else Some bad
        | _, _, _ => Some bad
        end
    | _ => Some bad
    end
  else if pstr_eqb cmd (s2p "atomic") then
    match args with
    | [a; b; c; d; ch] =>
        match tok_scenario a b c d, tok_str ch with
        | Some sc, Some choices =>
            let pa := p_send P_gen in let pb := event_prog P_gen (sc_ev sc) in
            Some (out_obs pa pb (run_sched pa pb (map (fun x => N.eqb x 1) choices) (init_cfg P_gen sc)))
        | _, _ => Some bad
        end
    | _ => Some bad
    end
  else if pstr_eqb cmd (s2p "explore") then
    match args with
    | [a; b; c; d] =>
        match tok_scenario a b c d with
        | Some sc =>
            let l := explore (p_send P_gen) (event_prog P_gen (sc_ev sc)) (init_cfg P_gen sc) in
            Some (sp [out_N (N.of_nat (List.length l)); out_bool (forallb (safe sc) l)])
        | None => Some bad
        end
    | _ => Some bad
    end
  else None.

Definition qev_of (n : N) : qev :=
  if N.even n then QProd (N.to_nat (N.div2 n)) else QPump (N.to_nat (N.div2 n)).

Definition queue_cmd (cmd : pstr) (args : list pstr) : option pstr :=
  if pstr_eqb cmd (s2p "queue") then
    match args with
    | p :: e :: ls =>
        match tok_N p, tok_str e, map_opt tok_str ls with
        | Some pumps, Some evs, Some lists =>
            let s := qrun (map qev_of evs) (qinit lists (N.to_nat pumps)) in
            Some (sp [out_bool (q_err s); out_str (map snd (q_sent s));
                      out_str (map (fun x => N.of_nat (fst x)) (q_sent s));
                      out_N (N.of_nat (List.length (q_queue s)))])
        | _, _, _ => Some bad
        end
    | _ => Some bad
    end
  else None.

Definition first_some {A} (l : list (option A)) (d : A) : A :=
  fold_right (fun o acc => match o with Some x => x | None => acc end) d l.

Definition shell_step (st : shell_state) (line : pstr) : shell_state * pstr :=
  match tokens line with
  | cmd :: args =>
      if pstr_eqb cmd (s2p "reset") then (shell_init, s2p "ok")
      else (st, first_some [race_cmd cmd args; queue_cmd cmd args] bad)
  | [] => (st, bad)
  end.

Fixpoint shell_run (st : shell_state) (lines : list pstr) : list pstr :=
  match lines with
  | [] => []
  | l :: r => let '(st', o) := shell_step st l in o :: shell_run st' r
  end.
