(* Command interpreter of the C15 runner (tag "Sched").

   reset                                 -> ok
   init <j|p> <s|a> <gen|fixed|d9|d10>   -> ok     format, flavour, which code shape
   m <msg>                               -> one inbound message (event EMsg)
   mkfile                                -> ok     set-up: the persistence file holds the current tree
   save <plan>                           -> one scheduled save (EFire, then sub-steps) under a plan
   stop <plan>                           -> stop(): cancel + final save under a plan
   <msg>  ::= n <id> <type> | c <node> <child> <type> | v <node> <child> <vtype> <value>
   <plan> ::= clean | denied | io <open|ser|sync|renbak|renmain|rembak> <j> | msg <j> <msg>
   Every answer ends with the observation
     d=<need_save> a=<armed> s=<stopped> disk=<what a load returns> tree=<memory> *)
From Coq Require Import List NArith ZArith Bool String.
From PMS Require Import Base.PyStr Base.PyInt Base.Exn Model.Codec Model.ShellBase Model.SaveSched Gen.SchedAst.
Import ListNotations.
Open Scope N_scope.

Record shell_state := mkShell { sh_fmt : fmt; sh_fl : flavour; sh_cfg : cfg; sh_st : st }.
Definition shell_init : shell_state := mkShell Json Sync gen_cfg (init [] (mkFs None None)).

(* ---- rendering ---- *)
Definition out_vals (l : list (Z * Z)) : pstr :=
  join (s2p ",") (map (fun kv => out_Z (fst kv) ++ s2p "=" ++ out_Z (snd kv)) l).
Definition out_child (c : child) : pstr :=
  out_Z (c_id c) ++ s2p ":" ++ out_Z (c_typ c) ++ s2p "{" ++ out_vals (c_vals c) ++ s2p "}".
Definition out_node (n : node) : pstr :=
  out_Z (n_id n) ++ s2p ":" ++ out_Z (n_typ n) ++ s2p "(" ++ join (s2p "|") (map out_child (n_children n)) ++ s2p ")".
Definition out_tree (t : tree) : pstr :=
  match t with [] => s2p "-" | _ => join (s2p ";") (map out_node t) end.
Definition out_disk (d : option tree) : pstr :=
  match d with None => s2p "none" | Some t => out_tree t end.

Definition out_obs (s : st) : pstr :=
  sp [s2p "d=" ++ out_bool (s_dirty s); s2p "a=" ++ out_bool (s_armed s); s2p "s=" ++ out_bool (s_stopped s);
      s2p "disk=" ++ out_disk (load (s_fs s)); s2p "tree=" ++ out_tree (s_tree s)].

Definition out_fclass (f : fclass) : pstr :=
  s2p match f with FOSError => "OSError" | FRuntimeError => "RuntimeError" | FCancelled => "CancelledError" end%string.

Definition out_outp (s : st) (o : outp) : pstr :=
  match s_saving s with
  | Some _ => s2p "running"
  | None =>
      match o with
      | ONoop => s2p "noop"
      | OMsg a => s2p "msg" ++ out_bool a
      | OProgress => s2p "running"
      | OEnded true _ _ _ => s2p "skip"
      | OEnded false true _ _ => s2p "denied"
      | OEnded false false (Some f) true => s2p "raise:" ++ out_fclass f
      | OEnded false false _ _ => s2p "ok"
      end
  end.

Definition out_event (e : event) : pstr :=
  s2p match e with
  | EFire false => "F" | EFire true => "D"
  | EStep FNone => "S" | EStep FIO => "X"
  | EMsg _ => "M"
  | EStop false => "P" | EStop true => "Q"
  end%string.

(* ---- parsing ---- *)
Definition tok_msg3 (ts : list pstr) : option (msg * list pstr) :=
  match ts with
  | k :: r =>
      if pstr_eqb k (s2p "n") then
        match r with
        | a :: b :: r' => match tok_Z a, tok_Z b with Some a, Some b => Some (AddNode a b, r') | _, _ => None end
        | _ => None
        end
      else if pstr_eqb k (s2p "c") then
        match r with
        | a :: b :: c :: r' =>
            match tok_Z a, tok_Z b, tok_Z c with Some a, Some b, Some c => Some (AddChild a b c, r') | _, _, _ => None end
        | _ => None
        end
      else if pstr_eqb k (s2p "v") then
        match r with
        | a :: b :: c :: d :: r' =>
            match tok_Z a, tok_Z b, tok_Z c, tok_Z d with
            | Some a, Some b, Some c, Some d => Some (SetValue a b c d, r')
            | _, _, _, _ => None
            end
        | _ => None
        end
      else None
  | [] => None
  end.

Definition tok_nat (t : pstr) : option nat := option_map N.to_nat (tok_N t).

Definition tok_kind (t : pstr) : option skind :=
  if pstr_eqb t (s2p "open") then Some KOpen
  else if pstr_eqb t (s2p "ser") then Some KSer
  else if pstr_eqb t (s2p "sync") then Some KSync
  else if pstr_eqb t (s2p "renbak") then Some KRenBak
  else if pstr_eqb t (s2p "renmain") then Some KRenMain
  else if pstr_eqb t (s2p "rembak") then Some KRemBak
  else None.

Definition tok_plan (ts : list pstr) : option plan :=
  match ts with
  | [k] => if pstr_eqb k (s2p "clean") then Some PClean
           else if pstr_eqb k (s2p "denied") then Some PDenied else None
  | k :: r =>
      if pstr_eqb k (s2p "io") then
        match r with
        | [a; b] => match tok_kind a, tok_nat b with Some a, Some b => Some (PIo a b) | _, _ => None end
        | _ => None
        end
      else if pstr_eqb k (s2p "msg") then
        match r with
        | j :: r' => match tok_nat j, tok_msg3 r' with Some j, Some (m, []) => Some (PMsg j m) | _, _ => None end
        | _ => None
        end
      else None
  | [] => None
  end.

Definition with_st (sh : shell_state) (s : st) : shell_state := mkShell (sh_fmt sh) (sh_fl sh) (sh_cfg sh) s.

Definition shell_step (sh : shell_state) (line : pstr) : shell_state * pstr :=
  match tokens line with
  | cmd :: args =>
      if pstr_eqb cmd (s2p "reset") then (shell_init, s2p "ok")
      else if pstr_eqb cmd (s2p "init") then
        match args with
        | [f; l; v] =>
            let f' := if pstr_eqb f (s2p "j") then Some Json else if pstr_eqb f (s2p "p") then Some Pickle else None in
            let l' := if pstr_eqb l (s2p "s") then Some Sync else if pstr_eqb l (s2p "a") then Some Async else None in
            let v' := if pstr_eqb v (s2p "gen") then Some gen_cfg
                      else if pstr_eqb v (s2p "fixed") then Some cfg_fixed
                      else if pstr_eqb v (s2p "d9") then Some cfg_d9
                      else if pstr_eqb v (s2p "d10") then Some cfg_d10 else None in
            match f', l', v' with
            | Some f', Some l', Some v' => (mkShell f' l' v' (init [] (mkFs None None)), s2p "ok")
            | _, _, _ => (sh, bad)
            end
        | _ => (sh, bad)
        end
      else if pstr_eqb cmd (s2p "m") then
        match tok_msg3 args with
        | Some (m, []) =>
            let '(s', o) := step (sh_cfg sh) (sh_fl sh) (pol_of (sh_fmt sh)) (sh_st sh) (EMsg m) in
            (with_st sh s', sp [match o with OMsg a => s2p "msg" ++ out_bool a | _ => s2p "noop" end; out_obs s'])
        | _ => (sh, bad)
        end
      else if pstr_eqb cmd (s2p "mkfile") then
        let s := sh_st sh in
        (with_st sh (mkSt (s_tree s) (s_dirty s) (mkFs (Some (s_tree s)) (f_bak (s_fs s))) (s_armed s) (s_stopped s) (s_saving s)),
         s2p "ok")
      else if pstr_eqb cmd (s2p "save") || pstr_eqb cmd (s2p "stop") then
        match tok_plan args with
        | Some p =>
            let '(s', evs, o, calls) :=
              do_save (sh_cfg sh) (sh_fl sh) (pol_of (sh_fmt sh)) (pstr_eqb cmd (s2p "stop")) p (sh_st sh) in
            (with_st sh s',
             sp [out_outp s' o; s2p "calls=" ++ out_N (N.of_nat calls); out_obs s';
                 s2p "ev=" ++ List.concat (map out_event evs)])
        | None => (sh, bad)
        end
      else (sh, bad)
  | [] => (sh, bad)
  end.

Fixpoint shell_run (st : shell_state) (lines : list pstr) : list pstr :=
  match lines with
  | [] => []
  | l :: r => let '(st', o) := shell_step st l in o :: shell_run st' r
  end.
