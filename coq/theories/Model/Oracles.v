(* Oracle tables supplied with each command: third-party verdicts computed by the harness
   from the real libraries for the strings that occur in the case.
   The version verdicts (orc_version, orc_const) consult the table only for strings that are
   NOT dotted numeric, i.e. not of the form  [0-9]+(\.[0-9]+)*  : on dotted numeric strings they are computed by the
   exact model of awesomeversion's comparison in Base/Version.v (the table entry, still
   supplied by the harness, is ignored there).
   Tokens after a "|" token:   V <str> <is_version ok 0/1> <get_const index 0..4>
                               F <str> <e|n|p|m|v> <num> <den>          (float(str)) *)
From Coq Require Import List NArith ZArith QArith Bool String.
From PMS Require Import Base.PyStr Base.PyInt Base.Version Model.Codec Model.Rules Model.ShellBase.
Import ListNotations.

Record oracles := mkOracles {
  o_ver : list (pstr * (bool * nat));
  o_float : list (pstr * fres) }.

Definition no_oracles := mkOracles [] [].

Fixpoint plookup {A} (k : pstr) (l : list (pstr * A)) : option A :=
  match l with
  | [] => None
  | (k', a) :: r => if pstr_eqb k k' then Some a else plookup k r
  end.

(* validation.is_version(s) returns (does not raise Invalid) *)
Definition orc_version (o : oracles) (s : pstr) : bool :=
  if dotted_numeric s then ver_ge14 s
  else match plookup s (o_ver o) with Some (b, _) => b | None => false end.
(* index in [const_14; const_15; const_20; const_21; const_22] of get_const(safe_is_version(s)) *)
Definition orc_const (o : oracles) (s : pstr) : nat :=
  if dotted_numeric s then const_index s
  else match plookup s (o_ver o) with Some (_, i) => i | None => 0%nat end.
Definition orc_float (o : oracles) (s : pstr) : fres :=
  match plookup s (o_float o) with Some f => f | None => FErr end.

Definition tok_fres (k n d : pstr) : option fres :=
  match k with
  | [101] => Some FErr
  | [110] => Some FNan
  | [112] => Some (FInf false)
  | [109] => Some (FInf true)
  | [118] => match tok_Z n, tok_Z d with
             | Some n, Some (Zpos d) => Some (FVal (Qmake n d))
             | _, _ => None
             end
  | _ => None
  end.

(* parse oracle tokens; None on malformed input *)
Fixpoint parse_oracles (fuel : nat) (ts : list pstr) (acc : oracles) : option oracles :=
  match fuel with
  | O => None
  | S fuel' =>
      match ts with
      | [] => Some acc
      | [86] :: s :: b :: i :: rest =>
          match tok_str s, tok_N b, tok_N i with
          | Some s, Some b, Some i =>
              parse_oracles fuel' rest
                (mkOracles ((s, (negb (N.eqb b 0), N.to_nat i)) :: o_ver acc) (o_float acc))
          | _, _, _ => None
          end
      | [70] :: s :: k :: n :: d :: rest =>
          match tok_str s, tok_fres k n d with
          | Some s, Some f => parse_oracles fuel' rest (mkOracles (o_ver acc) ((s, f) :: o_float acc))
          | _, _ => None
          end
      | _ => None
      end
  end.

(* split the argument tokens at the first "|" *)
Fixpoint split_bar (ts : list pstr) : list pstr * list pstr :=
  match ts with
  | [] => ([], [])
  | [124] :: r => ([], r)
  | t :: r => let '(a, b) := split_bar r in (t :: a, b)
  end.

Definition with_oracles (args : list pstr) : option (list pstr * oracles) :=
  let '(a, o) := split_bar args in
  match parse_oracles (S (List.length o)) o no_oracles with
  | Some orc => Some (a, orc)
  | None => None
  end.
