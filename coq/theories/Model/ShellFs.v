(* Command interpreter of the extracted runner for C12 / C13 (tag "Fs").
   Saved states travel as symbolic tags (the model never looks inside a state). *)
From Coq Require Import List NArith ZArith Bool String.
From PMS Require Import Base.PyStr Base.PyInt Base.Exn Model.Codec Model.ShellBase
     Spec.AbstractFs Model.FsSave Model.FsCode Model.FsConc.
Import ListNotations.
Open Scope N_scope.

Record shell_state := mkShell { sh_unit : unit }.
Definition shell_init : shell_state := mkShell tt.

Inductive tag := TOld | TNew | TNext | TSb | TSt.

Definition tag_name (t : tag) : pstr :=
  s2p match t with TOld => "old" | TNew => "new" | TNext => "next" | TSb => "sb" | TSt => "st" end%string.

Definition name_str (n : name) : pstr := s2p match n with Main => "Main" | Bak => "Bak" | Tmp => "Tmp" end%string.

Definition colon : pstr := [58].

Definition out_prim (p : prim) : pstr :=
  match p with
  | PIsfile n => s2p "isfile:" ++ name_str n
  | PAccessDir => s2p "accessdir"
  | PAccess n => s2p "access:" ++ name_str n
  | POpen n => s2p "open:" ++ name_str n
  | PWrite => s2p "write" | PFlush => s2p "flush" | PFsync => s2p "fsync" | PClose => s2p "close"
  | PRename a b => s2p "rename:" ++ name_str a ++ colon ++ name_str b
  | PRemove a => s2p "remove:" ++ name_str a
  end.

Definition out_lres (r : lres (list tag)) : pstr :=
  match r with
  | LOk l => s2p "ok:" ++ join [44] (map tag_name l)
  | LRaise e => s2p "raise:" ++ e
  end.

Definition out_status (s : status) : pstr :=
  s2p match s with Done => "done" | Raised => "raised" | Crashed => "crashed" end%string.

Definition out_kind (k : option skind) : pstr :=
  s2p match k with None => "n" | Some KGood => "g" | Some KPartial => "p" | Some KEmpty => "e" end%string.

Definition out_cfg (c : option cfg) : pstr :=
  match c with
  | None => s2p "badmain"
  | Some c => out_bool (c_main c) ++ out_kind (c_bak c) ++ out_kind (c_tmp c)
  end.

Definition out_again (a : again tag) : pstr :=
  sp [out_status (a_status a); out_bool (a_need_save a); out_lres (a_loaded a)].

Definition tok_fmt (t : pstr) : option fmt :=
  if pstr_eqb t (s2p "json") then Some Json else if pstr_eqb t (s2p "pickle") then Some Pickle else None.

Definition tok_kind (c : N) : option (option skind) :=
  match c with
  | 110 => Some None | 103 => Some (Some KGood) | 112 => Some (Some KPartial) | 101 => Some (Some KEmpty)
  | _ => None
  end.

Definition tok_cfg (t : pstr) : option cfg :=
  match t with
  | [m; b; x] =>
      match tok_kind b, tok_kind x with
      | Some b, Some x =>
          if N.eqb m 49 then Some (mkCfg true b x) else if N.eqb m 48 then Some (mkCfg false b x) else None
      | _, _ => None
      end
  | _ => None
  end.

Definition tok_loss (t : pstr) : option loss :=
  if pstr_eqb t (s2p "all") then Some LoseAll else if pstr_eqb t (s2p "half") then Some LoseHalf
  else if pstr_eqb t (s2p "none") then Some LoseNone else None.

Definition tok_nat (t : pstr) : option nat := option_map N.to_nat (tok_N t).

(* file class token: m | go (good, state old) | gs (good, state sb) | gt (good, state st) | b<class name string token> *)
Definition tok_class (t : pstr) : option (fclass tag) :=
  match t with
  | [109] => Some FMissing
  | [103; 111] => Some (FGood TOld)
  | [103; 115] => Some (FGood TSb)
  | [103; 116] => Some (FGood TSt)
  | 98 :: r => option_map FBad (tok_str r)
  | _ => None
  end.

Definition ex_of (c : cfg) : bool := c_main c.

(* statement number of the k-th (0-based) statement whose operation satisfies p *)
Fixpoint find_stmt (p : instr -> bool) (k n : nat) (prog : list sinstr) : option nat :=
  match prog with
  | [] => None
  | i :: r =>
      if p (i_op i) then match k with O => Some n | S k' => find_stmt p k' (S n) r end
      else find_stmt p k (S n) r
  end.

(* the pause points of harness/impl/slowsave.py -> statement of the generated program *)
Definition pause_stmt (t : pstr) (prog : list sinstr) : option nat :=
  let is_flush o := match o with IFlush => true | _ => false end in
  let is_fsync o := match o with IFsync => true | _ => false end in
  let is_rename o := match o with IRename _ _ => true | _ => false end in
  let is_remove o := match o with IRemove _ => true | _ => false end in
  if pstr_eqb t (s2p "before-flush") then find_stmt is_flush 0 0 prog
  else if pstr_eqb t (s2p "fsync") then find_stmt is_fsync 0 0 prog
  else if pstr_eqb t (s2p "before-rename") then find_stmt is_rename 0 0 prog
  else if pstr_eqb t (s2p "before-rename2") then find_stmt is_rename 1 0 prog
  else if pstr_eqb t (s2p "before-remove") then find_stmt is_remove 0 0 prog
  else None.

Definition c_prior_main : cfg := mkCfg true None None.

Definition fs_cmd (cmd : pstr) (args : list pstr) : option pstr :=
  if pstr_eqb cmd (s2p "trace") then
    match args with
    | [f; w; ex] =>
        match tok_fmt f, tok_nat w, tok_nat ex with
        | Some f, Some w, Some ex =>
            Some (sp (map out_prim (prog_trace w (Nat.ltb 0 ex) (save_prog_of f))))
        | _, _, _ => Some bad
        end
    | _ => Some bad
    end
  else if pstr_eqb cmd (s2p "crash") then
    match args with
    | [f; c; w; k; nl; l; ep; ee] =>
        match tok_fmt f, tok_cfg c, tok_nat w, tok_nat k, tok_nat nl, tok_loss l, tok_str ep, tok_str ee with
        | Some f, Some c, Some w, Some k, Some nl, Some l, Some ep, Some ee =>
            let '(i, j) := locate w (ex_of c) 0 (save_prog_of f) k in
            let o := crash_scn (code f) c TOld TNew TNext TSb TSt w i j nl l ep ee w in
            Some (sp [out_lres (co_loaded o); out_cfg (co_cfg o); out_again (co_again o)])
        | _, _, _, _, _, _, _, _ => Some bad
        end
    | _ => Some bad
    end
  else if pstr_eqb cmd (s2p "fault") then
    match args with
    | [f; c; w; k; ep; ee] =>
        match tok_fmt f, tok_cfg c, tok_nat w, tok_nat k, tok_str ep, tok_str ee with
        | Some f, Some c, Some w, Some k, Some ep, Some ee =>
            let '(i, j) := locate w (ex_of c) 0 (save_prog_of f) k in
            let o := fault_scn (code f) c TOld TNew TNext TSb TSt w i j ep ee w in
            let main_new := match fo_main o with
                            | Some (mkFile (CGood TNew) (CGood TNew) false) => true
                            | _ => false
                            end in
            Some (sp [out_status (fo_status o); out_bool (fo_need_save o); out_bool main_new;
                      out_lres (fo_loaded o); out_again (fo_again o)])
        | _, _, _, _, _, _ => Some bad
        end
    | _ => Some bad
    end
  else if pstr_eqb cmd (s2p "conc") then
    (* conc <fmt> <locked|unlocked> <pause point> <ep> <ee>: the scheduled save of TNew preempted there, a message
       (network TNext), stop()'s save of TNext; with the lock the preemption cannot let stop()'s save in *)
    match args with
    | [f; mode; pt; ep; ee] =>
        match tok_fmt f, tok_str ep, tok_str ee with
        | Some f, Some ep, Some ee =>
            match pause_stmt pt (save_prog_of f) with
            | Some i =>
                if pstr_eqb mode (s2p "locked") then
                  let o := conc_locked (code f) c_prior_main TOld TNew TNext TSb TSt 1 ep ee 1 in
                  Some (sp [out_lres (a_loaded (fo_again o)); out_status (fo_status o); out_status (a_status (fo_again o))])
                else if pstr_eqb mode (s2p "unlocked") then
                  let o := conc_unlocked (code f) c_prior_main TOld TNew TNext TSb TSt 1 i 0 ep ee 1 in
                  Some (sp [out_lres (cc_loaded o); out_status (cc_status1 o); out_status (cc_status2 o)])
                else Some bad
            | None => Some bad
            end
        | _, _, _ => Some bad
        end
    | _ => Some bad
    end
  else if pstr_eqb cmd (s2p "load") then
    match args with
    | [f; m; b; t; ep; ee] =>
        match tok_fmt f, tok_class m, tok_class b, tok_class t, tok_str ep, tok_str ee with
        | Some f, Some m, Some b, Some t, Some ep, Some ee =>
            let '(fs2, r) := loadf (code f) ep ee (mk_disk m b t) in
            Some (sp [out_lres r; out_bool (fs_isfile fs2 Main); out_bool (fs_isfile fs2 Bak);
                      out_again (save_again (code f) ep ee 1 TNext (fresh fs2))])
        | _, _, _, _, _, _ => Some bad
        end
    | _ => Some bad
    end
  else None.

Definition shell_step (st : shell_state) (line : pstr) : shell_state * pstr :=
  match tokens line with
  | cmd :: args =>
      if pstr_eqb cmd (s2p "reset") then (shell_init, s2p "ok")
      else (st, match fs_cmd cmd args with Some o => o | None => bad end)
  | [] => (st, bad)
  end.

Fixpoint shell_run (st : shell_state) (lines : list pstr) : list pstr :=
  match lines with
  | [] => []
  | l :: r => let '(st', o) := shell_step st l in o :: shell_run st' r
  end.
