(* The persistence FILE FORMATS of mysensors/persistence.py on value trees (C11).

   JSON:   MySensorsJSONEncoder.default (+ json's "int key -> decimal string" rule) = enc_json;
           MySensorsJSONDecoder (object_hook = dict_to_object, applied bottom-up to every
           object, three heuristics in source order, Sensor built through setattr and hence
           through the property setters of sensor.py / validation.py) = dec_json;
           Persistence._load_json (`self._sensors.update(...)`) = json_load.
   pickle: Sensor.__getstate__ / __setstate__, ChildSensor.__setstate__ on attribute dicts,
           applied by pickle to every object of the graph bottom-up = pickle_dump / pickle_load.

   Trusted (DESIGN 3.3 / 7): the text layer of json (dump/load round trip value trees with
   STRING keys; object_hook receives dict(pairs)), the byte layer of pickle (round trips the
   attribute dicts / __getstate__ results and calls __setstate__ bottom-up without __init__).

   Universe.  JSON documents: null, integers, strings, objects (what the encoder can emit for a
   persisted tree; no arrays, floats, booleans).  Python values `pv`: None, bool, int, str,
   deque of str, dict with int or str keys (insertion ordered), Sensor and ChildSensor
   instances given by their __dict__ in insertion order.

   No proofs in this file. *)
From Coq Require Import List NArith ZArith Bool String.
From PMS Require Import Base.PyStr Base.PyInt Base.Exn Model.TableTypes Model.Gateway Gen.PersistAst.
Import ListNotations.
Open Scope string_scope.
Open Scope list_scope.
Open Scope Z_scope.

(* ---------------------------------------------------------------- data *)

Inductive json :=
| JNull
| JInt (z : Z)
| JStr (s : pstr)
| JObj (l : list (pstr * json)).        (* members in document order; keys are strings *)

Inductive key := KInt (z : Z) | KStr (s : pstr).

Inductive pv :=
| VNone
| VBool (b : bool)
| VInt (z : Z)
| VStr (s : pstr)
| VDeque (q : list pstr)
| VDict (l : list (key * pv))
| VSensor (a : list (pstr * pv))        (* Sensor instance: its __dict__ *)
| VChild (a : list (pstr * pv)).        (* ChildSensor instance: its __dict__ *)

Definition attrs := list (pstr * pv).

Definition key_eqb (a b : key) : bool :=
  match a, b with
  | KInt x, KInt y => Z.eqb x y
  | KStr x, KStr y => pstr_eqb x y
  | _, _ => false
  end.

(* d[k] = v on an insertion-ordered dict: an existing key keeps its position *)
Fixpoint aset {A} (k : pstr) (a : A) (l : list (pstr * A)) : list (pstr * A) :=
  match l with
  | [] => [(k, a)]
  | (k', a') :: r => if pstr_eqb k k' then (k, a) :: r else (k', a') :: aset k a r
  end.
Fixpoint adel {A} (k : pstr) (l : list (pstr * A)) : list (pstr * A) :=
  match l with
  | [] => []
  | (k', a') :: r => if pstr_eqb k k' then r else (k', a') :: adel k r
  end.
Definition aget {A} (k : pstr) (l : list (pstr * A)) : option A := sassoc k l.
Definition ahas {A} (k : pstr) (l : list (pstr * A)) : bool :=
  match aget k l with Some _ => true | None => false end.

Fixpoint kset (k : key) (v : pv) (l : list (key * pv)) : list (key * pv) :=
  match l with
  | [] => [(k, v)]
  | (k', v') :: r => if key_eqb k k' then (k, v) :: r else (k', v') :: kset k v r
  end.

(* dict(pairs): what json hands to object_hook (a repeated member name keeps the first
   position and the last value) *)
Definition mkdict {A} (pairs : list (pstr * A)) : list (pstr * A) :=
  fold_left (fun d kv => aset (fst kv) (snd kv) d) pairs [].

(* ---------------------------------------------------------------- names *)

Definition k_sensor_id := s2p "sensor_id".
Definition k_children := s2p "children".
Definition k_type := s2p "type".
Definition k_sketch_name := s2p "sketch_name".
Definition k_sketch_version := s2p "sketch_version".
Definition k_battery_level := s2p "battery_level".
Definition k_protocol_version := s2p "protocol_version".
Definition k_heartbeat := s2p "heartbeat".
Definition k__battery_level := s2p "_battery_level".
Definition k__protocol_version := s2p "_protocol_version".
Definition k__heartbeat := s2p "_heartbeat".
Definition k_new_state := s2p "new_state".
Definition k_queue := s2p "queue".
Definition k_reboot := s2p "reboot".
Definition k_id := s2p "id".
Definition k_description := s2p "description".
Definition k_values := s2p "values".
Definition k_is_smart_sleep_node := s2p "is_smart_sleep_node".

(* ---------------------------------------------------------------- JSON encoder *)

(* json.dump: a dict key that is an int becomes its decimal string *)
Definition enc_key (k : Z) : pstr := print k.

Definition enc_optZ (o : option Z) : json := match o with Some z => JInt z | None => JNull end.
Definition enc_optstr (o : option pstr) : json := match o with Some s => JStr s | None => JNull end.
Definition enc_val (v : pyval) : json := match v with PS s => JStr s | PI z => JInt z end.

Definition enc_values (vals : list (Z * pyval)) : json :=
  JObj (map (fun kv => (enc_key (fst kv), enc_val (snd kv))) vals).

(* MySensorsJSONEncoder.default, isinstance(o, ChildSensor) *)
Definition enc_child (c : pchild) : json :=
  JObj [(k_id, JInt (pc_id c));
        (k_type, JInt (pc_type c));
        (k_description, JStr (pc_desc c));
        (k_values, enc_values (pc_values c))].

Definition enc_children (chs : list (Z * pchild)) : json :=
  JObj (map (fun kc => (enc_key (fst kc), enc_child (snd kc))) chs).

(* MySensorsJSONEncoder.default, isinstance(o, Sensor) *)
Definition enc_node (n : pnode) : json :=
  JObj [(k_sensor_id, JInt (pn_id n));
        (k_children, enc_children (pn_children n));
        (k_type, enc_optZ (pn_type n));
        (k_sketch_name, enc_optstr (pn_sk_name n));
        (k_sketch_version, enc_optstr (pn_sk_ver n));
        (k_battery_level, JInt (pn_batt n));
        (k_protocol_version, JStr (pn_pver n));
        (k_heartbeat, JInt (pn_hb n))].

(* json.dump(self._sensors, cls=MySensorsJSONEncoder) *)
Definition enc_json (t : tree) : json :=
  JObj (map (fun kn => (enc_key (fst kn), enc_node (snd kn))) t).

(* the key lists of the two dict literals, as the generated facts state them *)
Definition enc_sensor_shape : list (pstr * pstr) :=
  map (fun k => (k, k)) [k_sensor_id; k_children; k_type; k_sketch_name; k_sketch_version;
                         k_battery_level; k_protocol_version; k_heartbeat].
Definition enc_child_shape : list (pstr * pstr) :=
  map (fun k => (k, k)) [k_id; k_type; k_description; k_values].

(* ---------------------------------------------------------------- str / int helpers *)

(* str.isdigit(): not empty and every code point has Numeric_Type Digit or Decimal *)
Definition isdigit_char (c : N) : bool := in_ranges isdigit_ranges c.
Definition py_isdigit (s : pstr) : bool :=
  match s with [] => false | _ => forallb isdigit_char s end.

(* int(v) as vol.Coerce(int) sees it: None = ValueError / TypeError *)
Definition py_int (v : pv) : option Z :=
  match v with
  | VInt z => Some z
  | VBool b => Some (if b then 1 else 0)
  | VStr s => parse s
  | _ => None
  end.

(* str(v) for the values whose str() is modelled *)
Definition py_strv (v : pv) : option pstr :=
  match v with
  | VStr s => Some s
  | VInt z => Some (print z)
  | VNone => Some (s2p "None")
  | VBool b => Some (s2p (if b then "True" else "False"))
  | _ => None
  end.

Section Decoder.
  (* validation.is_version accepts str(value) (awesomeversion: an oracle, see DESIGN 3.3) *)
  Variable ver_ok : pstr -> bool.

  (* validation.is_battery_level / is_heartbeat / safe_is_version on arbitrary values *)
  Definition is_battery_level (v : pv) : Z :=
    match py_int v with
    | Some z => if (0 <=? z) && (z <=? 100) then z else 0
    | None => 0
    end.
  Definition is_heartbeat (v : pv) : Z := match py_int v with Some z => z | None => 0 end.
  (* OtherError = outside the model: str() of a dict / object / deque *)
  Definition safe_is_version (v : pv) : res pstr :=
    match py_strv v with
    | Some s => Ok (if ver_ok s then s else s2p "1.4")
    | None => Raise OtherError
    end.

  (* setattr(sensor, k, v): the three property setters, the property without setter, plain
     instance attributes.  Dunder names (__class__, __dict__, ...) are outside the model. *)
  Definition sensor_setattr (a : attrs) (k : pstr) (v : pv) : res attrs :=
    if pstr_eqb k k_battery_level then Ok (aset k__battery_level (VInt (is_battery_level v)) a)
    else if pstr_eqb k k_heartbeat then Ok (aset k__heartbeat (VInt (is_heartbeat v)) a)
    else if pstr_eqb k k_protocol_version then
      do s <- safe_is_version v; Ok (aset k__protocol_version (VStr s) a)
    else if pstr_eqb k k_is_smart_sleep_node then Raise AttributeError
    else if is_prefix (s2p "__") k then Raise OtherError
    else Ok (aset k v a).

  Fixpoint setattr_all (a : attrs) (kvs : attrs) : res attrs :=
    match kvs with
    | [] => Ok a
    | (k, v) :: r => do a' <- sensor_setattr a k v; setattr_all a' r
    end.

  (* Sensor.__init__ *)
  Definition new_sensor (sid : pv) : attrs :=
    [(k_sensor_id, sid); (k_children, VDict []); (k_type, VNone); (k_sketch_name, VNone);
     (k_sketch_version, VNone); (k__battery_level, VInt 0); (k__protocol_version, VStr (s2p "1.4"));
     (k__heartbeat, VInt 0); (k_new_state, VDict []); (k_queue, VDeque []); (k_reboot, VBool false)].

  (* ChildSensor.__init__ followed by `child.values = ...` *)
  Definition new_child (cid ctype desc vals : pv) : attrs :=
    [(k_id, cid); (k_type, ctype); (k_description, desc); (k_values, vals)].

  (* ---- dict_to_object ---- *)
  Inductive branch := BSensor | BChild | BIntKeys | BPlain.

  (* which `if` of dict_to_object fires, in source order; depends on the member names only *)
  Definition branch_of (keys : list pstr) : branch :=
    if mem_pstr k_sensor_id keys then BSensor
    else if forallb (fun k => mem_pstr k keys) [k_id; k_type; k_values] then BChild
    else if forallb py_isdigit keys then BIntKeys
    else BPlain.

  (* {int(k): v for k, v in obj.items()}: int() may raise ValueError (isdigit but not decimal) *)
  Fixpoint int_keys (obj : attrs) (acc : list (key * pv)) : res (list (key * pv)) :=
    match obj with
    | [] => Ok acc
    | (k, v) :: r =>
        match parse k with
        | Some z => int_keys r (kset (KInt z) v acc)
        | None => Raise ValueError
        end
    end.

  Definition hook (obj : attrs) : res pv :=
    match branch_of (map fst obj) with
    | BSensor =>
        match aget k_sensor_id obj with
        | None => Raise KeyError
        | Some sid => do a <- setattr_all (new_sensor sid) obj; Ok (VSensor a)
        end
    | BChild =>
        match aget k_id obj, aget k_type obj, aget k_values obj with
        | Some i, Some t, Some vs =>
            Ok (VChild (new_child i t (match aget k_description obj with Some d => d | None => VStr [] end) vs))
        | _, _, _ => Raise KeyError
        end
    | BIntKeys => do l <- int_keys obj []; Ok (VDict l)
    | BPlain => Ok (VDict (map (fun kv => (KStr (fst kv), snd kv)) obj))
    end.

  (* json.load(cls=MySensorsJSONDecoder): members are decoded in document order, then the
     hook is applied to dict(pairs) *)
  Fixpoint dec_json (j : json) : res pv :=
    match j with
    | JNull => Ok VNone
    | JInt z => Ok (VInt z)
    | JStr s => Ok (VStr s)
    | JObj l =>
        do l' <- (fix members (l : list (pstr * json)) : res attrs :=
                    match l with
                    | [] => Ok []
                    | (k, v) :: r => do v' <- dec_json v; do r' <- members r; Ok ((k, v') :: r')
                    end) l;
        hook (mkdict l')
    end.

  (* dict.update(other) for the values of the universe *)
  Definition dict_update (d : list (key * pv)) (other : pv) : res (list (key * pv)) :=
    match other with
    | VDict l => Ok (fold_left (fun d kv => kset (fst kv) (snd kv) d) l d)
    | VStr [] => Ok d
    | VStr _ => Raise ValueError
    | _ => Raise TypeError
    end.

  (* Persistence._load_json into the (empty) sensors dict of a fresh gateway *)
  Definition json_load (j : json) : res (list (key * pv)) :=
    do v <- dec_json j; dict_update [] v.

  (* ---------------------------------------------------------------- pickle *)

  (* prop = attr[1:] if attr.startswith("_") *)
  Definition strip_underscore (s : pstr) : pstr :=
    match s with 95%N :: r => r | _ => s end.

  Definition getstate_attrs : list pstr := [k__battery_level; k__heartbeat; k__protocol_version].

  (* Sensor.__getstate__ on the instance __dict__ *)
  Definition getstate (a : attrs) : attrs :=
    fold_left (fun st attr =>
                 let value := match aget attr st with Some v => v | None => VNone end in
                 let st1 := adel attr st in
                 match value with
                 | VNone => st1
                 | v => aset (strip_underscore attr) v st1
                 end) getstate_attrs a.

  (* Sensor.__setstate__ on an instance made by __new__ (empty __dict__) *)
  Definition setstate (st : attrs) : res attrs :=
    do a <- setattr_all [] st;
    let a1 := aset k_new_state (VDict []) a in
    let a2 := aset k_queue (VDeque []) a1 in
    let a3 := aset k_reboot (VBool false) a2 in
    if ahas k__heartbeat a3 then Ok a3 else sensor_setattr a3 k_heartbeat (VInt 0).

  (* ChildSensor.__setstate__ *)
  Definition child_setstate (st : attrs) : attrs :=
    let a := fold_left (fun d kv => aset (fst kv) (snd kv) d) st [] in
    if ahas k_description a then a else aset k_description (VStr []) a.

  (* what pickle stores of an object graph: Sensor -> __getstate__(), ChildSensor -> __dict__ *)
  Fixpoint pickle_dump (v : pv) : pv :=
    match v with
    | VDict l => VDict (map (fun kv => (fst kv, pickle_dump (snd kv))) l)
    | VSensor a => VSensor (getstate (map (fun kv => (fst kv, pickle_dump (snd kv))) a))
    | VChild a => VChild (map (fun kv => (fst kv, pickle_dump (snd kv))) a)
    | _ => v
    end.

  (* what pickle.load rebuilds from it: inner objects first, then __setstate__ *)
  Fixpoint pickle_load (v : pv) : res pv :=
    match v with
    | VDict l =>
        do l' <- (fix items (l : list (key * pv)) : res (list (key * pv)) :=
                    match l with
                    | [] => Ok []
                    | (k, x) :: r => do x' <- pickle_load x; do r' <- items r; Ok ((k, x') :: r')
                    end) l;
        Ok (VDict l')
    | VSensor st =>
        do st' <- (fix items (l : attrs) : res attrs :=
                     match l with
                     | [] => Ok []
                     | (k, x) :: r => do x' <- pickle_load x; do r' <- items r; Ok ((k, x') :: r')
                     end) st;
        do a <- setstate st'; Ok (VSensor a)
    | VChild st =>
        do st' <- (fix items (l : attrs) : res attrs :=
                     match l with
                     | [] => Ok []
                     | (k, x) :: r => do x' <- pickle_load x; do r' <- items r; Ok ((k, x') :: r')
                     end) st;
        Ok (VChild (child_setstate st'))
    | _ => Ok v
    end.

  (* Persistence._load_pickle into the empty sensors dict *)
  Definition pickle_load_file (img : pv) : res (list (key * pv)) :=
    do v <- pickle_load img; dict_update [] v.
End Decoder.

(* ---------------------------------------------------------------- machine states as Python values *)

Definition v_optZ (o : option Z) : pv := match o with Some z => VInt z | None => VNone end.
Definition v_optstr (o : option pstr) : pv := match o with Some s => VStr s | None => VNone end.
Definition v_val (v : pyval) : pv := match v with PS s => VStr s | PI z => VInt z end.
Definition v_values (l : list (Z * pyval)) : pv :=
  VDict (map (fun kv => (KInt (fst kv), v_val (snd kv))) l).

Definition child_attrs (c : child) : attrs :=
  [(k_id, VInt (c_id c)); (k_type, VInt (c_type c)); (k_description, VStr (c_desc c));
   (k_values, v_values (c_values c))].
Definition v_children (l : list (Z * child)) : pv :=
  VDict (map (fun kc => (KInt (fst kc), VChild (child_attrs (snd kc)))) l).

(* new_state: child id -> ChildSensor(child.id, child.type, child.description) whose values
   are the desired ones (None = confirmed).  Gateway.v keeps only the values; type and
   description are those of the child (they never change once the child exists). *)
Definition v_desired_values (dv : list (Z * option pyval)) : pv :=
  VDict (map (fun kv => (KInt (fst kv), match snd kv with Some v => v_val v | None => VNone end)) dv).
Definition v_new_state (chs : list (Z * child)) (nw : list (Z * list (Z * option pyval))) : pv :=
  VDict (map (fun kd =>
                (KInt (fst kd),
                 VChild [(k_id, VInt (fst kd));
                         (k_type, VInt (match zassoc (fst kd) chs with Some c => c_type c | None => 0 end));
                         (k_description, VStr (match zassoc (fst kd) chs with Some c => c_desc c | None => [] end));
                         (k_values, v_desired_values (snd kd))])) nw).

(* the __dict__ of a Sensor in the order of Sensor.__init__ *)
Definition node_attrs (n : node) : attrs :=
  [(k_sensor_id, VInt (n_id n));
   (k_children, v_children (n_children n));
   (k_type, v_optZ (n_type n));
   (k_sketch_name, v_optstr (n_sk_name n));
   (k_sketch_version, v_optstr (n_sk_ver n));
   (k__battery_level, VInt (n_batt n));
   (k__protocol_version, VStr (n_pver n));
   (k__heartbeat, VInt (n_hb n));
   (k_new_state, v_new_state (n_children n) (n_new n));
   (k_queue, VDeque (n_queue n));
   (k_reboot, VBool (n_reboot n))].

(* gateway.sensors *)
Definition state_dict (s : list (Z * node)) : list (key * pv) :=
  map (fun kn => (KInt (fst kn), VSensor (node_attrs (snd kn)))) s.

(* ---- reading a Python value back as a machine state: strict (exactly the expected
   attributes, of the expected types), insensitive to the ORDER of instance attributes *)

Definition r_int (v : pv) : option Z := match v with VInt z => Some z | _ => None end.
Definition r_str (v : pv) : option pstr := match v with VStr s => Some s | _ => None end.
Definition r_bool (v : pv) : option bool := match v with VBool b => Some b | _ => None end.
Definition r_optint (v : pv) : option (option Z) :=
  match v with VNone => Some None | VInt z => Some (Some z) | _ => None end.
Definition r_optstr (v : pv) : option (option pstr) :=
  match v with VNone => Some None | VStr s => Some (Some s) | _ => None end.
Definition r_val (v : pv) : option pyval :=
  match v with VStr s => Some (PS s) | VInt z => Some (PI z) | _ => None end.
Definition r_optval (v : pv) : option (option pyval) :=
  match v with VNone => Some None | _ => option_map Some (r_val v) end.
Definition r_queue (v : pv) : option (list pstr) := match v with VDeque q => Some q | _ => None end.

Fixpoint r_items {A} (f : pv -> option A) (l : list (key * pv)) : option (list (Z * A)) :=
  match l with
  | [] => Some []
  | (KInt z, v) :: r =>
      match f v, r_items f r with
      | Some a, Some r' => Some ((z, a) :: r')
      | _, _ => None
      end
  | (KStr _, _) :: _ => None
  end.
Definition r_intdict {A} (f : pv -> option A) (v : pv) : option (list (Z * A)) :=
  match v with VDict l => r_items f l | _ => None end.

Definition exact_keys (ks : list pstr) (a : attrs) : bool :=
  Nat.eqb (List.length a) (List.length ks) && forallb (fun k => ahas k a) ks.

Definition child_keys : list pstr := [k_id; k_type; k_description; k_values].
Definition node_keys : list pstr :=
  [k_sensor_id; k_children; k_type; k_sketch_name; k_sketch_version; k__battery_level;
   k__protocol_version; k__heartbeat; k_new_state; k_queue; k_reboot].

Definition r_child (v : pv) : option child :=
  match v with
  | VChild a =>
      if exact_keys child_keys a then
        match aget k_id a, aget k_type a, aget k_description a, aget k_values a with
        | Some i, Some t, Some d, Some vs =>
            match r_int i, r_int t, r_str d, r_intdict r_val vs with
            | Some i, Some t, Some d, Some vs => Some (mkChild i t d vs)
            | _, _, _, _ => None
            end
        | _, _, _, _ => None
        end
      else None
  | _ => None
  end.

Definition r_desired (v : pv) : option (list (Z * option pyval)) :=
  match v with
  | VChild a =>
      if exact_keys child_keys a then
        match aget k_values a with Some vs => r_intdict r_optval vs | None => None end
      else None
  | _ => None
  end.

Definition r_node (v : pv) : option node :=
  match v with
  | VSensor a =>
      if exact_keys node_keys a then
        match aget k_sensor_id a, aget k_children a, aget k_type a, aget k_sketch_name a,
              aget k_sketch_version a, aget k__battery_level a, aget k__protocol_version a,
              aget k__heartbeat a, aget k_new_state a, aget k_queue a, aget k_reboot a with
        | Some i, Some ch, Some t, Some sn, Some sv, Some b, Some p, Some h, Some nw, Some q, Some rb =>
            match r_int i, r_intdict r_child ch, r_optint t, r_optstr sn, r_optstr sv, r_int b, r_str p,
                  r_int h, r_intdict r_desired nw, r_queue q, r_bool rb with
            | Some i, Some ch, Some t, Some sn, Some sv, Some b, Some p, Some h, Some nw, Some q, Some rb =>
                Some (mkNode i ch t sn sv b p h nw q rb)
            | _, _, _, _, _, _, _, _, _, _, _ => None
            end
        | _, _, _, _, _, _, _, _, _, _, _ => None
        end
      else None
  | _ => None
  end.

Definition read_state (d : list (key * pv)) : option (list (Z * node)) := r_items r_node d.

(* ---------------------------------------------------------------- save and load of a machine state *)

Section SaveLoad.
  Variable ver_ok : pstr -> bool.

  Definition json_save (s : list (Z * node)) : json := enc_json (proj s).
  Definition json_restore (j : json) : res (option (list (Z * node))) :=
    do d <- json_load ver_ok j; Ok (read_state d).

  Definition pickle_save (s : list (Z * node)) : pv := pickle_dump (VDict (state_dict s)).
  Definition pickle_restore (img : pv) : res (option (list (Z * node))) :=
    do d <- pickle_load_file ver_ok img; Ok (read_state d).
End SaveLoad.

(* ---------------------------------------------------------------- the objects of a JSON document *)

(* member-name lists of all objects of a document, outermost first, in document order *)
Fixpoint all_objs (j : json) : list (list pstr) :=
  match j with
  | JObj l => map fst l :: flat_map (fun kv => all_objs (snd kv)) l
  | _ => []
  end.

(* the objects of enc_json t with the role they play *)
Inductive role := RTop | RNode | RChildren | RChild | RValues.

Definition expected_branch (r : role) : branch :=
  match r with RNode => BSensor | RChild => BChild | RTop | RChildren | RValues => BIntKeys end.

Definition objs_child (c : pchild) : list (role * list pstr) :=
  [(RChild, child_keys); (RValues, map (fun kv => enc_key (fst kv)) (pc_values c))].
Definition objs_node (n : pnode) : list (role * list pstr) :=
  (RNode, map fst enc_sensor_shape)
  :: (RChildren, map (fun kc => enc_key (fst kc)) (pn_children n))
  :: flat_map (fun kc => objs_child (snd kc)) (pn_children n).
Definition objs_tree (t : tree) : list (role * list pstr) :=
  (RTop, map (fun kn => enc_key (fst kn)) t) :: flat_map (fun kn => objs_node (snd kn)) t.

(* ---------------------------------------------------------------- the source shape this model transcribes

   Plain data in the format of Gen/PersistAst.v (generated from the AST of the working tree).
   Proofs/PersistProofs.v proves each generated definition equal to its shape by reflexivity (the src_ lemmas): when the
   source changes, the named lemma breaks. *)
Definition P (s : string) : pstr := s2p s.

Definition enc_shape : list pstr := [P "Sensor"; P "ChildSensor"; P "super().default"].

Definition hook_shape : list ((pstr * list pstr) * (pstr * list pstr)) :=
  [((P "not_dict", []), (P "return_obj", []));
   ((P "has_sensor_id", []), (P "make_sensor", [k_sensor_id]));
   ((P "all_in", [k_id; k_type; k_values]),
    (P "make_child", [k_id; k_type; k_description; P ""; k_values; k_values]));
   ((P "all_isdigit", []), (P "int_keys", []));
   ((P "else", []), (P "return_obj", []))].

Definition io_shape : list (pstr * pstr) :=
  [(P "_save_json", P "json.dump(self._sensors, cls=MySensorsJSONEncoder)");
   (P "_load_json", P "self._sensors.update(json.load(cls=MySensorsJSONDecoder))");
   (P "_save_pickle", P "pickle.dump(self._sensors)");
   (P "_load_pickle", P "self._sensors.update(pickle.load())")].

Definition sensor_init_shape : list (pstr * pstr) :=
  [(k_sensor_id, P "sensor_id"); (k_children, P "{}"); (k_type, P "None"); (k_sketch_name, P "None");
   (k_sketch_version, P "None"); (k__battery_level, P "0"); (k__protocol_version, P "'1.4'");
   (k__heartbeat, P "0"); (k_new_state, P "{}"); (k_queue, P "deque()"); (k_reboot, P "False")].

Definition setters_shape : list (pstr * pstr * pstr) :=
  [(k_battery_level, k__battery_level, P "is_battery_level");
   (k_heartbeat, k__heartbeat, P "is_heartbeat");
   (k_protocol_version, k__protocol_version, P "safe_is_version")].
Definition readonly_shape : list pstr := [k_is_smart_sleep_node].

Definition setstate_resets_shape : list (pstr * pstr) :=
  [(k_new_state, P "{}"); (k_queue, P "deque()"); (k_reboot, P "False")].
Definition setstate_default_shape : pstr * pstr * pstr := (k__heartbeat, k_heartbeat, P "0").

Definition child_init_shape : list (pstr * pstr) :=
  [(k_id, P "child_id"); (k_type, P "child_type"); (k_description, P "description"); (k_values, P "{}")].
Definition child_sig_shape : list (pstr * pstr) := [(k_description, P "''")].
Definition child_setstate_default_shape : pstr * pstr * pstr := (k_description, k_description, P "''").

Definition validators_shape : list (pstr * pstr * pstr) :=
  [(P "percent_int", P "0", P "100");
   (P "is_battery_level", P "percent_int", P "0");
   (P "is_heartbeat", P "vol.Coerce(int)", P "0");
   (P "safe_is_version", P "is_version", P "'1.4'");
   (P "is_version", P "str(value)", P "oracle")].
