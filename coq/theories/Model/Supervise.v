(* C20 - connection supervision: four event automata (serial/TCP x threaded/asyncio)
   transcribing mysensors/transport.py, gateway_serial.py, gateway_tcp.py, task.py.

   One step function, parameterised by the flavour; the places where the flavours differ
   are explicit matches.  Structural facts and literals come from Gen.SupConsts
   (regenerated from the source on every run).

   Abstractions (tested by the correspondence check, see notes/C20.md):
   * every event is processed to quiescence (all threads blocked / event loop idle) before
     the next one; a dial takes no simulated time (Tick is ignored while a dial is pending);
   * [Tick dt] lets time pass until the next internal timer (end of a reconnect sleep,
     asyncio watchdog timer) or for dt, whichever comes first;
   * threaded TCP: TCPTransport.run's loop body runs once after every event that concerns
     the reader (connect, Tick, data, errors), not every 0.02 s; the poll thread
     (SyncTasks._poll_queue) drains the job queue right after;
   * threaded flavours: a dial that succeeds after disconnect()/stop() cleared
     transport.protocol is not modelled (the reader thread dies on the None protocol and
     ReaderThread.connect can hang): AttemptOk is ignored there.

   All four connect loops test `transport.protocol` at the top of every iteration (the
   asyncio ones since the D21 repair): a loop that finds the reference cleared by
   disconnect()/stop() ends without a further dial ([guard], [start_dial]). *)
From Coq Require Import List ZArith Bool.
From PMS Require Import Gen.SupConsts Model.Watchdog.
Import ListNotations.
Open Scope Z_scope.

Inductive flavour := SyncSerial | SyncTcp | AsyncSerial | AsyncTcp.
Definition is_async (fl : flavour) : bool :=
  match fl with AsyncSerial | AsyncTcp => true | _ => false end.
Definition is_tcp (fl : flavour) : bool :=
  match fl with SyncTcp | AsyncTcp => true | _ => false end.

Inductive event :=
| AttemptOk | AttemptFail            (* outcome of the pending dial *)
| ReadError                          (* read raises (SerialException / select reports an error / connection_lost(exc)) *)
| WriteError                         (* Transport.send whose transport.write raises OSError *)
| PeerClose                          (* orderly close by the peer: recv returns b"" / connection_lost(None) *)
| PeerReset                          (* abrupt close: recv raises ConnectionResetError / connection_lost(exc) *)
| UserDisconnect                     (* transport.disconnect() *)
| Stop                               (* gateway.stop() *)
| Tick (dt : Z)
| ProbeAnswered                      (* an I_VERSION answer line arrives *)
| Send.                              (* Transport.send of a line, write succeeds *)

Inductive output :=
| MadeCb | LostCb (exc : bool) | Attempt (at_ : Z) | Write | Close | Sleep (d : Z).

Inductive ctask := CIdle | CDialing | CSleeping (until : Z).

Record params := mkParams { p_rt : Z; p_slack : Z }.

Record st := mkSt {
  now : Z;
  tp : bool;            (* transport.protocol is not None *)
  conn : bool;          (* protocol.transport is not None: a link is established *)
  ct : ctask;           (* the dial loop (connect thread / start() coroutine / connect_task) *)
  cancellable : bool;   (* asyncio: transport.connect_task is set (the dial loop, if any, is that task) *)
  check : Z;            (* gateway.tcp_check_timer *)
  disc : Z;             (* gateway.tcp_disconnect_timer *)
  timer : option Z;     (* asyncio TCP: deadline of the armed call_later(check_connection) *)
  eof : bool;           (* threaded TCP: the peer has closed, recv returns b"" *)
  stopped : bool        (* ghost: stop() was called *)
}.

Definition set_now s v := mkSt v (tp s) (conn s) (ct s) (cancellable s) (check s) (disc s) (timer s) (eof s) (stopped s).
Definition set_tp s v := mkSt (now s) v (conn s) (ct s) (cancellable s) (check s) (disc s) (timer s) (eof s) (stopped s).
Definition set_conn s v := mkSt (now s) (tp s) v (ct s) (cancellable s) (check s) (disc s) (timer s) (eof s) (stopped s).
Definition set_ct s v := mkSt (now s) (tp s) (conn s) v (cancellable s) (check s) (disc s) (timer s) (eof s) (stopped s).
Definition set_cancellable s v := mkSt (now s) (tp s) (conn s) (ct s) v (check s) (disc s) (timer s) (eof s) (stopped s).
Definition set_check s v := mkSt (now s) (tp s) (conn s) (ct s) (cancellable s) v (disc s) (timer s) (eof s) (stopped s).
Definition set_disc s v := mkSt (now s) (tp s) (conn s) (ct s) (cancellable s) (check s) v (timer s) (eof s) (stopped s).
Definition set_timer s v := mkSt (now s) (tp s) (conn s) (ct s) (cancellable s) (check s) (disc s) v (eof s) (stopped s).
Definition set_eof s v := mkSt (now s) (tp s) (conn s) (ct s) (cancellable s) (check s) (disc s) (timer s) v (stopped s).
Definition set_stopped s v := mkSt (now s) (tp s) (conn s) (ct s) (cancellable s) (check s) (disc s) (timer s) (eof s) v.

(* state right after gateway.start(): the first dial is pending at time 0 (its Attempt 0
   belongs to start()); asyncio: the loop is the start() coroutine, not connect_task *)
Definition init : st := mkSt 0 true false CDialing false 0 0 None false false.

Definition out := list output.

(* The control structure is written over an abstract clock arithmetic (Section variables):
   lemmas about callbacks, attempts and states that do not depend on arithmetic are proved
   for every interpretation, by vm_compute over the finite control state.  The model proper
   ([step], below the section) is the instance with Z.add, Z.max, Z.leb and
   Watchdog.wd_check. *)
Section Control.
Variables (add zmax : Z -> Z -> Z) (leb : Z -> Z -> bool) (wdc : Z -> Z -> Z -> Z -> wd_res).
(* what the two asyncio connect loops test: `while transport.protocol:` (true) or
   `while True:` (false).  Section variables, so that the header the code had before the
   D21 repair ([step_unfixed] below) is the same transcription with the other value; the
   model proper instantiates them with the generated aser/atcp_guard_protocol. *)
Variables (ag_ser ag_tcp : bool).

Definition applies (c : recon_cond) (exc : bool) : bool :=
  match c with RcOnExc => exc | RcAlways => true | RcNever => false end.

(* `while transport.protocol:` / `while True:` *)
Definition guard (fl : flavour) (s : st) : bool :=
  match fl with
  | SyncSerial => if sser_guard_protocol then tp s else true
  | SyncTcp => if stcp_guard_protocol then tp s else true
  | AsyncSerial => if ag_ser then tp s else true
  | AsyncTcp => if ag_tcp then tp s else true
  end.

Definition fail_of (fl : flavour) : fail_kind :=
  match fl with
  | SyncSerial => sser_fail | SyncTcp => stcp_fail | AsyncSerial => aser_fail | AsyncTcp => atcp_fail
  end.

(* top of the connect loop *)
Definition start_dial (fl : flavour) (s : st) : st * out :=
  if guard fl s then (set_ct s CDialing, [Attempt (now s)]) else (set_ct s CIdle, []).

(* conn_lost_callback(): SyncTransport.connect starts a connect thread /
   AsyncTransport's conn_lost creates connect_task *)
Definition spawn (fl : flavour) (s : st) : st * out :=
  start_dial fl (if is_async fl then set_cancellable s true else s).

(* BaseMySensorsProtocol._connection_lost(exc), or the inline body of an override *)
Definition hook_gen (user : bool) (rc : recon_cond) (fl : flavour) (s : st) (exc : bool) : st * out :=
  let o1 := if user then [LostCb exc] else [] in
  let '(s1, o2) := if applies rc exc then spawn fl s else (s, []) in
  (set_conn s1 false, o1 ++ o2).

Definition hook := hook_gen hook_user_lost hook_reconnect.

(* protocol.connection_lost(exc) *)
Definition proto_lost (fl : flavour) (s : st) (exc : bool) : st * out :=
  match fl with
  | SyncSerial | SyncTcp =>
      let o0 := if applies sync_lost_closes exc then [Close] else [] in
      let '(s1, o1) := hook fl s exc in (s1, o0 ++ o1)
  | AsyncSerial => hook fl s exc
  | AsyncTcp =>
      let s0 := if atcp_lost_cancels_wd then set_timer s None else s in
      if atcp_lost_via_hook then hook fl s0 exc
      else hook_gen atcp_inline_user atcp_inline_reconnect fl s0 exc
  end.

(* mysensors code closes a live link: ReaderThread.close() joins the reader, which calls
   connection_lost(None), then closes the port; an asyncio transport's close() schedules
   connection_lost(None) *)
Definition local_close (fl : flavour) (s : st) : st * out :=
  let '(s1, o) := proto_lost fl s false in
  if is_async fl then (s1, Close :: o) else (s1, o ++ [Close]).

(* Transport.disconnect *)
Definition disconnect (fl : flavour) (s : st) : st * out :=
  let '(s1, o) := if tp s && conn s then local_close fl s else (s, []) in
  (set_tp s1 false, o).

(* Transport.send(line); [fails]: transport.write raises OSError *)
Definition send (fl : flavour) (s : st) (fails : bool) : st * out :=
  if tp s && conn s then
    if fails then
      let '(s1, o1) := if send_err_closes then local_close fl s else (s, []) in
      let '(s2, o2) := if send_err_reconnects then spawn fl s1 else (s1, []) in
      (s2, o1 ++ o2)
    else (s, [Write])
  else (s, []).

(* SyncTasks.stop / AsyncTasks.stop (persistence off) *)
Definition do_stop (fl : flavour) (s : st) : st * out :=
  let d := if is_async fl then async_stop_disconnects else sync_stop_disconnects in
  let '(s1, o) := if d then disconnect fl s else (s, []) in
  let s2 := if is_async fl && async_stop_cancels && cancellable s1 then set_ct s1 CIdle else s1 in
  (set_stopped s2 true, o).

(* AsyncTCPGateway.check_connection at time [now s] *)
Definition arm (p : params) (s : st) : st := set_timer s (Some (add (add (now s) (p_rt p)) (p_slack p))).

Definition atcp_check (fl : flavour) (p : params) (s : st) : st * out :=
  match wdc (p_rt p) (check s) (disc s) (now s) with
  | WdDrop =>
      if tp s && conn s then
        let '(s1, o1) := local_close fl (set_disc s (now s)) in
        let '(s2, o2) := spawn fl s1 in (s2, o1 ++ o2)
      else (set_disc s (now s), [])      (* unreachable: AttributeError in the timer callback *)
  | WdProbe => let '(s1, o) := send fl (set_check s (now s)) false in (arm p s1, o)
  | WdIdle => (arm p s, [])
  end.

(* one pass of TCPTransport.run's loop body at time [now s] followed by the poll thread
   draining the job queue; [data]: an I_VERSION answer is readable; [err]: select/recv raise *)
Definition reader_iter (fl : flavour) (p : params) (s : st) (data err : bool) : st * out :=
  if err then proto_lost fl s true
  else
    let answered (x : st) := if data && wd_reset_on_answer then set_disc x (now x) else x in
    match wdc (p_rt p) (check s) (disc s) (now s) with
    | WdDrop => let '(s1, o) := proto_lost fl (set_disc s (now s)) true in (answered s1, o)
    | WdProbe => send fl (answered (set_check s (now s))) false
    | WdIdle => (answered s, [])
    end.

Definition attempt_ok (fl : flavour) (p : params) (s : st) : st * out :=
  match ct s with
  | CDialing =>
      if tp s then
        let s1 := set_ct s CIdle in
        let s2 := if is_tcp fl then set_eof (set_disc (set_check s1 (now s)) (now s)) false else s1 in
        let s3 := set_conn s2 true in
        let o := repeat MadeCb made_calls in
        match fl with
        | AsyncTcp => let '(s4, o') := atcp_check fl p s3 in (s4, o ++ o')
        | SyncTcp => let '(s4, o') := reader_iter fl p s3 false false in (s4, o ++ o')
        | _ => (s3, o)
        end
      else if is_async fl then (set_ct s CIdle, [])   (* protocol_factory() is None: the dial coroutine dies *)
      else (s, [])                                     (* threaded: not modelled, ignored *)
  | _ => (s, [])
  end.

Definition attempt_fail (fl : flavour) (p : params) (s : st) : st * out :=
  match ct s with
  | CDialing =>
      match fail_of fl with
      | FailSleepRetry => (set_ct s (CSleeping (add (now s) (p_rt p))), [Sleep (p_rt p)])
      | FailRetryNow => start_dial fl s
      | FailGiveUp => (set_ct s CIdle, [])
      end
  | _ => (s, [])
  end.

Definition tick (fl : flavour) (p : params) (s : st) (dt : Z) : st * out :=
  if leb dt 0 then (s, []) else
  match ct s with
  | CDialing => (s, [])
  | CSleeping u =>
      if leb u (add (now s) dt) then start_dial fl (set_now s (zmax u (now s)))
      else (set_now s (add (now s) dt), [])
  | CIdle =>
      match timer s with
      | Some w =>
          if leb w (add (now s) dt) then atcp_check fl p (set_timer (set_now s (zmax w (now s))) None)
          else (set_now s (add (now s) dt), [])
      | None =>
          let s1 := set_now s (add (now s) dt) in
          match fl with
          | SyncTcp => if conn s then reader_iter fl p s1 false false else (s1, [])
          | _ => (s1, [])
          end
      end
  end.

Definition read_error (fl : flavour) (p : params) (s : st) : st * out :=
  if conn s then
    match fl with
    | SyncTcp => reader_iter fl p s false true
    | _ => proto_lost fl s true
    end
  else (s, []).

Definition peer_close (fl : flavour) (p : params) (s : st) : st * out :=
  if conn s then
    match fl with
    | SyncSerial => (s, [])                       (* read returns b"": a timeout, nothing happens *)
    | SyncTcp => reader_iter fl p (set_eof s true) false false
    | AsyncSerial | AsyncTcp => proto_lost fl s false
    end
  else (s, []).

Definition probe_answered (fl : flavour) (p : params) (s : st) : st * out :=
  if conn s then
    match fl with
    | SyncTcp => if eof s then (s, []) else reader_iter fl p s true false
    | AsyncTcp => (if wd_reset_on_answer then set_disc s (now s) else s, [])
    | _ => (s, [])
    end
  else (s, []).

Definition gstep (fl : flavour) (p : params) (s : st) (e : event) : st * out :=
  match e with
  | AttemptOk => attempt_ok fl p s
  | AttemptFail => attempt_fail fl p s
  | ReadError | PeerReset => read_error fl p s
  | WriteError => send fl s true
  | PeerClose => peer_close fl p s
  | UserDisconnect => disconnect fl s
  | Stop => do_stop fl s
  | Tick dt => tick fl p s dt
  | ProbeAnswered => probe_answered fl p s
  | Send => send fl s false
  end.

(* run: the state after each event and what the event caused *)
Fixpoint grun (fl : flavour) (p : params) (s : st) (es : list event) : list (st * out) :=
  match es with
  | [] => []
  | e :: r => let '(s', o) := gstep fl p s e in (s', o) :: grun fl p s' r
  end.

Definition gfinal (fl : flavour) (p : params) (s : st) (es : list event) : st :=
  fold_left (fun x e => fst (gstep fl p x e)) es s.

Definition goutputs (fl : flavour) (p : params) (s : st) (es : list event) : out :=
  concat (map snd (grun fl p s es)).

End Control.

(* the model *)
Definition step := gstep Z.add Z.max Z.leb wd_check aser_guard_protocol atcp_guard_protocol.
Definition run := grun Z.add Z.max Z.leb wd_check aser_guard_protocol atcp_guard_protocol.
Definition final := gfinal Z.add Z.max Z.leb wd_check aser_guard_protocol atcp_guard_protocol.
Definition outputs := goutputs Z.add Z.max Z.leb wd_check aser_guard_protocol atcp_guard_protocol.

(* HISTORY (finding D21): the asyncio connect loops as they were before the repair
   (`while True:`), everything else as now.  Used only by the _unfixed_refuted theorem. *)
Definition step_unfixed := gstep Z.add Z.max Z.leb wd_check false false.
Definition outputs_unfixed := goutputs Z.add Z.max Z.leb wd_check false false.
