(* C15 - the periodic-save machine: schedule and dirty-flag level.

   What is modelled (statement by statement, current /repo):
     persistence.py  Persistence.save_sensors  (need_save test, permission test,
                     `need_save = False`, serialisation, the two renames, the
                     removal of the backup, the handler `need_save = True; raise`)
     task.py         SyncTasks._schedule_factory.schedule_save  (try save / except / Timer)
                     AsyncTasks._schedule_factory.save_on_schedule (while True / try / sleep)
                     SyncTasks.stop / AsyncTasks.stop  (cancel, final save)
     __init__.py     Gateway.alert  (`need_save = True`)
     persistence.py  MySensorsJSONEncoder.default / sensor.py Sensor.__getstate__ as the
                     points at which the serialiser reads the live objects.

   The *shape* of that code (order of the statements of save_sensors, what the
   handlers catch, whether the re-arm statement is reached after a caught
   exception) is not typed in here: it is a value of type [cfg], generated from the
   AST of the working tree into Gen/SchedAst.v.  The pre-fix shapes (D9, D10 of
   DESIGN section 9) are kept below as alternative values.

   A save is a sequence of atomic sub-steps between which inbound messages run:
     Begin (test, permission, clear per generated order) ; Open ; Ser_1 .. Ser_n ;
     Sync ; RenameBak ; RenameMain ; RemoveBak.
   Any sub-step may raise OSError (event [EStep FIO]); a Ser step raises
   RuntimeError when the dict iterator it advances notices a size change
   (CPython; the exact rule differs between json and pickle: [policy]). *)
From Coq Require Import List ZArith Bool Arith.
Import ListNotations.

(* ------------------------------------------------------------------ tree *)

Record child := mkChild { c_id : Z; c_typ : Z; c_vals : list (Z * Z) }.
Record node := mkNode { n_id : Z; n_typ : Z; n_children : list child }.
Definition tree := list node.   (* gateway.sensors, insertion ordered *)

(* the three kinds of inbound message that change what is persisted *)
Inductive msg :=
| AddNode (n t : Z)            (* presentation of a node:  n;255;0;0;t;ver *)
| AddChild (n c t : Z)         (* presentation of a child: n;c;0;0;t;desc  *)
| SetValue (n c vt v : Z).     (* set:                     n;c;1;0;vt;v    *)

Fixpoint has_node (n : Z) (t : tree) : bool :=
  match t with [] => false | x :: r => Z.eqb (n_id x) n || has_node n r end.
Fixpoint has_child (c : Z) (l : list child) : bool :=
  match l with [] => false | x :: r => Z.eqb (c_id x) c || has_child c r end.

Fixpoint set_val (vt v : Z) (l : list (Z * Z)) : list (Z * Z) :=
  match l with
  | [] => [(vt, v)]
  | (k, w) :: r => if Z.eqb k vt then (k, v) :: r else (k, w) :: set_val vt v r
  end.

Fixpoint upd_node (n : Z) (f : node -> node) (t : tree) : tree :=
  match t with
  | [] => []
  | x :: r => if Z.eqb (n_id x) n then f x :: r else x :: upd_node n f r
  end.
Fixpoint upd_child (c : Z) (f : child -> child) (l : list child) : list child :=
  match l with
  | [] => []
  | x :: r => if Z.eqb (c_id x) c then f x :: r else x :: upd_child c f r
  end.

(* handler + alert: new tree and whether Gateway.alert ran (need_save := True) *)
Definition apply_msg (m : msg) (t : tree) : tree * bool :=
  match m with
  | AddNode n ty =>
      (* add_sensor; sensors[n].type = sub_type; alert *)
      if has_node n t then (upd_node n (fun x => mkNode (n_id x) ty (n_children x)) t, true)
      else (t ++ [mkNode n ty []], true)
  | AddChild n c ty =>
      (* is_sensor(n) else return; add_child_sensor returns None for a known child *)
      if has_node n t then
        match find (fun x => Z.eqb (n_id x) n) t with
        | Some x => if has_child c (n_children x) then (t, false)
                    else (upd_node n (fun x => mkNode (n_id x) (n_typ x) (n_children x ++ [mkChild c ty []])) t, true)
        | None => (t, false)
        end
      else (t, false)
  | SetValue n c vt v =>
      (* is_sensor(n, c) else return; values[vt] = v; alert *)
      match find (fun x => Z.eqb (n_id x) n) t with
      | Some x => if has_child c (n_children x) then
                    (upd_node n (fun x => mkNode (n_id x) (n_typ x)
                                   (upd_child c (fun y => mkChild (c_id y) (c_typ y) (set_val vt v (c_vals y))) (n_children x))) t, true)
                  else (t, false)
      | None => (t, false)
      end
  end.

(* ------------------------------------------------------------------ generated-fact vocabulary *)

(* the failure classes of the property *)
Inductive fclass := FOSError | FRuntimeError | FCancelled.

(* one class named in an `except` clause, with the live issubclass() row *)
Record hrow := mkH { h_os : bool; h_rt : bool; h_cancel : bool }.
Definition handler := list hrow.      (* [] = no try/except at all *)
Definition row_covers (r : hrow) (f : fclass) : bool :=
  match f with FOSError => h_os r | FRuntimeError => h_rt r | FCancelled => h_cancel r end.
Definition covers (h : handler) (f : fclass) : bool := existsb (fun r => row_covers r f) h.

(* statements of save_sensors after the need_save / permission tests, in source order *)
Inductive sop := SClear | SSer | SRenBak | SRenMain | SRemBak.

Record save_cfg := mkSaveCfg {
  sv_order : list sop;
  sv_protect_from : nat;          (* index in sv_order of the first statement inside the try;
                                     >= length sv_order: there is no try *)
  sv_handler : handler;           (* except clause of that try *)
  sv_handler_sets : option bool;  (* the handler stores this into need_save *)
  sv_handler_reraises : bool;     (* the handler ends in a bare `raise` *)
  sv_finally_sets : option bool   (* a finally clause stores this into need_save *)
}.

Record sched_cfg := mkSchedCfg {
  sc_handler : handler;           (* except clause around the save call; [] = call not in a try *)
  sc_resumes : bool;              (* handler body falls through (no raise / return / break) *)
  sc_rearm : bool;                (* re-arm (Timer(..).start() / await sleep in `while True`) follows the try *)
  sc_stop_cancels : bool;         (* stop() cancels the timer / the task *)
  sc_cancel_ok : bool;            (* cancelling lets stop() go on: sync always; async: the loop
                                     catches CancelledError and breaks, so `await task` returns *)
  sc_stop_saves : bool            (* stop() then calls save_sensors *)
}.

Record cfg := mkCfg {
  c_save : save_cfg; c_sync : sched_cfg; c_async : sched_cfg;
  c_alert : bool      (* Gateway.alert ends in an unconditional `if persistence: need_save = True` *)
}.

Inductive flavour := Sync | Async.
Definition sched_of (c : cfg) (f : flavour) : sched_cfg :=
  match f with Sync => c_sync c | Async => c_async c end.

(* the shapes the code has had *)
Definition h_exception : handler := [mkH true true false].   (* `except Exception` *)
Definition h_cancelled : handler := [mkH false false true].  (* `except asyncio.CancelledError` *)

Definition save_fixed : save_cfg :=
  mkSaveCfg [SClear; SSer; SRenBak; SRenMain; SRemBak] 1 h_exception (Some true) true None.
Definition save_d10 : save_cfg :=        (* before c907183: flag cleared last, no handler *)
  mkSaveCfg [SSer; SRenBak; SRenMain; SRemBak; SClear] 5 [] None true None.
Definition sched_fixed : sched_cfg := mkSchedCfg h_exception true true true true true.
Definition sched_d9 : sched_cfg := mkSchedCfg [] true true true true true.   (* before c158c19 *)
Definition cfg_fixed : cfg := mkCfg save_fixed sched_fixed sched_fixed true.
Definition cfg_d9 : cfg := mkCfg save_fixed sched_d9 sched_d9 true.
Definition cfg_d10 : cfg := mkCfg save_d10 sched_fixed sched_fixed true.

(* ------------------------------------------------------------------ serialiser *)

(* What a dict iterator does when it is advanced: size recorded when the
   iteration started, size now, index of the entry just consumed. *)
Inductive advance := ANext | AEnd | AErr.
Definition policy := nat -> nat -> nat -> advance.

(* json (pure-Python _iterencode_dict over dct.items()): every next() compares sizes *)
Definition pol_json : policy := fun size0 live pos =>
  if negb (Nat.eqb live size0) then AErr
  else if Nat.ltb (S pos) size0 then ANext else AEnd.

(* pickle (C batch_dict_exact): a one-entry dict is written without any check;
   otherwise PyDict_Next runs over the live entries and the size is compared once
   at the end of the batch (batches of 1000: trees here are smaller) *)
Definition pol_pickle : policy := fun size0 live pos =>
  if Nat.eqb size0 1 then AEnd
  else if Nat.ltb (S pos) live then ANext
  else if negb (Nat.eqb live size0) then AErr else AEnd.

Inductive fmt := Json | Pickle.
Definition pol_of (f : fmt) : policy := match f with Json => pol_json | Pickle => pol_pickle end.

(* node being serialised: attributes as read by default()/__getstate__, the size of
   its children dict when the iteration over it started, children done so far *)
Record cur := mkCur { cu_id : Z; cu_typ : Z; cu_k0 : nat; cu_done : list child }.
Record sstate := mkSS { ss_n0 : nat; ss_done : list node; ss_cur : option cur }.

Inductive sphase :=
| PhOpen                      (* before open(tmp, "w") *)
| PhRun (s : sstate)          (* positioned at an object, about to call default() on it *)
| PhSync (snap : tree).       (* everything written; flush, fsync, close pending *)

Inductive sres := Good (p : sphase) | Fail (f : fclass).

Definition finish_node (pol : policy) (t : tree) (s : sstate) (nd : node) : sres :=
  match pol (ss_n0 s) (length t) (length (ss_done s)) with
  | AErr => Fail FRuntimeError
  | ANext => Good (PhRun (mkSS (ss_n0 s) (ss_done s ++ [nd]) None))
  | AEnd => Good (PhSync (ss_done s ++ [nd]))
  end.

(* one call of default()/__getstate__ on the object the serialiser is positioned at,
   followed by the iterator advance(s) up to the next object.  The live tree only
   grows, so the positions exist; the None branches are unreachable. *)
Definition ser_step (pol : policy) (t : tree) (s : sstate) : sres :=
  match nth_error t (length (ss_done s)) with
  | None => Fail FRuntimeError
  | Some nd =>
      match ss_cur s with
      | None =>
          let k0 := length (n_children nd) in
          if Nat.eqb k0 0 then finish_node pol t s (mkNode (n_id nd) (n_typ nd) [])
          else Good (PhRun (mkSS (ss_n0 s) (ss_done s) (Some (mkCur (n_id nd) (n_typ nd) k0 []))))
      | Some c =>
          match nth_error (n_children nd) (length (cu_done c)) with
          | None => Fail FRuntimeError
          | Some ch =>
              let cd := cu_done c ++ [ch] in
              match pol (cu_k0 c) (length (n_children nd)) (length (cu_done c)) with
              | AErr => Fail FRuntimeError
              | ANext => Good (PhRun (mkSS (ss_n0 s) (ss_done s) (Some (mkCur (cu_id c) (cu_typ c) (cu_k0 c) cd))))
              | AEnd => finish_node pol t s (mkNode (cu_id c) (cu_typ c) cd)
              end
          end
      end
  end.

(* open succeeded: the iteration over gateway.sensors starts *)
Definition ser_open (t : tree) : sphase :=
  match t with [] => PhSync [] | _ => PhRun (mkSS (length t) [] None) end.

(* ------------------------------------------------------------------ machine *)

Record fsys := mkFs { f_main : option tree; f_bak : option tree }.
(* what safe_load_sensors of a fresh gateway returns *)
Definition load (f : fsys) : option tree :=
  match f_main f with Some t => Some t | None => f_bak f end.

Inductive owner := OSched | OFinal.

Record sv := mkSv {
  v_owner : owner;
  v_exists : bool;              (* os.path.isfile(fname) at the start *)
  v_todo : list sop;            (* statements still to run, head first *)
  v_idx : nat;                  (* index of the head in sv_order *)
  v_ph : sphase;                (* progress inside SSer *)
  v_snap : tree;                (* what SSer wrote to the temporary file *)
  v_load0 : option tree         (* ghost: load fs when the save began *)
}.

Record st := mkSt {
  s_tree : tree;
  s_dirty : bool;               (* Persistence.need_save *)
  s_fs : fsys;
  s_armed : bool;               (* a Timer is started and not fired / the task sleeps *)
  s_stopped : bool;
  s_saving : option sv
}.

Definition init (t : tree) (f : fsys) : st := mkSt t true f true false None.

Inductive fault := FNone | FIO.

Inductive event :=
| EFire (denied : bool)         (* timer fires / loop wakes: schedule_save runs up to the first sub-step *)
| EStep (f : fault)             (* next sub-step of the save in progress *)
| EMsg (m : msg)                (* gateway.logic on one inbound line *)
| EStop (denied : bool).        (* stop(): cancel, begin the final save *)

(* what the event did (observation) *)
Inductive outp :=
| ONoop
| OMsg (alerted : bool)
| OProgress                     (* sub-step done, save still running *)
| OEnded (skipped denied : bool) (failed : option fclass) (raised : bool).
    (* save_sensors is over: it skipped a clean state / was denied / an exception of class
       `failed` occurred inside it and (raised) left it *)

Definition set_opt (o : option bool) (d : bool) : bool := match o with Some b => b | None => d end.

Definition has_try (c : save_cfg) : bool := Nat.ltb (sv_protect_from c) (length (sv_order c)).

(* control leaves save_sensors (r = None: returned) and goes back to its caller *)
Definition return_to_caller (c : cfg) (fl : flavour) (o : owner) (r : option fclass) (s : st) : st :=
  match o with
  | OFinal => mkSt (s_tree s) (s_dirty s) (s_fs s) (s_armed s) (s_stopped s) None
  | OSched =>
      let sc := sched_of c fl in
      let goes_on := match r with
                     | None => true
                     | Some f => covers (sc_handler sc) f && sc_resumes sc
                     end in
      mkSt (s_tree s) (s_dirty s) (s_fs s) (goes_on && sc_rearm sc) (s_stopped s) None
  end.

(* an exception of class f at statement index idx of save_sensors *)
Definition save_raises (c : cfg) (fl : flavour) (v : sv) (f : fclass) (s : st) : st * outp :=
  let sc := c_save c in
  let protected := Nat.leb (sv_protect_from sc) (v_idx v) && has_try sc in
  let caught := protected && covers (sv_handler sc) f in
  let d1 := if caught then set_opt (sv_handler_sets sc) (s_dirty s) else s_dirty s in
  let d2 := if protected then set_opt (sv_finally_sets sc) d1 else d1 in
  let r := if caught && negb (sv_handler_reraises sc) then None else Some f in
  (return_to_caller c fl (v_owner v) r (mkSt (s_tree s) d2 (s_fs s) (s_armed s) (s_stopped s) None),
   OEnded false false (Some f) (negb (caught && negb (sv_handler_reraises sc)))).

(* run the statements that are not sub-steps of their own: `need_save = False`,
   the two `if exists:` statements when the file did not exist, the normal return *)
Fixpoint settle (c : cfg) (fl : flavour) (v : sv) (todo : list sop) (idx : nat) (s : st) : st * outp :=
  match todo with
  | [] =>
      let d := if has_try (c_save c) then set_opt (sv_finally_sets (c_save c)) (s_dirty s) else s_dirty s in
      (return_to_caller c fl (v_owner v) None (mkSt (s_tree s) d (s_fs s) (s_armed s) (s_stopped s) None),
       OEnded false false None false)
  | SClear :: r => settle c fl v r (S idx) (mkSt (s_tree s) false (s_fs s) (s_armed s) (s_stopped s) (s_saving s))
  | SRenBak :: r =>
      if v_exists v then
        (mkSt (s_tree s) (s_dirty s) (s_fs s) (s_armed s) (s_stopped s)
              (Some (mkSv (v_owner v) (v_exists v) todo idx (v_ph v) (v_snap v) (v_load0 v))), OProgress)
      else settle c fl v r (S idx) s
  | SRemBak :: r =>
      if v_exists v then
        (mkSt (s_tree s) (s_dirty s) (s_fs s) (s_armed s) (s_stopped s)
              (Some (mkSv (v_owner v) (v_exists v) todo idx (v_ph v) (v_snap v) (v_load0 v))), OProgress)
      else settle c fl v r (S idx) s
  | _ =>
      (mkSt (s_tree s) (s_dirty s) (s_fs s) (s_armed s) (s_stopped s)
            (Some (mkSv (v_owner v) (v_exists v) todo idx (v_ph v) (v_snap v) (v_load0 v))), OProgress)
  end.

Definition is_some {A} (o : option A) : bool := match o with Some _ => true | None => false end.

(* save_sensors up to its first sub-step *)
Definition begin_save (c : cfg) (fl : flavour) (o : owner) (denied : bool) (s : st) : st * outp :=
  if negb (s_dirty s) then (return_to_caller c fl o None s, OEnded true false None false)       (* if not self.need_save: return *)
  else if denied then (return_to_caller c fl o None s, OEnded false true None false)             (* Permission denied: log, return *)
  else
    let v := mkSv o (is_some (f_main (s_fs s))) (sv_order (c_save c)) 0 PhOpen [] (load (s_fs s)) in
    settle c fl v (sv_order (c_save c)) 0 s.

Definition with_sv (s : st) (v : sv) : st :=
  mkSt (s_tree s) (s_dirty s) (s_fs s) (s_armed s) (s_stopped s) (Some v).
Definition with_fs (s : st) (f : fsys) : st :=
  mkSt (s_tree s) (s_dirty s) f (s_armed s) (s_stopped s) (s_saving s).

Definition sub_step (c : cfg) (fl : flavour) (pol : policy) (v : sv) (f : fault) (s : st) : st * outp :=
  match f with
  | FIO => save_raises c fl v FOSError s
  | FNone =>
      match v_todo v with
      | [] => settle c fl v [] (v_idx v) s
      | SClear :: r => settle c fl v (v_todo v) (v_idx v) s
      | SSer :: r =>
          match v_ph v with
          | PhOpen =>
              (with_sv s (mkSv (v_owner v) (v_exists v) (v_todo v) (v_idx v) (ser_open (s_tree s)) (v_snap v) (v_load0 v)),
               OProgress)
          | PhRun ss =>
              match ser_step pol (s_tree s) ss with
              | Fail e => save_raises c fl v e s
              | Good ph =>
                  (with_sv s (mkSv (v_owner v) (v_exists v) (v_todo v) (v_idx v) ph (v_snap v) (v_load0 v)), OProgress)
              end
          | PhSync snap =>
              settle c fl (mkSv (v_owner v) (v_exists v) r (S (v_idx v)) (v_ph v) snap (v_load0 v)) r (S (v_idx v)) s
          end
      | SRenBak :: r =>     (* os.rename(fname, bak) *)
          settle c fl v r (S (v_idx v)) (with_fs s (mkFs None (f_main (s_fs s))))
      | SRenMain :: r =>    (* os.rename(tmp, fname) *)
          settle c fl v r (S (v_idx v)) (with_fs s (mkFs (Some (v_snap v)) (f_bak (s_fs s))))
      | SRemBak :: r =>     (* os.remove(bak) *)
          settle c fl v r (S (v_idx v)) (with_fs s (mkFs (f_main (s_fs s)) None))
      end
  end.

Definition step (c : cfg) (fl : flavour) (pol : policy) (s : st) (e : event) : st * outp :=
  match e with
  | EMsg m =>
      let '(t, a) := apply_msg m (s_tree s) in
      (mkSt t (s_dirty s || (a && c_alert c)) (s_fs s) (s_armed s) (s_stopped s) (s_saving s), OMsg a)
  | EFire denied =>
      match s_saving s with
      | Some _ => (s, ONoop)
      | None =>
          if s_armed s then
            begin_save c fl OSched denied (mkSt (s_tree s) (s_dirty s) (s_fs s) false (s_stopped s) None)
          else (s, ONoop)
      end
  | EStep f =>
      match s_saving s with
      | Some v => sub_step c fl pol v f s
      | None => (s, ONoop)
      end
  | EStop denied =>
      match s_saving s with
      | Some _ => (s, ONoop)
      | None =>
          if s_stopped s then (s, ONoop)
          else
            let sc := sched_of c fl in
            let s1 := mkSt (s_tree s) (s_dirty s) (s_fs s)
                           (if sc_stop_cancels sc then false else s_armed s) true None in
            if (negb (sc_stop_cancels sc) || sc_cancel_ok sc) && sc_stop_saves sc
            then begin_save c fl OFinal denied s1
            else (s1, ONoop)
      end
  end.

Definition run (c : cfg) (fl : flavour) (pol : policy) (s : st) (evs : list event) : st :=
  fold_left (fun s e => fst (step c fl pol s e)) evs s.

(* ------------------------------------------------------------------ driving one save *)

(* which sub-step is next *)
Inductive skind := KIdle | KOpen | KSer | KSync | KRenBak | KRenMain | KRemBak.
Definition next_kind (s : st) : skind :=
  match s_saving s with
  | None => KIdle
  | Some v =>
      match v_todo v with
      | SSer :: _ => match v_ph v with PhOpen => KOpen | PhRun _ => KSer | PhSync _ => KSync end
      | SRenBak :: _ => KRenBak
      | SRenMain :: _ => KRenMain
      | SRemBak :: _ => KRemBak
      | _ => KIdle
      end
  end.
Definition skind_eqb (a b : skind) : bool :=
  match a, b with
  | KIdle, KIdle | KOpen, KOpen | KSer, KSer | KSync, KSync
  | KRenBak, KRenBak | KRenMain, KRenMain | KRemBak, KRemBak => true
  | _, _ => false
  end.

(* what happens during one save of a test case *)
Inductive plan :=
| PClean
| PDenied
| PIo (k : skind) (j : nat)     (* OSError at the sub-step of kind k (for KSer: at the j-th call) *)
| PMsg (j : nat) (m : msg).     (* one inbound message right before the j-th default() call *)

(* the events of one save under a plan, chosen by looking at the state only;
   returns them in order together with the state reached and the last output *)
Fixpoint drive (c : cfg) (fl : flavour) (pol : policy) (p : plan) (fuel : nat) (j : nat)
         (s : st) (acc : list event) (last : outp) : st * list event * outp * nat :=
  match fuel with
  | O => (s, rev acc, last, j)
  | S fuel' =>
      let k := next_kind s in
      match k with
      | KIdle => (s, rev acc, last, j)
      | _ =>
          let inject := match p with
                        | PMsg j' m => if skind_eqb k KSer && Nat.eqb j j' then Some m else None
                        | _ => None
                        end in
          let '(s1, acc1) := match inject with
                             | Some m => (fst (step c fl pol s (EMsg m)), EMsg m :: acc)
                             | None => (s, acc)
                             end in
          let f := match p with
                   | PIo k' j' => if skind_eqb k k' && (negb (skind_eqb k KSer) || Nat.eqb j j') then FIO else FNone
                   | _ => FNone
                   end in
          let '(s2, o) := step c fl pol s1 (EStep f) in
          drive c fl pol p fuel' (if skind_eqb k KSer then S j else j) s2 (EStep f :: acc1) o
      end
  end.

Fixpoint objs (t : tree) : nat :=
  match t with [] => O | n :: r => S (length (n_children n)) + objs r end.

Definition is_denied (p : plan) : bool := match p with PDenied => true | _ => false end.

(* one scheduled save (stop = false) or stop() (stop = true) under a plan *)
Definition do_save (c : cfg) (fl : flavour) (pol : policy) (stop : bool) (p : plan) (s : st)
  : st * list event * outp * nat :=
  let e0 := if stop then EStop (is_denied p) else EFire (is_denied p) in
  let '(s1, o1) := step c fl pol s e0 in
  drive c fl pol p (objs (s_tree s) + 12) 0 s1 [e0] o1.

(* ------------------------------------------------------------------ specification vocabulary *)

(* a dict iterator over an unchanged dict visits every entry and stops *)
Definition policy_ok (pol : policy) : Prop :=
  forall n pos, pol n n pos = if Nat.ltb (S pos) n then ANext else AEnd.

Definition sop_eqb (a b : sop) : bool :=
  match a, b with
  | SClear, SClear | SSer, SSer | SRenBak, SRenBak | SRenMain, SRenMain | SRemBak, SRemBak => true
  | _, _ => false
  end.
Fixpoint sops_eqb (a b : list sop) : bool :=
  match a, b with
  | [], [] => true
  | x :: a', y :: b' => sop_eqb x y && sops_eqb a' b'
  | _, _ => false
  end.

Definition full_order : list sop := [SClear; SSer; SRenBak; SRenMain; SRemBak].

(* the mechanisms the property rests on, as a decidable condition on the generated shape:
   flag cleared before serialising; serialisation and renames inside a try whose handler
   catches OSError and stores True; no finally that touches the flag.  (RuntimeError need
   not be caught here: it only follows a message, whose alert() has set the flag again.) *)
Definition good_save (c : save_cfg) : bool :=
  sops_eqb (sv_order c) full_order
  && Nat.leb (sv_protect_from c) 1
  && covers (sv_handler c) FOSError
  && match sv_handler_sets c with Some true => true | _ => false end
  && match sv_finally_sets c with None => true | Some _ => false end.

(* save call inside a try that catches both classes and falls through to the re-arm;
   stop() cancels, survives the cancellation and saves *)
Definition good_sched (s : sched_cfg) : bool :=
  covers (sc_handler s) FOSError && covers (sc_handler s) FRuntimeError
  && sc_resumes s && sc_rearm s && sc_stop_cancels s && sc_cancel_ok s && sc_stop_saves s.

Definition good (c : cfg) : bool :=
  good_save (c_save c) && good_sched (c_sync c) && good_sched (c_async c) && c_alert c.

(* number of sub-steps of an undisturbed fault-free save *)
Definition save_len (t : tree) (ex : bool) : nat := objs t + 3 + (if ex then 2 else 0).

Definition reachable (c : cfg) (fl : flavour) (pol : policy) (s : st) : Prop :=
  exists t0 f0 evs, s = run c fl pol (init t0 f0) evs.
