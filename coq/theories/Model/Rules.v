(* voluptuous validators as used in mysensors/const_*.py: deep embedding and interpreter.
   Third-party behaviour modelled, not verified (DESIGN 3.3). *)
From Coq Require Import List NArith ZArith QArith Bool.
From PMS Require Import Base.PyStr Base.PyInt.
Import ListNotations.
Open Scope Z_scope.

(* result of float(s): the exact value of the binary64 result, supplied by an oracle *)
Inductive fres := FErr | FNan | FInf (neg : bool) | FVal (q : Q).

Inductive val :=
| VS (s : pstr)        (* str *)
| VI (z : Z)           (* int *)
| VF (f : fres)        (* float (never FErr) *)
| VOpaque.             (* str(float): content not modelled, nothing inspects it *)

Inductive fname := FIsVersion | FRgb | FRgbw | FGps | FHex.

Inductive rule :=
| RStr                                   (* the type str *)
| RLit (s : pstr)                        (* a literal string *)
| RIn (l : list pstr)                    (* vol.In(container of str) *)
| RAll (rs : list rule)
| RAny (rs : list rule)
| RCoerceInt | RCoerceFloat | RCoerceStr
| RRange (lo hi : Z) (lo_inc hi_inc : bool)   (* vol.Range with integral bounds *)
| RFun (f : fname).

Definition is_hexdigit (c : N) : bool :=
  ((48 <=? c) && (c <=? 57) || (65 <=? c) && (c <=? 70) || (97 <=? c) && (c <=? 102))%N.

(* binascii.unhexlify(str) succeeds *)
Definition hex_ok (s : pstr) : bool := Nat.even (length s) && forallb is_hexdigit s.

Section Eval.
  (* oracles: awesomeversion's verdict inside is_version, CPython float() *)
  Variable orc_version : pstr -> bool.     (* is_version(s) returns (does not raise Invalid) *)
  Variable orc_float : pstr -> fres.

  Definition range_ok_Z (lo hi : Z) (li hi_inc : bool) (z : Z) : bool :=
    (if li then lo <=? z else lo <? z) && (if hi_inc then z <=? hi else z <? hi).

  (* voluptuous tests `not v >= min` / `not v <= max`: NaN fails both *)
  Definition range_ok_F (lo hi : Z) (li hi_inc : bool) (f : fres) : bool :=
    match f with
    | FVal q => (if li then Qle_bool (inject_Z lo) q else negb (Qle_bool q (inject_Z lo))) &&
                (if hi_inc then Qle_bool q (inject_Z hi) else negb (Qle_bool (inject_Z hi) q))
    | FInf neg => if neg then false else false   (* -inf < lo ; +inf > hi : bounds are finite *)
    | FNan | FErr => false
    end.

  Definition eval_fun (f : fname) (v : val) : option val :=
    match v with
    | VS s =>
        match f with
        | FIsVersion => if orc_version s then Some v else None
        | FRgb => if Nat.eqb (length s) 6 && hex_ok s then Some v else None
        | FRgbw => if Nat.eqb (length s) 8 && hex_ok s then Some v else None
        | FHex => if hex_ok s then Some v else None
        | FGps =>
            match split 44 s with
            | [a; b; c] =>
                match orc_float a, orc_float b, orc_float c with
                | FErr, _, _ | _, FErr, _ | _, _, FErr => None
                | _, _, _ => Some v
                end
            | _ => None
            end
        end
    | _ => None
    end.

  Fixpoint eval (r : rule) (v : val) : option val :=
    match r with
    | RStr => match v with VS _ | VOpaque => Some v | _ => None end
    | RLit s => match v with VS x => if pstr_eqb x s then Some v else None | _ => None end
    | RIn l => match v with VS x => if mem_pstr x l then Some v else None | _ => None end
    | RAll rs =>
        (fix all (rs : list rule) (v : val) : option val :=
           match rs with
           | [] => Some v
           | r :: rs' => match eval r v with Some v' => all rs' v' | None => None end
           end) rs v
    | RAny rs =>
        (fix any (rs : list rule) : option val :=
           match rs with
           | [] => None
           | r :: rs' => match eval r v with Some v' => Some v' | None => any rs' end
           end) rs
    | RCoerceInt =>
        match v with
        | VS s => option_map VI (parse s)
        | VI z => Some (VI z)
        | _ => None
        end
    | RCoerceFloat =>
        match v with
        | VS s => match orc_float s with FErr => None | f => Some (VF f) end
        | VI z => Some (VF (FVal (inject_Z z)))
        | VF f => Some (VF f)
        | VOpaque => None
        end
    | RCoerceStr =>
        match v with
        | VS s => Some (VS s)
        | VI z => Some (VS (print z))
        | VF _ | VOpaque => Some VOpaque
        end
    | RRange lo hi li hi_inc =>
        match v with
        | VI z => if range_ok_Z lo hi li hi_inc z then Some v else None
        | VF f => if range_ok_F lo hi li hi_inc f then Some v else None
        | _ => None
        end
    | RFun f => eval_fun f v
    end.

  Definition accepts (r : rule) (p : pstr) : bool :=
    match eval r (VS p) with Some _ => true | None => false end.
End Eval.

(* Static kinds: which value kinds can reach which validator.  Tables are checked to be
   well-kinded (vm_compute side condition), so the arbitrary answers eval gives on
   ill-kinded combinations (e.g. a Range applied to a str: TypeError in Python) are never used. *)
Inductive kind := KStr | KInt | KFloat | KOpaque.

Definition kind_eqb (a b : kind) : bool :=
  match a, b with KStr, KStr | KInt, KInt | KFloat, KFloat | KOpaque, KOpaque => true | _, _ => false end.

Fixpoint kind_of (r : rule) (k : kind) : option kind :=
  match r with
  | RStr => match k with KStr | KOpaque => Some k | _ => None end
  | RLit _ | RIn _ => match k with KStr => Some KStr | _ => None end
  | RAll rs =>
      (fix all (rs : list rule) (k : kind) : option kind :=
         match rs with
         | [] => Some k
         | r :: rs' => match kind_of r k with Some k' => all rs' k' | None => None end
         end) rs k
  | RAny rs =>
      (* every alternative must be well-kinded and agree on the output kind *)
      (fix any (rs : list rule) (acc : option kind) : option kind :=
         match rs with
         | [] => acc
         | r :: rs' =>
             match kind_of r k with
             | Some k' => match acc with
                          | None => any rs' (Some k')
                          | Some a => any rs' (Some (if kind_eqb a k' then a else KOpaque))
                          end
             | None => None
             end
         end) rs None
  | RCoerceInt => match k with KStr | KInt => Some KInt | _ => None end
  | RCoerceFloat => match k with KStr | KInt | KFloat => Some KFloat | _ => None end
  | RCoerceStr => match k with KStr | KInt => Some KStr | _ => Some KOpaque end
  | RRange _ _ _ _ => match k with KInt => Some KInt | KFloat => Some KFloat | _ => None end
  | RFun _ => match k with KStr => Some KStr | _ => None end
  end.

Definition well_kinded (r : rule) : bool :=
  match kind_of r KStr with Some _ => true | None => false end.
