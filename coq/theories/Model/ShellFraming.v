(* Command interpreter of the C19 runner (extracted to _build/model_runFraming and
   evaluated by vm_compute in the cross-check).
     frame <t> <chunk>*            feed the chunks (byte lists) one by one, dec = identity
                                   -> ok <residual buffer> <n> <packet>*n
     recv <t> <n> <stream>         the same for the recv(n) chunking of the stream
                                   -> ok <number of chunks> <residual> <n> <packet>*n
     flav <ops> {<reply|--> <k> <nested>*k}*
                                   both job machines over the table handler (line i has
                                   the given outputs); ops is a word over R (Recv) / P (Pump)
                                   -> ok <queue length> <lines run> <n> <sync log>*n <m> <async log>*m
     mini <ops> <line>*            both machines over mini_handler from the empty state
                                   -> same output
     decode / encode / int ...     the codec commands of ShellBase *)
From Coq Require Import List NArith ZArith Bool String.
From PMS Require Import Base.PyStr Base.PyInt Base.Exn Model.Codec Model.ShellBase
                        Model.Framing Model.JobFlavours.
Import ListNotations.
Open Scope N_scope.

Record shell_state := mkShell { sh_unit : unit }.
Definition shell_init : shell_state := mkShell tt.

Definition out_nat (n : nat) : pstr := out_N (N.of_nat n).
Definition out_strs (l : list pstr) : list pstr := out_nat (List.length l) :: map out_str l.
Definition idb (b : bytes) : pstr := b.

Definition frame_cmd (args : list pstr) : pstr :=
  match args with
  | t :: chunks =>
      match tok_N t, map_opt tok_str chunks with
      | Some t', Some cs =>
          let '(p, out) := feed t' idb (proto_init) cs in
          sp (s2p "ok" :: out_str (p_buffer p) :: out_strs out)
      | _, _ => bad
      end
  | _ => bad
  end.

Definition recv_cmd (args : list pstr) : pstr :=
  match args with
  | [t; n; s] =>
      match tok_N t, tok_N n, tok_str s with
      | Some t', Some n', Some s' =>
          let cs := chunks_of (N.to_nat n') s' in
          let '(p, out) := feed t' idb (proto_init) cs in
          sp (s2p "ok" :: out_nat (List.length cs) :: out_str (p_buffer p) :: out_strs out)
      | _, _, _ => bad
      end
  | _ => bad
  end.

(* the abstract handler instantiated by a table of observed outputs *)
Definition table := list (option pstr * list pstr).
Definition table_handler (tb : table) (st : nat) (_ : pstr) : nat * option pstr * list pstr :=
  let o := nth st tb (None, []) in (S st, fst o, snd o).

Fixpoint parse_table (fuel : nat) (ts : list pstr) : option table :=
  match ts with
  | [] => Some []
  | r :: k :: rest =>
      match fuel with
      | O => None
      | S f =>
          match tok_optstr r, tok_N k with
          | Some r', Some k' =>
              let kn := N.to_nat k' in
              if Nat.ltb (List.length rest) kn then None
              else match map_opt tok_str (firstn kn rest), parse_table f (skipn kn rest) with
                   | Some ns, Some tl => Some ((r', ns) :: tl)
                   | _, _ => None
                   end
          | _, _ => None
          end
      end
  | _ => None
  end.

(* ops word: R = Recv of the next line (an empty dummy when none is given), P = Pump *)
Fixpoint parse_ops (w : pstr) (lines : list pstr) : option (list op) :=
  match w with
  | [] => Some []
  | c :: r =>
      if N.eqb c 82 then
        match lines with
        | l :: ls => option_map (cons (Recv l)) (parse_ops r ls)
        | [] => option_map (cons (Recv [])) (parse_ops r [])
        end
      else if N.eqb c 80 then option_map (cons Pump) (parse_ops r lines)
      else None
  end.

Definition machines_out {state} (handler : state -> pstr -> state * option pstr * list pstr)
           (st0 : state) (ops : list op) (count : state -> nat) : pstr :=
  let '(m, so) := sync_run state handler (mkSync st0 []) ops in
  let '(sa, ao) := async_run state handler st0 (recvs ops) in
  sp (s2p "ok" :: out_nat (List.length (s_queue m)) :: out_nat (count (s_state m))
        :: out_strs so ++ out_strs ao).

Definition flav_cmd (args : list pstr) : pstr :=
  match args with
  | w :: ts =>
      match parse_ops w [], parse_table (List.length ts) ts with
      | Some ops, Some tb => machines_out (table_handler tb) O ops (fun n => n)
      | _, _ => bad
      end
  | _ => bad
  end.

Definition mini_cmd (args : list pstr) : pstr :=
  match args with
  | w :: ls =>
      match map_opt tok_str ls with
      | Some lines =>
          match parse_ops w lines with
          | Some ops => machines_out mini_handler [] ops (fun st => List.length st)
          | None => bad
          end
      | None => bad
      end
  | _ => bad
  end.

Definition first_some {A} (l : list (option A)) (d : A) : A :=
  fold_right (fun o acc => match o with Some x => x | None => acc end) d l.

Definition shell_step (st : shell_state) (line : pstr) : shell_state * pstr :=
  match tokens line with
  | cmd :: args =>
      if pstr_eqb cmd (s2p "reset") then (shell_init, s2p "ok")
      else if pstr_eqb cmd (s2p "frame") then (st, frame_cmd args)
      else if pstr_eqb cmd (s2p "recv") then (st, recv_cmd args)
      else if pstr_eqb cmd (s2p "flav") then (st, flav_cmd args)
      else if pstr_eqb cmd (s2p "mini") then (st, mini_cmd args)
      else (st, first_some [codec_cmd cmd args] bad)
  | [] => (st, bad)
  end.

Fixpoint shell_run (st : shell_state) (lines : list pstr) : list pstr :=
  match lines with
  | [] => []
  | l :: r => let '(st', o) := shell_step st l in o :: shell_run st' r
  end.
