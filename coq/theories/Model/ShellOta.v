(* Command interpreter of the C09 runner (extracted binary and vm_compute). *)
From Coq Require Import List NArith ZArith Bool String.
From PMS Require Import Base.PyStr Base.PyInt Base.Exn Model.Codec Model.ShellBase
     Model.Hex Model.Ota Model.IntelHex Model.OtaServe.
Import ListNotations.
Open Scope N_scope.

Record shell_state := mkShell { sh_ota : otast; sh_known : list Z }.
Definition shell_init : shell_state := mkShell ota_init [].

(* bytes travel as "s<csv of decimals>" or, compactly, as "h<hex digits>" *)
Definition tok_bytes (t : pstr) : option (list N) :=
  match t with
  | 104 :: r => unhex_pairs r
  | _ => tok_str t
  end.
Definition out_hex (b : list N) : pstr := 104 :: hexlify b.
Definition out_Zs (l : list Z) : pstr := 115 :: join [44] (map out_Z l).

Definition is_dd (t : pstr) : bool := pstr_eqb t [45; 45].

Definition tok_fwarg (t : pstr) : option fwarg :=
  match t with
  | 115 :: _ => option_map AStr (tok_str t)
  | _ => option_map AInt (tok_Z t)
  end.

Definition tok_nat (t : pstr) : option nat := option_map N.to_nat (tok_N t).

(* record token: s<addr>,<type>,<data bytes...> *)
Definition tok_rec (t : pstr) : option ihrec :=
  match tok_str t with
  | Some (a :: ty :: d) => Some (mkRec a ty d)
  | _ => None
  end.

Definition out_res {A} (f : A -> pstr) (r : res A) : pstr :=
  match r with
  | Ok a => sp [s2p "ok"; f a]
  | Raise e => sp [s2p "err"; exn_name e]
  end.

Definition out_reply (r : res (option pstr)) : pstr :=
  match r with
  | Ok (Some p) => sp [s2p "resp"; out_str p]
  | Ok None => s2p "none"
  | Raise e => sp [s2p "err"; exn_name e]
  end.

Definition out_store (s : nstore) : pstr :=
  join [44] (map (fun e => join [46] [out_Z (fst e); out_Z (fst (snd e)); out_Z (snd (snd e))]) s).
Definition out_fwdict (d : fwdict) : pstr :=
  join [44] (map (fun e => join [46] [out_Z (fst (fst e)); out_Z (snd (fst e));
                                      out_Z (fw_blocks (snd e)); out_Z (fw_crc (snd e));
                                      out_N (N.of_nat (List.length (fw_data (snd e))))]) d).
Definition out_state (o : otast) : pstr :=
  sp [s2p "fw=" ++ out_fwdict (o_fw o); s2p "req=" ++ out_store (o_req o);
      s2p "uns=" ++ out_store (o_uns o); s2p "sta=" ++ out_store (o_sta o)].

Definition opt_tok {A} (f : pstr -> option A) (t : pstr) : option (option A) :=
  if is_dd t then Some None else option_map Some (f t).

Definition pure_cmd (cmd : pstr) (args : list pstr) : option pstr :=
  if pstr_eqb cmd (s2p "hex2int") then
    match args with
    | [s; w] => match tok_str s, tok_nat w with
                | Some s, Some w => Some (out_res out_Zs (fw_hex_to_int s w))
                | _, _ => Some bad
                end
    | _ => Some bad
    end
  else if pstr_eqb cmd (s2p "int2hex") then
    match map_opt tok_Z args with
    | Some ws => Some (out_res out_str (fw_int_to_hex ws))
    | None => Some bad
    end
  else if pstr_eqb cmd (s2p "unhex") then
    match args with
    | [s] => match tok_str s with
             | Some s => Some (out_res out_hex (unhexlify s))
             | None => Some bad
             end
    | _ => Some bad
    end
  else if pstr_eqb cmd (s2p "crc") then
    match args with
    | [b] => match tok_bytes b with Some b => Some (out_Z (crc16_modbus b)) | None => Some bad end
    | _ => Some bad
    end
  else if pstr_eqb cmd (s2p "prepare") then
    match args with
    | [b] => match tok_bytes b with
             | Some b => let f := prepare_fw b in
                         Some (sp [out_Z (fw_blocks f); out_Z (fw_crc f); out_hex (fw_data f)])
             | None => Some bad
             end
    | _ => Some bad
    end
  else if pstr_eqb cmd (s2p "block") then
    match args with
    | [i; b] => match tok_Z i, tok_bytes b with
                | Some i, Some b => Some (out_hex (fw_block b i))
                | _, _ => Some bad
                end
    | _ => Some bad
    end
  else if pstr_eqb cmd (s2p "ihexenc") then
    match args with
    | [u; n; b] => match tok_N u, tok_nat n, tok_bytes b with
                   | Some u, Some n, Some b => Some (out_str (ihex_encode (negb (u =? 0)) n b))
                   | _, _, _ => Some bad
                   end
    | _ => Some bad
    end
  else if pstr_eqb cmd (s2p "ihexrecs") then
    match args with
    | u :: rs => match tok_N u, map_opt tok_rec rs with
                 | Some u, Some rs => Some (out_str (ihex_print (negb (u =? 0)) rs))
                 | _, _ => Some bad
                 end
    | _ => Some bad
    end
  else if pstr_eqb cmd (s2p "ihexload") then
    match args with
    | [s] => match tok_str s with
             | Some s => Some match ihex_load s with
                              | Some b => sp [s2p "ok"; out_hex b]
                              | None => s2p "none"
                              end
             | None => Some bad
             end
    | _ => Some bad
    end
  else None.

Definition known_b (st : shell_state) (n : Z) : bool := existsb (Z.eqb n) (sh_known st).

Definition session_cmd (st : shell_state) (cmd : pstr) (args : list pstr) : option (shell_state * pstr) :=
  if pstr_eqb cmd (s2p "present") then
    match map_opt tok_Z args with
    | Some ns => Some (mkShell (sh_ota st) (sh_known st ++ ns), s2p "ok")
    | None => Some (st, bad)
    end
  else if pstr_eqb cmd (s2p "update") then
    match args with
    | ta :: va :: b :: f :: ns =>
        match tok_fwarg ta, tok_fwarg va, opt_tok tok_bytes b, opt_tok tok_str f, map_opt tok_Z ns with
        | Some ta, Some va, Some b, Some f, Some ns =>
            let o := match f with
                     | Some _ => update_fw (sh_known st) (sh_ota st) ns ta va f
                     | None => make_update (sh_known st) (sh_ota st) ns ta va b
                     end in
            Some (mkShell o (sh_known st), out_state o)
        | _, _, _, _, _ => Some (st, bad)
        end
    | _ => Some (st, bad)
    end
  else if pstr_eqb cmd (s2p "cfgreq") || pstr_eqb cmd (s2p "blkreq") then
    match args with
    | [n; p] =>
        match tok_Z n, tok_str p with
        | Some n, Some p =>
            if known_b st n then
              let '(o, r) := if pstr_eqb cmd (s2p "cfgreq")
                             then respond_fw_config (sh_ota st) n p
                             else respond_fw (sh_ota st) n p in
              Some (mkShell o (sh_known st), out_reply r)
            else Some (st, s2p "none")
        | _, _ => Some (st, bad)
        end
    | _ => Some (st, bad)
    end
  else if pstr_eqb cmd (s2p "state") then Some (st, out_state (sh_ota st))
  else None.

Definition shell_step (st : shell_state) (line : pstr) : shell_state * pstr :=
  match tokens line with
  | cmd :: args =>
      if pstr_eqb cmd (s2p "reset") then (shell_init, s2p "ok")
      else match pure_cmd cmd args with
           | Some o => (st, o)
           | None => match session_cmd st cmd args with
                     | Some r => r
                     | None => (st, bad)
                     end
           end
  | [] => (st, bad)
  end.

Fixpoint shell_run (st : shell_state) (lines : list pstr) : list pstr :=
  match lines with
  | [] => []
  | l :: r => let '(st', o) := shell_step st l in o :: shell_run st' r
  end.
