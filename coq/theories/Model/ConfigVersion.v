(* C18 - protocol version selection: awesomeversion's comparison on dotted
   numeric strings (exact) and through an oracle on everything else;
   validation.is_version / safe_is_version, const.get_const, the version test
   of Gateway.is_sensor and the Sensor.protocol_version setter, transcribed
   over the generated facts of Gen/Signatures.v. *)
From Coq Require Import List NArith ZArith Bool String.
From PMS Require Import Base.PyStr Base.PyInt Base.Exn Model.ConfigSyntax Gen.Signatures.
From PMS Require Export Base.Version.
Import ListNotations.
Open Scope N_scope.
Open Scope list_scope.

(* dotted numeric strings, sections, base_cmp, av_gt_num, av_lt_num: Base/Version.v *)

Definition av_num (op : avop) (l r : pstr) : bool :=
  match op with
  | OpLt => av_lt_num l r
  | OpGt => av_gt_num l r
  | OpEq => pstr_eqb l r
  | OpNe => negb (pstr_eqb l r)
  | OpLe => pstr_eqb l r || av_lt_num l r
  | OpGe => pstr_eqb l r || av_gt_num l r
  end.

(* str(value) as applied by is_version and by AwesomeVersion(...) *)
Definition py_str (v : val) : pstr :=
  match v with
  | VStr s => s
  | VInt z => print z
  | VNone => s2p "None"
  | VBool true => s2p "True"
  | VBool false => s2p "False"
  | VFloat r => r
  | VObj t => app (s2p "<") (app t (s2p ">"))
  | VRef _ => s2p "<object>"
  | VPair _ _ => s2p "(,)"
  end.

(* lexicographic order of Python str (by code point), sorted() as insertion sort *)
Fixpoint pstr_leb (a b : pstr) : bool :=
  match a, b with
  | [], _ => true
  | _ :: _, [] => false
  | x :: a', y :: b' => if N.eqb x y then pstr_leb a' b' else N.ltb x y
  end.
Fixpoint insert_sorted (x : pstr) (l : list pstr) : list pstr :=
  match l with
  | [] => [x]
  | y :: r => if pstr_leb x y then x :: l else y :: insert_sorted x r
  end.
Definition py_sorted (l : list pstr) : list pstr := fold_right insert_sorted [] l.

Fixpoint assoc {A} (k : pstr) (l : list (pstr * A)) : option A :=
  match l with
  | [] => None
  | (k', v) :: r => if pstr_eqb k k' then Some v else assoc k r
  end.

Section Oracle.
(* Verdict of awesomeversion on  AwesomeVersion(l) <op> AwesomeVersion(r)  when
   a side is not a dotted numeric string; None = the comparison raises
   AwesomeVersionCompareException.  Supplied by the harness with the library's
   real answer; every theorem quantifies over it. *)
Variable orc : avop -> pstr -> pstr -> option bool.
(* Whether AwesomeVersion(s).strategy is one of the strategies that is_version
   refuses before comparing - SPECIALCONTAINER ("latest", "dev", "stable",
   "beta" after awesomeversion's own trimming; fix b5ee08d) and UNKNOWN (forms
   like "7 ." that the library cannot compare; fix of finding D22); the list is
   read from the source by the translator (comment in Gen/Signatures.v) - for a
   string s that is not dotted numeric; a dotted numeric string never is
   (SIMPLEVER/BUILDVER/SEMVER/CALVER).  Supplied by the harness with the
   library's verdict, quantified over by every theorem. *)
Variable cont : pstr -> bool.

Definition is_container (s : pstr) : bool := negb (dotted_numeric s) && cont s.

Definition av_cmp (op : avop) (l r : pstr) : option bool :=
  if dotted_numeric l && dotted_numeric r then Some (av_num op l r) else orc op l r.

Definition side_val (s : vside) (input loop : pstr) : pstr :=
  match s with VInput => input | VLoop => loop | VLit l => l end.

Definition eval_vtest (t : vtest) (input loop : pstr) : option bool :=
  option_map (xorb (vt_neg t))
    (av_cmp (vt_op t) (side_val (vt_l t) input loop) (side_val (vt_r t) input loop)).

(* validation.is_version; rejects_container = the generated fact that the
   container words are refused before the comparison (fix b5ee08d) *)
Definition is_version_with (rejects_container : bool) (v : val) : res pstr :=
  let s := py_str v in
  if rejects_container && is_container s then
    (if is_version_catches_container_raise then Raise VolInvalid else Raise ValueError)
  else
  match eval_vtest is_version_test s [] with
  | None => if is_version_catches_compare_error then Raise VolInvalid else Raise OtherError
  | Some true => if is_version_catches_own_raise then Raise VolInvalid else Raise ValueError
  | Some false => Ok s
  end.
Definition is_version (v : val) : res pstr := is_version_with is_version_rejects_container v.

(* validation.safe_is_version *)
Definition safe_is_version_with (rejects_container : bool) (v : val) : res pstr :=
  match is_version_with rejects_container v with
  | Ok s => Ok s
  | Raise VolInvalid => Ok safe_fallback
  | Raise e => Raise e
  end.
Definition safe_is_version (v : val) : res pstr := safe_is_version_with is_version_rejects_container v.

(* const.get_const: the keys in the order the generator expression visits them *)
Definition iter_keys : list pstr :=
  let keys := map fst const_versions in
  match get_const_order with
  | SortedDesc => rev (py_sorted keys)
  | SortedAsc => py_sorted keys
  | InsertionOrder => keys
  end.

Fixpoint first_match (input : pstr) (ks : list pstr) : res (option pstr) :=
  match ks with
  | [] => Ok None
  | k :: r =>
      match eval_vtest get_const_test input k with
      | None => Raise OtherError
      | Some true => Ok (Some k)
      | Some false => first_match input r
      end
  end.

(* returns the module path (the module's __name__) *)
Definition get_const (version : pstr) : res pstr :=
  do m <- first_match version iter_keys;
  match m with
  | Some k => of_option KeyError (assoc k const_versions)
  | None => Ok get_const_default
  end.

(* what a gateway configured with protocol_version = v uses *)
Definition gateway_version (v : val) : res pstr := safe_is_version v.
Definition gateway_const (v : val) : res pstr := do s <- safe_is_version v; get_const s.

(* the test in Gateway.is_sensor that decides whether an unknown node is asked
   to present itself *)
Definition wants_presentation (version : pstr) : res bool :=
  of_option OtherError (eval_vtest is_sensor_test version []).

(* Sensor.protocol_version = v (the presentation handler assigns the payload),
   and the table a node with that stored version is validated against
   (Sensor.validate_child_state: get_const(self.protocol_version)) *)
Definition sensor_set_version (v : val) : res val :=
  match sensor_setter with
  | SetSafeIsVersion => do s <- safe_is_version v; Ok (VStr s)
  | SetIsVersion => do s <- is_version v; Ok (VStr s)
  | SetRaw => Ok v
  end.
Definition node_const (v : val) : res pstr :=
  do stored <- sensor_set_version v; get_const (py_str stored).

End Oracle.
