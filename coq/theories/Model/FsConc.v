(* Two threads inside Persistence.save_sensors (mysensors/persistence.py) over ONE file system: the scheduled
   save (timer thread / executor thread) and the final save of stop().  Finding D23.

   Thread-local: the open file object and the local variable `exists` (m_h, m_exists of FsSave.mstate).
   Shared: the file system and the attribute need_save.  Thread 1 saves the state new1 and is preempted ONCE,
   before primitive call j of statement i (pause = the interpreter of FsSave cut at that point: EvCrash is used as
   "stop here", nothing is lost); a message is handled (need_save := True, the network becomes new2); thread 2
   runs save_sensors(new2) completely; thread 1 resumes.  With the lock of the repaired code thread 2 cannot
   enter while thread 1 is inside: the only schedule is thread 1 completely, then thread 2 completely
   (conc_locked = FsSave.fault_scn_gen without event: save, then save_again).

   ABSTRACTION: two file objects on one inode - a flush replaces the inode's content by the flushing thread's
   buffer (fs_set_vol).  In CPython the bytes land at the thread's own offset over the other thread's data
   (pickle: still decodes as the flushing thread's state; json: damaged).  Both readings agree on what the
   theorems state: what is loaded afterwards is NOT new2. *)
From Coq Require Import List Bool Arith NArith.
From PMS Require Import Base.PyStr Spec.AbstractFs Model.FsSave.
Import ListNotations.

Section WithState.
Context {St : Type}.

(* thread 1 up to (not including) primitive call j of statement i; Crashed = "paused there",
   Done / Raised = the position does not exist: the save ran to its end *)
Definition pause (w : nat) (new : St) (i j : nat) (prog : list sinstr) (st : mstate St) : mstate St * status :=
  exec w new (Some (mkEv EvCrash i j)) prog st.

(* the rest of save_sensors from primitive call j of statement i on *)
Fixpoint resume (w : nat) (new : St) (i j : nat) (prog : list sinstr) (st : mstate St) : mstate St * status :=
  match prog with
  | [] => (st, Done)
  | ins :: rest =>
      match i with
      | S i' => resume w new i' j rest st
      | O =>
          if i_guard ins && negb (m_exists st) then exec w new None rest st
          else
            match i_op ins with
            | IGuardNeedSave => exec w new None prog st
            | ISetNeedSave _ => exec w new None prog st
            | op =>
                match run_acts new None 0 (skipn j (acts_of w st op)) st with
                | (st', Done) => exec w new None rest st'
                | (st', Raised) => (unwind new ins st', Raised)
                | (st', Crashed) => (st', Crashed)
                end
            end
      end
  end.

Record conc_obs := mkCC {
  cc_paused : bool;                  (* thread 1 really was preempted inside save_sensors *)
  cc_status1 : status;               (* how thread 1's save ended *)
  cc_status2 : status;               (* how thread 2's save ended *)
  cc_need_save : bool;               (* need_save when both are through *)
  cc_loaded : lres (list St);        (* what a start-up loads then *)
  cc_fs : fsys St }.

(* no mutual exclusion (the code before fix c9a1a32) *)
Definition conc_unlocked (P : progs) (c : cfg) (old new1 new2 sb stt : St) (w i j : nat) (ep ee : cls) (w2 : nat)
  : conc_obs :=
  let '(stp, sp) := pause w new1 i j (p_save P) (fresh (mk_prior c old sb stt)) in
  match sp with
  | Crashed =>
      (* the message sets need_save; thread 2 has its own file object and its own `exists` *)
      let '(st2, s2) := save w2 new2 None (p_save P) (mkM (m_fs stp) None true false) in
      let '(st3, s3) := resume w new1 i j (p_save P)
                          (mkM (m_fs st2) (m_h stp) (m_need_save st2) (m_exists stp)) in
      mkCC true s3 s2 (m_need_save st3) (snd (loadf P ep ee (m_fs st3))) (m_fs st3)
  | _ =>
      let '(st2, s2) := save w2 new2 None (p_save P) (mkM (m_fs stp) None true false) in
      mkCC false sp s2 (m_need_save st2) (snd (loadf P ep ee (m_fs st2))) (m_fs st2)
  end.

(* with the lock: thread 1 completely, the message, thread 2 completely *)
Definition conc_locked (P : progs) (c : cfg) (old new1 new2 sb stt : St) (w : nat) (ep ee : cls) (w2 : nat)
  : fault_obs St :=
  fault_scn_gen P c old new1 new2 sb stt w None ep ee w2.

End WithState.
