(* C19 part 2 - the two job disciplines of mysensors/task.py over an ABSTRACT
   gateway.  `handler st line` stands for Gateway.logic(line) run in state st: it
   returns the new state, the reply returned by logic() (None = no reply) and the
   strings produced by the jobs that logic() enqueued through tasks.add_job while
   it ran (is_sensor's presentation request, the smart sleep flush), in order.
   Those nested jobs (msg.encode / str) only produce a string to send.

   SyncTasks.add_job:   self.queue.append((func, args))
   SyncTasks._poll_queue: reply = self.run_job(); self.transport.send(reply)
   Tasks.run_job:       job = self.queue.popleft() (None on an empty queue); return func( *args)
   AsyncTasks.add_job:  reply = self.run_job((func, args)); self.transport.send(reply)
   BaseMySensorsProtocol.handle_line: tasks.add_job(gateway.logic, line)
   Transport.send:      `if not message ...: return`  (None and "" are dropped) *)
From Coq Require Import List NArith ZArith Bool String.
From PMS Require Import Base.PyStr Base.PyInt Base.Exn Model.Codec.
Import ListNotations.

Inductive job := JLogic (line : pstr) | JSend (s : pstr).
Inductive op := Recv (line : pstr) | Pump.

(* Transport.send(message): nothing for "" *)
Definition emit (s : pstr) : list pstr := match s with [] => [] | _ => [s] end.
(* Transport.send(reply) for the value returned by logic() *)
Definition emit_opt (o : option pstr) : list pstr :=
  match o with Some r => emit r | None => [] end.
Definition emits (l : list pstr) : list pstr := flat_map emit l.

Fixpoint recvs (ops : list op) : list pstr :=
  match ops with
  | [] => []
  | Recv l :: r => l :: recvs r
  | Pump :: r => recvs r
  end.

Section Flavours.
  Variable state : Type.
  Variable handler : state -> pstr -> state * option pstr * list pstr.

  (* ---- threaded flavour: one FIFO for inbound lines and outbound nested jobs *)
  Record sync := mkSync { s_state : state; s_queue : list job }.

  Definition sync_step (m : sync) (o : op) : sync * list pstr :=
    match o with
    | Recv l => (mkSync (s_state m) (s_queue m ++ [JLogic l]), [])       (* add_job(logic, line) *)
    | Pump =>
        match s_queue m with
        | [] => (m, [])                                                   (* run_job -> None; send(None) *)
        | JLogic l :: q =>
            let '(st', reply, nested) := handler (s_state m) l in         (* nested add_job: append *)
            (mkSync st' (q ++ map JSend nested), emit_opt reply)          (* send(reply) *)
        | JSend s :: q => (mkSync (s_state m) q, emit s)
        end
    end.

  Fixpoint sync_run (m : sync) (ops : list op) : sync * list pstr :=
    match ops with
    | [] => (m, [])
    | o :: r => let '(m1, o1) := sync_step m o in
                let '(m2, o2) := sync_run m1 r in (m2, o1 ++ o2)
    end.

  (* ---- asyncio flavour: add_job runs the job inline and sends at once; the
     nested add_job calls happen INSIDE logic(), i.e. their strings are sent
     before logic() returns its own reply to the outer add_job *)
  Definition async_line (st : state) (l : pstr) : state * list pstr :=
    let '(st', reply, nested) := handler st l in (st', emits nested ++ emit_opt reply).

  Fixpoint async_run (st : state) (lines : list pstr) : state * list pstr :=
    match lines with
    | [] => (st, [])
    | l :: r => let '(s1, o1) := async_line st l in
                let '(s2, o2) := async_run s1 r in (s2, o1 ++ o2)
    end.

  (* the handler outputs along the FIFO run over the lines *)
  Fixpoint line_outputs (st : state) (lines : list pstr) : list (option pstr * list pstr) :=
    match lines with
    | [] => []
    | l :: r => let '(st', reply, nested) := handler st l in (reply, nested) :: line_outputs st' r
    end.

  Fixpoint final_state (st : state) (lines : list pstr) : state :=
    match lines with
    | [] => st
    | l :: r => let '(st', _, _) := handler st l in final_state st' r
    end.

  (* a schedule in which the pump runs n_i times after line i *)
  Definition block_ops (b : pstr * nat) : list op := Recv (fst b) :: repeat Pump (snd b).
  Definition blocks_ops (bs : list (pstr * nat)) : list op := flat_map block_ops bs.

  (* ... and n_i pumps drain the queue before the next line arrives *)
  Fixpoint drained_between (m : sync) (bs : list (pstr * nat)) : Prop :=
    match bs with
    | [] => True
    | b :: r => let m' := fst (sync_run m (block_ops b)) in
                s_queue m' = [] /\ drained_between m' r
    end.
End Flavours.

Arguments mkSync {state}.
Arguments s_state {state}.
Arguments s_queue {state}.

(* what each flavour emits for handler outputs (reply, nested) of consecutive
   lines when nothing else is pending *)
Definition sync_order (outs : list (option pstr * list pstr)) : list pstr :=
  flat_map (fun o => emit_opt (fst o) ++ emits (snd o)) outs.
Definition async_order (outs : list (option pstr * list pstr)) : list pstr :=
  flat_map (fun o => emits (snd o) ++ emit_opt (fst o)) outs.
(* a line never both replies and enqueues jobs that send something *)
Definition exclusive (o : option pstr * list pstr) : Prop := emit_opt (fst o) = [] \/ emits (snd o) = [].

(* The full ordered claim of the property for the two flavours: whenever the
   pump has drained the queue at the end, the threaded gateway has emitted the
   same SEQUENCE as the asyncio gateway.  Refuted (JobFlavourProofs). *)
Definition flavour_equiv_full : Prop :=
  forall (state : Type) (handler : state -> pstr -> state * option pstr * list pstr)
         (st0 : state) (ops : list op),
    s_queue (fst (sync_run state handler (mkSync st0 []) ops)) = [] ->
    snd (sync_run state handler (mkSync st0 []) ops) = snd (async_run state handler st0 (recvs ops)).

(* ---- a concrete small handler mirroring the 2.x gateway on the lines of the
   D11 witness: node / child presentation, set (is_sensor: presentation request
   as a nested job when node or child is unknown), I_CONFIG request (reply) *)
Definition mini_state := list (Z * list Z).

Fixpoint mini_children (n : Z) (st : mini_state) : option (list Z) :=
  match st with
  | [] => None
  | (k, cs) :: r => if Z.eqb k n then Some cs else mini_children n r
  end.
Fixpoint mini_add_child (n c : Z) (st : mini_state) : mini_state :=
  match st with
  | [] => []
  | (k, cs) :: r => if Z.eqb k n then (k, cs ++ [c]) :: r else (k, cs) :: mini_add_child n c r
  end.
Fixpoint mem_Z (x : Z) (l : list Z) : bool :=
  match l with [] => false | y :: r => Z.eqb x y || mem_Z x r end.

Definition presentation_request (n : Z) : pstr := encode (mkMsg n 255 3 0 19 []).

Definition mini_handler (st : mini_state) (l : pstr) : mini_state * option pstr * list pstr :=
  match decode l with
  | None => (st, None, [])
  | Some m =>
      let n := m_node m in let c := m_child m in
      if Z.eqb (m_type m) 0 then
        if Z.eqb c 255 then
          match mini_children n st with
          | Some _ => (st, None, [])
          | None => (st ++ [(n, [])], None, [])
          end
        else match mini_children n st with
             | Some cs => if mem_Z c cs then (st, None, []) else (mini_add_child n c st, None, [])
             | None => (st, None, [presentation_request n])
             end
      else if Z.eqb (m_type m) 1 then
        match mini_children n st with
        | Some cs => if mem_Z c cs then (st, None, []) else (st, None, [presentation_request n])
        | None => (st, None, [presentation_request n])
        end
      else if Z.eqb (m_type m) 3 && Z.eqb (m_sub m) 6 then
        (st, Some (encode (mkMsg n c 3 0 6 [77%N])), [])
      else (st, None, [])
  end.

(* the D11 witness: node 1 known, a set for an unknown child and a config
   request both pending when the pump runs *)
Definition d11_state : mini_state := [(1%Z, [])].
Definition d11_lines : list pstr := [s2p "1;7;1;0;2;1"; s2p "1;255;3;0;6;0"].
Definition d11_ops : list op := [Recv (s2p "1;7;1;0;2;1"); Recv (s2p "1;255;3;0;6;0"); Pump; Pump; Pump].
