(* The core machine: mysensors/sensor.py, handler.py, __init__.py (Gateway), ota.py
   (session stores), task.py (job queue, both flavours), statement by statement, with the
   statements that can raise.  Tables and the handler registry are the GENERATED ones. *)
From Coq Require Import List NArith ZArith Bool String.
From PMS Require Import Base.PyStr Base.PyInt Base.Exn Model.Codec Model.Rules Model.TableTypes
  Gen.Tables Model.Validate Model.Hex Model.Ota Model.Oracles.
Import ListNotations.
Open Scope string_scope.
Open Scope list_scope.
Open Scope Z_scope.

(* ---------------------------------------------------------------- data *)

(* values handed to set_child_value: str or int; str() of them *)
Inductive pyval := PS (s : pstr) | PI (z : Z).
Definition py_str (v : pyval) : pstr := match v with PS s => s | PI z => print z end.

(* value_type argument of set_child_value: int or str; int() of it (None = ValueError) *)
Inductive vtarg := VtInt (z : Z) | VtStr (s : pstr).
Definition vt_int (v : vtarg) : option Z := match v with VtInt z => Some z | VtStr s => parse s end.

(* insertion-ordered dict with integer keys: assignment keeps the position of an existing key *)
Fixpoint zset {A} (k : Z) (a : A) (l : list (Z * A)) : list (Z * A) :=
  match l with
  | [] => [(k, a)]
  | (k', a') :: r => if Z.eqb k k' then (k, a) :: r else (k', a') :: zset k a r
  end.
Fixpoint zdel {A} (k : Z) (l : list (Z * A)) : list (Z * A) :=
  match l with
  | [] => []
  | (k', a') :: r => if Z.eqb k k' then r else (k', a') :: zdel k r
  end.
Definition zhas {A} (k : Z) (l : list (Z * A)) : bool :=
  match zassoc k l with Some _ => true | None => false end.

Record child := mkChild {
  c_id : Z; c_type : Z; c_desc : pstr;
  c_values : list (Z * pyval) }.                 (* child.values *)

Record node := mkNode {
  n_id : Z;
  n_children : list (Z * child);
  n_type : option Z;
  n_sk_name : option pstr; n_sk_ver : option pstr;
  n_batt : Z; n_pver : pstr; n_hb : Z;
  n_new : list (Z * list (Z * option pyval));    (* new_state: child id -> desired values (None = confirmed) *)
  n_queue : list pstr;                           (* withheld command strings, oldest first *)
  n_reboot : bool }.

Definition new_node (id : Z) : node :=
  mkNode id [] None None None 0 (s2p "1.4") 0 [] [] false.

(* Sensor.is_smart_sleep_node = bool(self.new_state) *)
Definition sleeping (n : node) : bool := match n_new n with [] => false | _ => true end.

Record ota := mkOta {
  o_fw : list ((Z * Z) * fware);
  o_requested : list (Z * (Z * Z));
  o_unstarted : list (Z * (Z * Z));
  o_started : list (Z * (Z * Z)) }.
Definition ota_init := mkOta [] [] [] [].

Fixpoint fw_lookup (t v : Z) (l : list ((Z * Z) * fware)) : option fware :=
  match l with
  | [] => None
  | ((t', v'), f) :: r => if Z.eqb t t' && Z.eqb v v' then Some f else fw_lookup t v r
  end.
Fixpoint fw_store (t v : Z) (f : fware) (l : list ((Z * Z) * fware)) : list ((Z * Z) * fware) :=
  match l with
  | [] => [((t, v), f)]
  | ((t', v'), f') :: r => if Z.eqb t t' && Z.eqb v v' then ((t, v), f) :: r else ((t', v'), f') :: fw_store t v f r
  end.

(* what the persistence file stores of a node (and the callback snapshot) *)
Record pchild := mkPChild { pc_id : Z; pc_type : Z; pc_desc : pstr; pc_values : list (Z * pyval) }.
Record pnode := mkPNode {
  pn_id : Z; pn_children : list (Z * pchild); pn_type : option Z;
  pn_sk_name : option pstr; pn_sk_ver : option pstr; pn_batt : Z; pn_pver : pstr; pn_hb : Z }.
Definition tree := list (Z * pnode).

Definition proj_child (c : child) : pchild := mkPChild (c_id c) (c_type c) (c_desc c) (c_values c).
Definition proj_node (n : node) : pnode :=
  mkPNode (n_id n) (map (fun kc => (fst kc, proj_child (snd kc))) (n_children n)) (n_type n)
          (n_sk_name n) (n_sk_ver n) (n_batt n) (n_pver n) (n_hb n).
Definition proj (s : list (Z * node)) : tree := map (fun kn => (fst kn, proj_node (snd kn))) s.

(* jobs of Tasks.queue: (gateway.logic, line) | a function returning a string to send *)
Inductive job := JLogic (l : pstr) | JSend (l : pstr).

Inductive event :=
| ESend (l : pstr)                       (* string handed to transport.send (falsy replies omitted) *)
| ECallback (m : msg) (t : tree)         (* event_callback(msg) with the tree as visible inside the call *)
| ERaise (e : exn).                      (* an exception escaped the pump / a controller call *)

Record config := mkConfig {
  cf_tab : vtab;               (* const module selected by get_const(protocol_version) *)
  cf_ge20 : bool;              (* not AwesomeVersion(protocol_version) < "2.0"  (is_sensor) *)
  cf_async : bool;             (* AsyncTasks: jobs run inline *)
  cf_callback : bool;          (* an event callback is configured *)
  cf_persist : bool }.         (* persistence enabled: alert marks the state dirty *)

Record gw := mkGw {
  g_cf : config;
  g_sensors : list (Z * node);
  g_ota : ota;
  g_metric : bool;
  g_jobs : list job;
  g_dirty : bool;
  g_log : list event }.        (* observations, newest last *)

Definition gw_init (cf : config) : gw := mkGw cf [] ota_init true [] true [].

Definition set_sensors (g : gw) (s : list (Z * node)) : gw :=
  mkGw (g_cf g) s (g_ota g) (g_metric g) (g_jobs g) (g_dirty g) (g_log g).
Definition set_ota (g : gw) (o : ota) : gw :=
  mkGw (g_cf g) (g_sensors g) o (g_metric g) (g_jobs g) (g_dirty g) (g_log g).
Definition set_jobs (g : gw) (j : list job) : gw :=
  mkGw (g_cf g) (g_sensors g) (g_ota g) (g_metric g) j (g_dirty g) (g_log g).
Definition set_dirty (g : gw) (d : bool) : gw :=
  mkGw (g_cf g) (g_sensors g) (g_ota g) (g_metric g) (g_jobs g) d (g_log g).
Definition set_metric (g : gw) (b : bool) : gw :=
  mkGw (g_cf g) (g_sensors g) (g_ota g) b (g_jobs g) (g_dirty g) (g_log g).
Definition emit (g : gw) (e : event) : gw :=
  mkGw (g_cf g) (g_sensors g) (g_ota g) (g_metric g) (g_jobs g) (g_dirty g) (g_log g ++ [e]).
Definition set_log (g : gw) (l : list event) : gw :=
  mkGw (g_cf g) (g_sensors g) (g_ota g) (g_metric g) (g_jobs g) (g_dirty g) l.

Definition tab (g : gw) : vtab := cf_tab (g_cf g).
Definition get_node (g : gw) (n : Z) : option node := zassoc n (g_sensors g).
Definition put_node (g : gw) (nd : node) : gw := set_sensors g (zset (n_id nd) nd (g_sensors g)).

(* ---------------------------------------------------------------- environment *)
Section Machine.
  Variable orc : oracles.        (* is_version / get_const / float() verdicts *)
  Variable clock : Z.            (* calendar.timegm(time.localtime()) *)

  Definition gvalidate (g : gw) (m : msg) : bool :=
    validate (orc_version orc) (orc_float orc) (tab g) m.

  (* validation.safe_is_version on a str: the value itself when is_version accepts, else "1.4" *)
  Definition safe_version (s : pstr) : pstr := if orc_version orc s then s else s2p "1.4".
  (* get_const(sensor.protocol_version) *)
  Definition node_tab (n : node) : vtab := nth (orc_const orc (n_pver n)) all_tabs tab_14.

  (* transport.send(reply): a falsy reply (None or "") is not sent *)
  Definition send (g : gw) (l : pstr) : gw := match l with [] => g | _ => emit g (ESend l) end.

  (* tasks.add_job(<function returning the string l>): queued (threaded) or run and sent at once (asyncio) *)
  Definition add_job_send (g : gw) (l : pstr) : gw :=
    if cf_async (g_cf g) then send g l else set_jobs g (g_jobs g ++ [JSend l]).

  (* Gateway.alert *)
  Definition alert (g : gw) (m : msg) : gw :=
    let g1 := if cf_callback (g_cf g) then emit g (ECallback m (proj (g_sensors g))) else g in
    if cf_persist (g_cf g) then set_dirty g1 true else g1.

  (* Gateway._route_message on a Message *)
  Definition route (g : gw) (m : msg) : gw * option msg :=
    if m_type m =? vt_presentation (tab g) then (g, None)
    else match get_node g (m_node m) with
         | None => (g, Some m)
         | Some nd =>
             if (m_type m =? vt_stream (tab g)) || negb (sleeping nd) then (g, Some m)
             else (put_node g (mkNode (n_id nd) (n_children nd) (n_type nd) (n_sk_name nd) (n_sk_ver nd)
                                      (n_batt nd) (n_pver nd) (n_hb nd) (n_new nd)
                                      (n_queue nd ++ [encode m]) (n_reboot nd)), None)
         end.
  Definition route_opt (g : gw) (m : option msg) : gw * option msg :=
    match m with None => (g, None) | Some m => route g m end.

  (* `sensorid in range(BROADCAST_ID + 1)`: only a valid node id is asked to present itself *)
  Definition node_id_ok (sid : Z) : bool := (0 <=? sid) && (sid <=? broadcast_id).

  (* Gateway.is_sensor *)
  Definition is_sensor (g : gw) (sid : Z) (cid : option Z) : res (gw * bool) :=
    let ret := match get_node g sid with
               | None => false
               | Some nd => match cid with None => true | Some c => zhas c (n_children nd) end
               end in
    if negb ret && node_id_ok sid && cf_ge20 (g_cf g) then
      match sassoc (s2p "I_PRESENTATION") (vt_internal_members (tab g)) with
      | None => Raise AttributeError
      | Some ipres =>
          let m := mkMsg sid system_child_id (vt_internal (tab g)) 0 ipres [] in
          let '(g1, r) := route g m in
          Ok (match r with Some m' => add_job_send g1 (encode m') | None => g1 end, ret)
      end
    else Ok (g, ret).

  (* Gateway._get_next_id / add_sensor(None) *)
  Definition next_id (g : gw) : option Z :=
    let nid := match g_sensors g with
               | [] => 1
               | _ => fold_left Z.max (map fst (g_sensors g)) (fst (hd (0, new_node 0) (g_sensors g))) + 1
               end in
    if nid <=? vt_max_node (tab g) then Some nid else None.

  Definition add_sensor (g : gw) (sid : Z) : gw :=
    if zhas sid (g_sensors g) then g else set_sensors g (g_sensors g ++ [(sid, new_node sid)]).

  (* Gateway.create_message_to_set_sensor_value: ValueError / voluptuous.Invalid *)
  Definition create_set_message (g : gw) (nid cid : Z) (vt : vtarg) (v : pyval)
             (mtype ack : option Z) : res msg :=
    match vt_int vt with
    | None => Raise ValueError
    | Some vti =>
        let m := mkMsg nid cid (match mtype with Some t => t | None => vt_set (tab g) end)
                       (match ack with Some a => a | None => 0 end) vti (py_str v) in
        if gvalidate g m then Ok m else Raise VolInvalid
    end.

  (* Sensor.validate_child_state (against the node's own protocol version) *)
  Definition validate_child_state (nd : node) (cid : Z) (vt : vtarg) (v : pyval) : res unit :=
    match vt_int vt with
    | None => Raise ValueError
    | Some vti =>
        let t := node_tab nd in
        let m := mkMsg (n_id nd) cid (vt_set t) 0 vti (py_str v) in
        if validate (orc_version orc) (orc_float orc) t m then Ok tt else Raise VolInvalid
    end.

  Definition with_children (nd : node) (ch : list (Z * child)) : node :=
    mkNode (n_id nd) ch (n_type nd) (n_sk_name nd) (n_sk_ver nd) (n_batt nd) (n_pver nd) (n_hb nd)
           (n_new nd) (n_queue nd) (n_reboot nd).
  Definition with_new (nd : node) (nw : list (Z * list (Z * option pyval))) : node :=
    mkNode (n_id nd) (n_children nd) (n_type nd) (n_sk_name nd) (n_sk_ver nd) (n_batt nd) (n_pver nd)
           (n_hb nd) nw (n_queue nd) (n_reboot nd).
  Definition with_queue (nd : node) (q : list pstr) : node :=
    mkNode (n_id nd) (n_children nd) (n_type nd) (n_sk_name nd) (n_sk_ver nd) (n_batt nd) (n_pver nd)
           (n_hb nd) (n_new nd) q (n_reboot nd).
  Definition with_reboot (nd : node) (b : bool) : node :=
    mkNode (n_id nd) (n_children nd) (n_type nd) (n_sk_name nd) (n_sk_ver nd) (n_batt nd) (n_pver nd)
           (n_hb nd) (n_new nd) (n_queue nd) b.

  (* Sensor.update_child_value *)
  Definition update_child_value (nd : node) (cid vt : Z) (v : pstr) : node :=
    match zassoc cid (n_children nd) with
    | None => nd
    | Some ch =>
        let ch' := mkChild (c_id ch) (c_type ch) (c_desc ch) (zset vt (PS v) (c_values ch)) in
        let nd1 := with_children nd (zset cid ch' (n_children nd)) in
        match zassoc cid (n_new nd) with
        | None => nd1
        | Some dv => with_new nd1 (zset cid (zset vt None dv) (n_new nd))
        end
    end.

  (* Sensor.get_desired_value *)
  Definition get_desired_value (nd : node) (cid vt : Z) : option pyval :=
    match zassoc cid (n_children nd) with
    | None => None
    | Some ch =>
        let desired :=
          if sleeping nd then
            match zassoc cid (n_new nd) with
            | Some dv => match zassoc vt dv with Some (Some v) => Some v | _ => None end
            | None => None
            end
          else None in
        match desired with
        | Some v => Some v
        | None => zassoc vt (c_values ch)
        end
    end.

  (* Sensor.init_smart_sleep_mode *)
  Definition init_smart_sleep (nd : node) : node :=
    with_new nd (fold_left (fun nw kc => if zhas (fst kc) nw then nw else nw ++ [(fst kc, [])])
                           (n_children nd) (n_new nd)).

  (* the set commands of the wake-up flush: children in order, reported value types in order *)
  Fixpoint flush_values (g : gw) (nid cid : Z) (dv : list (Z * option pyval)) (vals : list (Z * pyval))
    : res (list pstr) :=
    match vals with
    | [] => Ok []
    | (vt, _) :: r =>
        match zassoc vt dv with
        | Some (Some v) =>
            do m <- create_set_message g nid cid (VtInt vt) v None None;
            do rest <- flush_values g nid cid dv r;
            Ok (encode m :: rest)
        | _ => flush_values g nid cid dv r
        end
    end.
  Fixpoint flush_children (g : gw) (nd : node) (chs : list (Z * child)) : res (list pstr) :=
    match chs with
    | [] => Ok []
    | (_, ch) :: r =>
        match zassoc (c_id ch) (n_new nd) with
        | None => flush_children g nd r
        | Some dv =>
            do a <- flush_values g (n_id nd) (c_id ch) dv (c_values ch);
            do b <- flush_children g nd r;
            Ok (a ++ b)
        end
    end.

  (* handler.handle_smartsleep.  In Python the jobs are added one at a time, so when
     create_message raises, the jobs added before it stay queued: modelled by emitting the
     prefix that was produced before the error. *)
  Fixpoint flush_values_pre (g : gw) (nid cid : Z) (dv : list (Z * option pyval)) (vals : list (Z * pyval))
    : list pstr * option exn :=
    match vals with
    | [] => ([], None)
    | (vt, _) :: r =>
        match zassoc vt dv with
        | Some (Some v) =>
            match create_set_message g nid cid (VtInt vt) v None None with
            | Ok m => let '(rest, e) := flush_values_pre g nid cid dv r in (encode m :: rest, e)
            | Raise e => ([], Some e)
            end
        | _ => flush_values_pre g nid cid dv r
        end
    end.
  Fixpoint flush_children_pre (g : gw) (nd : node) (chs : list (Z * child)) : list pstr * option exn :=
    match chs with
    | [] => ([], None)
    | (_, ch) :: r =>
        match zassoc (c_id ch) (n_new nd) with
        | None => flush_children_pre g nd r
        | Some dv =>
            match flush_values_pre g (n_id nd) (c_id ch) dv (c_values ch) with
            | (a, Some e) => (a, Some e)
            | (a, None) => let '(b, e) := flush_children_pre g nd r in (a ++ b, e)
            end
        end
    end.

  Definition handle_smartsleep (g : gw) (nd0 : node) : res gw :=
    let nd1 := init_smart_sleep nd0 in
    let q := n_queue nd1 in
    let nd2 := with_queue nd1 [] in
    let g1 := put_node g nd2 in
    let g2 := fold_left add_job_send q g1 in
    let '(sets, e) := flush_children_pre g2 nd2 (n_children nd2) in
    let g3 := fold_left add_job_send sets g2 in
    match e with None => Ok g3 | Some x => Raise x end.

  (* ---- OTA session (ota.py) ---- *)
  Definition ota_get_fw (o : ota) (nid : Z) (first : bool (* true: (requested, unstarted); false: (unstarted, started) *))
             (req : option (Z * Z)) : ota * option (Z * Z * fware) :=
    let '(s1, s2) := if first then (o_requested o, o_unstarted o) else (o_unstarted o, o_started o) in
    let found :=
      match zassoc nid s1 with
      | Some id => Some (id, zdel nid s1, zset nid id s2)
      | None => match zassoc nid s2 with
                | Some id => Some (id, s1, zset nid id (zdel nid s2))
                | None => None
                end
      end in
    match found with
    | None => (o, None)
    | Some (id, s1', s2') =>
        let o' := if first then mkOta (o_fw o) s1' s2' (o_started o)
                  else mkOta (o_fw o) (o_requested o) s1' s2' in
        let '(t, v) := match req with Some r => r | None => id end in
        match fw_lookup t v (o_fw o) with
        | Some f => (o', Some (t, v, f))
        | None => (o', None)
        end
    end.

  Definition stream_member (g : gw) (name : string) : res Z :=
    of_option AttributeError (sassoc (s2p name) (vt_stream_members (tab g))).
  Definition internal_member (g : gw) (name : string) : res Z :=
    of_option AttributeError (sassoc (s2p name) (vt_internal_members (tab g))).

  Definition set_payload (m : msg) (p : pstr) : msg :=
    mkMsg (m_node m) (m_child m) (m_type m) (m_ack m) (m_sub m) p.

  (* OTAFirmware.respond_fw_config *)
  Definition respond_fw_config (g : gw) (m : msg) : res (gw * option msg) :=
    match fw_hex_to_int (m_payload m) 5 with
    | Raise _ => Ok (g, None)                      (* except (ValueError, struct.error): ignored *)
    | Ok _ =>
        let '(o', r) := ota_get_fw (g_ota g) (m_node m) true None in
        let g1 := set_ota g o' in
        match r with
        | None => Ok (g1, None)
        | Some (t, v, f) =>
            do sub <- stream_member g "ST_FIRMWARE_CONFIG_RESPONSE";
            do m' <- copy m (mkRepl None None None None (Some sub) None);
            do p <- fw_config_payload t v f;
            Ok (g1, Some (set_payload m' p))
        end
    end.

  (* OTAFirmware.respond_fw *)
  Definition respond_fw (g : gw) (m : msg) : res (gw * option msg) :=
    match fw_hex_to_int (m_payload m) 3 with
    | Ok [rt; rv; rb] =>
        let '(o', r) := ota_get_fw (g_ota g) (m_node m) false (Some (rt, rv)) in
        let g1 := set_ota g o' in
        match r with
        | None => Ok (g1, None)
        | Some (t, v, f) =>
            do sub <- stream_member g "ST_FIRMWARE_RESPONSE";
            do m' <- copy m (mkRepl None None None None (Some sub) None);
            do p <- fw_response_payload t v rb f;
            Ok (g1, Some (set_payload m' p))
        end
    | Ok _ => Ok (g, None)                         (* unreachable: unpack of 3 words yields 3 *)
    | Raise _ => Ok (g, None)
    end.

  (* OTAFirmware.make_update via Tasks.update_fw (file reading excluded: fw_bin given) *)
  Definition update_fw (g : gw) (nids : list Z) (fwt fwv : vtarg) (bin : option (list N)) : res gw :=
    match bin with Some [] => Ok g | _ =>      (* Tasks.update_fw: `if not fw_bin: return` *)
    match vt_int fwt, vt_int fwv with
    | Some t, Some v =>
        if negb ((0 <=? t) && (t <=? 65535)) || negb ((0 <=? v) && (v <=? 65535)) then Ok g
        else
          let fwl := match bin with
                     | Some b => fw_store t v (prepare_fw b) (o_fw (g_ota g))
                     | None => o_fw (g_ota g)
                     end in
          let o0 := g_ota g in
          let g0 := set_ota g (mkOta fwl (o_requested o0) (o_unstarted o0) (o_started o0)) in
          match fw_lookup t v fwl with
          | None => Ok g0
          | Some _ =>
              Ok (fold_left (fun g nid =>
                               match get_node g nid with
                               | None => g
                               | Some nd =>
                                   let o := g_ota g in
                                   put_node (set_ota g (mkOta (o_fw o) (zset nid (t, v) (o_requested o))
                                                              (zdel nid (o_unstarted o)) (zdel nid (o_started o))))
                                            (with_reboot nd true)
                               end) nids g0)
          end
    | _, _ => Ok g          (* except ValueError: logged, return *)
    end end.

  (* ---- handlers (handler.py), named as the functions in the registry ---- *)
  Definition repl_type_payload (t : Z) (p : pstr) := mkRepl None None (Some t) None None (Some p).

  Definition handle_presentation (g : gw) (m : msg) : res (gw * option msg) :=
    if m_child m =? system_child_id then
      let g1 := add_sensor g (m_node m) in
      match get_node g1 (m_node m) with
      | None => Raise KeyError
      | Some nd =>
          let nd' := mkNode (n_id nd) (n_children nd) (Some (m_sub m)) (n_sk_name nd) (n_sk_ver nd)
                            (n_batt nd) (safe_version (m_payload m)) (n_hb nd) (n_new nd) (n_queue nd) false in
          Ok (alert (put_node g1 nd') m, Some m)
      end
    else
      do gr <- is_sensor g (m_node m) None;
      let '(g1, known) := gr in
      if negb known then Ok (g1, None)
      else match get_node g1 (m_node m) with
           | None => Raise KeyError
           | Some nd =>
               if zhas (m_child m) (n_children nd) then Ok (g1, None)
               else
                 let ch := mkChild (m_child m) (m_sub m) (m_payload m) [] in
                 Ok (alert (put_node g1 (with_children nd (n_children nd ++ [(m_child m, ch)]))) m, Some m)
           end.

  Definition handle_set (g : gw) (m : msg) : res (gw * option msg) :=
    do gr <- is_sensor g (m_node m) (Some (m_child m));
    let '(g1, known) := gr in
    if negb known then Ok (g1, None)
    else match get_node g1 (m_node m) with
         | None => Raise KeyError
         | Some nd =>
             let nd' := update_child_value nd (m_child m) (m_sub m) (m_payload m) in
             let g2 := alert (put_node g1 nd') m in
             if n_reboot nd' then
               do ireb <- internal_member g "I_REBOOT";
               do r <- copy m (mkRepl None (Some system_child_id) (Some (vt_internal (tab g))) (Some 0)
                                      (Some ireb) (Some []));
               Ok (g2, Some r)
             else Ok (g2, None)
         end.

  Definition handle_req (g : gw) (m : msg) : res (gw * option msg) :=
    do gr <- is_sensor g (m_node m) (Some (m_child m));
    let '(g1, known) := gr in
    if negb known then Ok (g1, None)
    else match get_node g1 (m_node m) with
         | None => Raise KeyError
         | Some nd =>
             match get_desired_value nd (m_child m) (m_sub m) with
             | None => Ok (g1, None)
             | Some v =>
                 do r <- copy m (repl_type_payload (vt_set (tab g)) (py_str v));
                 Ok (g1, Some r)
             end
         end.

  Definition handle_id_request (g : gw) (m : msg) : res (gw * option msg) :=
    match next_id g with
    | None => Ok (g, None)
    | Some nid =>
        let g1 := add_sensor g nid in
        if negb (zhas nid (g_sensors g1)) then Ok (g1, None) else
        let g2 := alert g1 m in
        do iresp <- internal_member g "I_ID_RESPONSE";
        do r <- copy m (mkRepl None None None (Some 0) (Some iresp) (Some (print nid)));
        Ok (g2, Some r)
    end.

  Definition handle_config (g : gw) (m : msg) : res (gw * option msg) :=
    do r <- copy m (mkRepl None None None (Some 0) None (Some (s2p (if g_metric g then "M" else "I"))));
    Ok (g, Some r).

  Definition handle_time (g : gw) (m : msg) : res (gw * option msg) :=
    do r <- copy m (mkRepl None None None (Some 0) None (Some (print clock)));
    Ok (g, Some r).

  (* validation.is_battery_level / is_heartbeat on a str payload *)
  Definition battery_of (p : pstr) : Z :=
    match parse p with Some z => if (0 <=? z) && (z <=? 100) then z else 0 | None => 0 end.
  Definition heartbeat_of (p : pstr) : Z := match parse p with Some z => z | None => 0 end.

  Definition node_attr_handler (f : node -> pstr -> node) (g : gw) (m : msg) : res (gw * option msg) :=
    do gr <- is_sensor g (m_node m) None;
    let '(g1, known) := gr in
    if negb known then Ok (g1, None)
    else match get_node g1 (m_node m) with
         | None => Raise KeyError
         | Some nd => Ok (alert (put_node g1 (f nd (m_payload m))) m, None)
         end.

  Definition set_batt (nd : node) (p : pstr) : node :=
    mkNode (n_id nd) (n_children nd) (n_type nd) (n_sk_name nd) (n_sk_ver nd) (battery_of p) (n_pver nd)
           (n_hb nd) (n_new nd) (n_queue nd) (n_reboot nd).
  Definition set_skname (nd : node) (p : pstr) : node :=
    mkNode (n_id nd) (n_children nd) (n_type nd) (Some p) (n_sk_ver nd) (n_batt nd) (n_pver nd)
           (n_hb nd) (n_new nd) (n_queue nd) (n_reboot nd).
  Definition set_skver (nd : node) (p : pstr) : node :=
    mkNode (n_id nd) (n_children nd) (n_type nd) (n_sk_name nd) (Some p) (n_batt nd) (n_pver nd)
           (n_hb nd) (n_new nd) (n_queue nd) (n_reboot nd).
  Definition set_hb (nd : node) (p : pstr) : node :=
    mkNode (n_id nd) (n_children nd) (n_type nd) (n_sk_name nd) (n_sk_ver nd) (n_batt nd) (n_pver nd)
           (heartbeat_of p) (n_new nd) (n_queue nd) (n_reboot nd).

  Definition handle_gateway_ready (g : gw) (m : msg) : res (gw * option msg) := Ok (alert g m, None).

  Definition handle_gateway_ready_20 (g : gw) (m : msg) : res (gw * option msg) :=
    let g1 := alert g m in
    do idisc <- internal_member g "I_DISCOVER";
    do r <- copy m (mkRepl (Some 255) None None (Some 0) (Some idisc) (Some []));
    Ok (g1, Some r).

  (* 2.0 / 2.1: flush, then heartbeat, alert *)
  Definition handle_heartbeat_response (g : gw) (m : msg) : res (gw * option msg) :=
    do gr <- is_sensor g (m_node m) None;
    let '(g1, known) := gr in
    if negb known then Ok (g1, None)
    else match get_node g1 (m_node m) with
         | None => Raise KeyError
         | Some nd =>
             do g2 <- handle_smartsleep g1 nd;
             match get_node g2 (m_node m) with
             | None => Raise KeyError
             | Some nd2 => Ok (alert (put_node g2 (set_hb nd2 (m_payload m))) m, None)
             end
         end.

  Definition handle_discover_response (g : gw) (m : msg) : res (gw * option msg) :=
    do gr <- is_sensor g (m_node m) None;
    Ok (fst gr, None).

  Definition handle_pre_sleep (g : gw) (m : msg) : res (gw * option msg) :=
    do gr <- is_sensor g (m_node m) None;
    let '(g1, known) := gr in
    if negb known then Ok (g1, None)
    else match get_node g1 (m_node m) with
         | None => Raise KeyError
         | Some nd => do g2 <- handle_smartsleep g1 nd; Ok (g2, None)
         end.

  (* function names of handler.py that the model knows *)
  Inductive hfun :=
  | HPresentation | HSet | HReq | HInternal | HStream
  | HFwConfigReq | HFwReq | HIdRequest | HConfig | HTime | HBattery | HSketchName | HSketchVersion
  | HLog | HGatewayReady | HGatewayReady20 | HHeartbeat | HDiscoverResponse | HHeartbeat22 | HPreSleep
  | HUnknown.

  Definition hfun_of_name (n : pstr) : hfun :=
    let is s := pstr_eqb n (s2p s) in
    if is "handle_presentation" then HPresentation else if is "handle_set" then HSet
    else if is "handle_req" then HReq else if is "handle_internal" then HInternal
    else if is "handle_stream" then HStream
    else if is "handle_firmware_config_request" then HFwConfigReq
    else if is "handle_firmware_request" then HFwReq
    else if is "handle_id_request" then HIdRequest else if is "handle_config" then HConfig
    else if is "handle_time" then HTime else if is "handle_battery_level" then HBattery
    else if is "handle_sketch_name" then HSketchName else if is "handle_sketch_version" then HSketchVersion
    else if is "handle_log_message" then HLog else if is "handle_gateway_ready" then HGatewayReady
    else if is "handle_gateway_ready_20" then HGatewayReady20
    else if is "handle_heartbeat_response" then HHeartbeat
    else if is "handle_discover_response" then HDiscoverResponse
    else if is "handle_heartbeat_response_22" then HHeartbeat22
    else if is "handle_pre_sleep_notification" then HPreSleep
    else HUnknown.

  (* registry lookup by the canonical member NAME of (type, sub-type): None = no handler registered *)
  Definition registry_fun (t : vtab) (name : pstr) : option hfun :=
    option_map hfun_of_name (sassoc name (vt_handlers t)).

  Definition type_handler (t : vtab) (ty : Z) : option hfun :=
    match zassoc ty (vt_mtype_names t) with
    | Some name => registry_fun t name
    | None => None
    end.
  Definition sub_handler (t : vtab) (ty sub : Z) : option hfun :=
    match zassoc ty (vt_sub_names t) with
    | Some names => match zassoc sub names with
                    | Some name => registry_fun t name
                    | None => None
                    end
    | None => None
    end.

  Definition run_leaf (h : hfun) (g : gw) (m : msg) : res (gw * option msg) :=
    match h with
    | HFwConfigReq => respond_fw_config g m
    | HFwReq => respond_fw g m
    | HIdRequest => handle_id_request g m
    | HConfig => handle_config g m
    | HTime => handle_time g m
    | HBattery => node_attr_handler set_batt g m
    | HSketchName => node_attr_handler set_skname g m
    | HSketchVersion => node_attr_handler set_skver g m
    | HLog => Ok (g, None)
    | HGatewayReady => handle_gateway_ready g m
    | HGatewayReady20 => handle_gateway_ready_20 g m
    | HHeartbeat => handle_heartbeat_response g m
    | HDiscoverResponse => handle_discover_response g m
    | HHeartbeat22 => node_attr_handler set_hb g m
    | HPreSleep => handle_pre_sleep g m
    | _ => Raise OtherError      (* a function the model does not know: fail closed *)
    end.

  Definition handle_internal (g : gw) (m : msg) : res (gw * option msg) :=
    match sub_handler (tab g) (m_type m) (m_sub m) with
    | None => Ok (g, None)
    | Some h => run_leaf h g m
    end.

  Definition handle_stream (g : gw) (m : msg) : res (gw * option msg) :=
    do gr <- is_sensor g (m_node m) None;
    let '(g1, known) := gr in
    if negb known then Ok (g1, None)
    else match sub_handler (tab g) (m_type m) (m_sub m) with
         | None => Ok (g1, None)
         | Some h =>
             do r <- run_leaf h g1 m;
             let '(g2, resp) := r in
             Ok (alert g2 m, resp)
         end.

  Definition run_handler (h : hfun) (g : gw) (m : msg) : res (gw * option msg) :=
    match h with
    | HPresentation => handle_presentation g m
    | HSet => handle_set g m
    | HReq => handle_req g m
    | HInternal => handle_internal g m
    | HStream => handle_stream g m
    | _ => Raise OtherError
    end.

  (* Gateway.logic: returns the reply string (None = nothing to send) *)
  Definition logic (g : gw) (data : pstr) : res (gw * option pstr) :=
    match decode data with
    | None => Ok (g, None)
    | Some m =>
        if negb (gvalidate g m) then Ok (g, None)
        else match type_handler (tab g) (m_type m) with
             | None => Raise TypeError          (* handler is None: 'NoneType' object is not callable *)
             | Some h =>
                 do r <- run_handler h g m;
                 let '(g1, reply) := r in
                 let '(g2, routed) := route_opt g1 reply in
                 Ok (g2, option_map encode routed)
             end
    end.

  (* Gateway.set_child_value *)
  Definition set_child_value (g : gw) (sid cid : Z) (vt : vtarg) (v : pyval) (mtype ack : option Z) : res gw :=
    do gr <- is_sensor g sid (Some cid);
    let '(g1, known) := gr in
    if negb known then Ok g1
    else match get_node g1 sid with
         | None => Raise KeyError
         | Some nd =>
             if sleeping nd then
               do _ <- create_set_message g1 (n_id nd) cid vt v None None;
               match zassoc cid (n_new nd) with
               | None => Raise ValueError
               | Some dv =>
                   do _ <- validate_child_state nd cid vt v;
                   match vt_int vt with
                   | None => Raise ValueError
                   | Some vti => Ok (put_node g1 (with_new nd (zset cid (zset vti (Some v) dv) (n_new nd))))
                   end
               end
             else
               do m <- create_set_message g1 (n_id nd) cid vt v mtype ack;
               Ok (add_job_send g1 (encode m))
         end.

  (* ---- Tasks ---- *)
  (* protocol.handle_line: tasks.add_job(gateway.logic, line) *)
  Definition recv (g : gw) (line : pstr) : gw :=
    if cf_async (g_cf g) then
      match logic g line with
      | Ok (g1, Some r) => send g1 r
      | Ok (g1, None) => g1
      | Raise e => emit g (ERaise e)        (* state as left by the failing statement is not modelled *)
      end
    else set_jobs g (g_jobs g ++ [JLogic line]).

  (* one iteration of SyncTasks._poll_queue: run_job, transport.send(reply) *)
  Definition pump (g : gw) : gw :=
    match g_jobs g with
    | [] => g
    | JSend l :: r => send (set_jobs g r) l
    | JLogic l :: r =>
        let g0 := set_jobs g r in
        match logic g0 l with
        | Ok (g1, Some rep) => send g1 rep
        | Ok (g1, None) => g1
        | Raise e => emit g0 (ERaise e)
        end
    end.

  (* ---- persistence at the level of the machine (file formats: Model/Persist.v) ---- *)
  (* Persistence.save_sensors: skipped when clean; the file then holds the persisted projection *)
  Definition save_tick (g : gw) (disk : option tree) : gw * option tree :=
    if cf_persist (g_cf g) && g_dirty g then (set_dirty g false, Some (proj (g_sensors g))) else (g, disk).

  (* what a load restores of a node: the persisted attributes; transient state is reset *)
  Definition load_child (c : pchild) : child := mkChild (pc_id c) (pc_type c) (pc_desc c) (pc_values c).
  Definition load_node (n : pnode) : node :=
    mkNode (pn_id n) (map (fun kc => (fst kc, load_child (snd kc))) (pn_children n)) (pn_type n)
           (pn_sk_name n) (pn_sk_ver n) (pn_batt n) (pn_pver n) (pn_hb n) [] [] false.
  Definition load_tree (t : tree) : list (Z * node) := map (fun kn => (fst kn, load_node (snd kn))) t.

  (* stop(); a new gateway with the same configuration; start_persistence() = load, then the
     first scheduled save (need_save starts True) *)
  Definition restart (g : gw) (disk : option tree) : gw * option tree :=
    let '(_, d1) := save_tick g disk in
    if cf_persist (g_cf g) then
      let g0 := gw_init (g_cf g) in
      let g1 := set_sensors g0 (match d1 with Some t => load_tree t | None => [] end) in
      save_tick g1 d1
    else (gw_init (g_cf g), d1).

  Inductive op :=
  | Recv (l : pstr)
  | Pump
  | SetChild (sid cid : Z) (vt : vtarg) (v : pyval) (mtype ack : option Z)
  | UpdateFw (nids : list Z) (t v : vtarg) (bin : option (list N))
  | SetMetric (b : bool).

  Definition step (g : gw) (o : op) : gw :=
    match o with
    | Recv l => recv g l
    | Pump => pump g
    | SetChild s c vt v mt a =>
        match set_child_value g s c vt v mt a with Ok g' => g' | Raise e => emit g (ERaise e) end
    | UpdateFw ns t v b =>
        match update_fw g ns t v b with Ok g' => g' | Raise e => emit g (ERaise e) end
    | SetMetric b => set_metric g b
    end.

  Definition run (g : gw) (ops : list op) : gw := fold_left step ops g.
End Machine.
