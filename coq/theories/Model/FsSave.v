(* Executable model of Persistence.save_sensors / _save_<fmt> and of
   Persistence._load_sensors / safe_load_sensors (mysensors/persistence.py) over the
   abstract file system of Spec/AbstractFs.v.  The programs themselves are
   data (Gen/SaveTrace.v, generated from the AST); this file is their
   interpreter, statement by statement, including the exits by exception.

   An [event] is what the environment does to one run of save_sensors:
   at primitive call number ev_j of statement number ev_i either the machine
   dies before the call takes effect (EvCrash) or the call raises OSError
   without effect (EvFault).  If the position does not exist the run is
   undisturbed (this covers "crash after the last operation" and "no fault"). *)
From Coq Require Import List Bool Arith NArith String.
From PMS Require Import Base.PyStr Spec.AbstractFs.
Import ListNotations.

Section WithState.
Context {St : Type}.

(* the open file object: inode, everything written so far (h_buf), and whether
   part of it still sits in the user-space buffer *)
Record handle := mkH { h_ino : nat; h_buf : content St; h_dirty : bool }.

Record mstate := mkM { m_fs : fsys St; m_h : option handle; m_need_save : bool; m_exists : bool }.

Inductive evkind := EvCrash | EvFault.
Record event := mkEv { ev_kind : evkind; ev_i : nat; ev_j : nat }.

Inductive status := Done | Raised | Crashed.

(* effect of one primitive call; None = it raises (OSError / ValueError on a closed file) *)
Inductive pact :=
| AIsfile (n : name) | AAccess
| AOpen (n : name) | AWrite (last : bool) | AFlush | AFsync | AClose
| ARename (a b : name) | ARemove (a : name).

Definition flush_h (st : mstate) (h : handle) : mstate :=
  if h_dirty h then
    mkM (fs_set_vol (m_fs st) (h_ino h) (h_buf h)) (Some (mkH (h_ino h) (h_buf h) false))
        (m_need_save st) (m_exists st)
  else st.

Definition do_act (new : St) (a : pact) (st : mstate) : option mstate :=
  match a with
  | AIsfile n => Some (mkM (m_fs st) (m_h st) (m_need_save st) (fs_isfile (m_fs st) n))
  | AAccess => Some st
  | AOpen n =>
      let '(fs', i) := fs_open_trunc (m_fs st) n in
      Some (mkM fs' (Some (mkH i CEmpty false)) (m_need_save st) (m_exists st))
  | AWrite last =>
      match m_h st with
      | Some h =>
          (* the data goes to the buffer; part of it may already spill to the OS *)
          Some (mkM (fs_set_vol (m_fs st) (h_ino h) CPartial)
                    (Some (mkH (h_ino h) (if last then CGood new else CPartial) true))
                    (m_need_save st) (m_exists st))
      | None => None
      end
  | AFlush => match m_h st with Some h => Some (flush_h st h) | None => None end
  | AFsync =>
      match m_h st with
      | Some h => Some (mkM (fs_fsync (m_fs st) (h_ino h)) (m_h st) (m_need_save st) (m_exists st))
      | None => None
      end
  | AClose =>
      match m_h st with
      | Some h => let st' := flush_h st h in
                  Some (mkM (m_fs st') None (m_need_save st') (m_exists st'))
      | None => Some st
      end
  | ARename a b =>
      option_map (fun fs => mkM fs (m_h st) (m_need_save st) (m_exists st)) (fs_rename (m_fs st) a b)
  | ARemove a =>
      option_map (fun fs => mkM fs (m_h st) (m_need_save st) (m_exists st)) (fs_remove (m_fs st) a)
  end.

(* an injected fault at close still releases the descriptor (CPython closes the
   raw file even when the final flush fails); buffered data is dropped *)
Definition fault_effect (a : pact) (st : mstate) : mstate :=
  match a with
  | AClose => mkM (m_fs st) None (m_need_save st) (m_exists st)
  | _ => st
  end.

(* run the primitive calls of one statement; evj = kind and position of the event in it *)
Fixpoint run_acts (new : St) (evj : option (evkind * nat)) (j : nat) (acts : list pact) (st : mstate)
  : mstate * status :=
  match acts with
  | [] => (st, Done)
  | a :: r =>
      match (match evj with Some (k, e) => if Nat.eqb e j then Some k else None | None => None end) with
      | Some EvCrash => (st, Crashed)
      | Some EvFault => (fault_effect a st, Raised)
      | None =>
          match do_act new a st with
          | Some st' => run_acts new evj (S j) r st'
          | None => (st, Raised)
          end
      end
  end.

Definition dump_acts (w : nat) : list pact := repeat (AWrite false) (pred w) ++ [AWrite true].

(* primitive calls of a statement in state st (w = number of writes of one dump) *)
Definition acts_of (w : nat) (st : mstate) (i : instr) : list pact :=
  match i with
  | IGuardNeedSave => []
  | IExists n => [AIsfile n]
  | IPermCheck n => if m_exists st then [AAccess; AAccess] else [AAccess]
  | ISetNeedSave _ => []
  | IOpen n => [AOpen n]
  | IDump => dump_acts w
  | IFlush => [AFlush]
  | IFsync => [AFsync]
  | IClose => [AClose]
  | IRename a b => [ARename a b]
  | IRemove a => [ARemove a]
  end.

Definition set_need_save (st : mstate) (b : bool) : mstate :=
  mkM (m_fs st) (m_h st) b (m_exists st).

(* leaving by exception: the with block closes the file, the handler of the try
   restores need_save, the exception goes on to the caller *)
Definition unwind (new : St) (i : sinstr) (st : mstate) : mstate :=
  let st1 := if i_with i then match do_act new AClose st with Some s => s | None => st end else st in
  if i_try i then set_need_save st1 true else st1.

(* the event seen by the statement at the head / by the rest of the program *)
Definition ev_here (ev : option event) : option (evkind * nat) :=
  match ev with Some (mkEv k O j) => Some (k, j) | _ => None end.
Definition ev_next (ev : option event) : option event :=
  match ev with Some (mkEv k (S i) j) => Some (mkEv k i j) | _ => None end.

Fixpoint exec (w : nat) (new : St) (ev : option event) (prog : list sinstr) (st : mstate)
  : mstate * status :=
  match prog with
  | [] => (st, Done)
  | i :: rest =>
      if i_guard i && negb (m_exists st) then exec w new (ev_next ev) rest st
      else
        match i_op i with
        | IGuardNeedSave => if m_need_save st then exec w new (ev_next ev) rest st else (st, Done)
        | ISetNeedSave b => exec w new (ev_next ev) rest (set_need_save st b)
        | op =>
            match run_acts new (ev_here ev) 0 (acts_of w st op) st with
            | (st', Done) => exec w new (ev_next ev) rest st'
            | (st', Raised) => (unwind new i st', Raised)
            | (st', Crashed) => (st', Crashed)
            end
        end
  end.

(* a gateway process that has just started (Persistence.__init__: need_save = True) *)
Definition fresh (fs : fsys St) : mstate := mkM fs None true false.

Definition save (w : nat) (new : St) (ev : option event) (prog : list sinstr) (st : mstate) : mstate * status :=
  exec w new ev prog st.

(* ---- the sequence of primitive calls of an undisturbed run, as the harness records it ---- *)
Definition prim_of (a : pact) (dirfirst : bool) (n : name) : prim :=
  match a with
  | AIsfile m => PIsfile m | AAccess => if dirfirst then PAccessDir else PAccess n
  | AOpen m => POpen m | AWrite _ => PWrite | AFlush => PFlush | AFsync => PFsync | AClose => PClose
  | ARename a b => PRename a b | ARemove a => PRemove a
  end.

Definition prims_of (w : nat) (ex : bool) (i : instr) : list prim :=
  match i with
  | IGuardNeedSave | ISetNeedSave _ => []
  | IExists n => [PIsfile n]
  | IPermCheck n => if ex then [PAccessDir; PAccess n] else [PAccessDir]
  | IOpen n => [POpen n]
  | IDump => repeat PWrite (pred w) ++ [PWrite]
  | IFlush => [PFlush] | IFsync => [PFsync] | IClose => [PClose]
  | IRename a b => [PRename a b] | IRemove a => [PRemove a]
  end.

(* ex = whether Main exists when save_sensors starts (decides the guards) *)
Fixpoint prog_trace (w : nat) (ex : bool) (prog : list sinstr) : list prim :=
  match prog with
  | [] => []
  | i :: r => (if i_guard i && negb ex then [] else prims_of w ex (i_op i)) ++ prog_trace w ex r
  end.

(* flat index of a primitive call -> (statement number, position in the statement) *)
Fixpoint locate (w : nat) (ex : bool) (n : nat) (prog : list sinstr) (k : nat) : nat * nat :=
  match prog with
  | [] => (n, k)
  | i :: r =>
      let a := if i_guard i && negb ex then 0%nat else List.length (prims_of w ex (i_op i)) in
      if Nat.ltb k a then (n, k) else locate w ex (S n) r (k - a)
  end.

(* ---- loading ---- *)
Inductive lres (A : Type) := LOk (a : A) | LRaise (e : cls).
Arguments LOk {A} _.
Arguments LRaise {A} _.

(* decoder on an abstract content; ep / ee = class raised on a partial / empty file *)
Definition decode (ep ee : cls) (c : content St) : lres St :=
  match c with CGood s => LOk s | CPartial => LRaise ep | CEmpty => LRaise ee | CBad e => LRaise e end.

Definition cls_OSError : cls := s2p "FileNotFoundError"%string.

(* load state: file system, current value of `path`, `exists`, and the
   arguments of the calls self._sensors.update(...) made so far, oldest first *)
Record lstate := mkLS { l_fs : fsys St; l_path : name; l_exists : bool; l_applied : list St }.

Fixpoint load_sensors (ep ee : cls) (prog : list slinstr) (isbak : bool) (st : lstate) : lstate * lres bool :=
  match prog with
  | [] => (st, LOk false)   (* falling off the end returns None: falsy *)
  | i :: rest =>
      if (l_guard i && negb (l_exists st)) || (l_bak i && negb isbak) then load_sensors ep ee rest isbak st
      else
        match l_op i with
        | LExists =>
            load_sensors ep ee rest isbak (mkLS (l_fs st) (l_path st) (fs_isfile (l_fs st) (l_path st)) (l_applied st))
        | LRenameToMain =>
            match fs_rename (l_fs st) (l_path st) Main with
            | Some fs' => load_sensors ep ee rest isbak (mkLS fs' (l_path st) (l_exists st) (l_applied st))
            | None => (st, LRaise cls_OSError)
            end
        | LSetPathMain => load_sensors ep ee rest isbak (mkLS (l_fs st) Main (l_exists st) (l_applied st))
        | LLoad =>
            match fs_read (l_fs st) (l_path st) with
            | Some c =>
                match decode ep ee c with
                | LOk s => load_sensors ep ee rest isbak (mkLS (l_fs st) (l_path st) (l_exists st) (l_applied st ++ [s]))
                | LRaise e => (st, LRaise e)
                end
            | None => (st, LRaise cls_OSError)
            end
        | LReturn b => (st, LOk b)
        end
  end.

(* except (C1, C2, ...): e is caught iff one of the Ci occurs in the MRO of e *)
Definition mro_of (tab : list (cls * list cls)) (e : cls) : list cls :=
  match List.find (fun p => pstr_eqb (fst p) e) tab with Some p => snd p | None => [e] end.

Definition catches (tab : list (cls * list cls)) (h : list cls) (e : cls) : bool :=
  existsb (fun c => mem_pstr c (mro_of tab e)) h.

Fixpoint run_prims (ps : list prim) (fs : fsys St) : option (fsys St) :=
  match ps with
  | [] => Some fs
  | PRemove a :: r => match fs_remove fs a with Some fs' => run_prims r fs' | None => None end
  | PRename a b :: r => match fs_rename fs a b with Some fs' => run_prims r fs' | None => None end
  | _ :: r => run_prims r fs
  end.

(* safe_load_sensors on a fresh gateway: result = the update() arguments, or the escaping class *)
Definition safe_load (tab : list (cls * list cls)) (ep ee : cls) (lp : list slinstr) (sl : safe_load_shape)
           (fs : fsys St) : fsys St * lres (list St) :=
  let '(st1, r1) := load_sensors ep ee lp (name_eqb Main Bak) (mkLS fs Main false []) in
  let after_first :=
    match r1 with
    | LOk b => inl b
    | LRaise e => if catches tab (sl_h1 sl) e then inl false else inr e
    end in
  match after_first with
  | inr e => (l_fs st1, LRaise e)
  | inl true => (l_fs st1, LOk (l_applied st1))
  | inl false =>
      let '(st2, r2) := load_sensors ep ee lp (name_eqb (sl_fallback sl) Bak)
                          (mkLS (l_fs st1) (sl_fallback sl) false (l_applied st1)) in
      match r2 with
      | LOk _ => (l_fs st2, LOk (l_applied st2))
      | LRaise e =>
          if catches tab (sl_h2 sl) e then
            match run_prims (sl_h2_body sl) (l_fs st2) with
            | Some fs' => (fs', LOk (l_applied st2))
            | None => (l_fs st2, LRaise cls_OSError)
            end
          else (l_fs st2, LRaise e)
      end
  end.

End WithState.

Arguments LOk {A} _.
Arguments LRaise {A} _.
Arguments handle : clear implicits.
Arguments mstate : clear implicits.
Arguments lstate : clear implicits.

(* ================= scenarios of C12 / C13 ================= *)

(* what a stale (left-over) backup or temp file may contain *)
Inductive skind := KGood | KPartial | KEmpty.
(* prior on-disk configuration: is there a (good) main file, a stale backup, a stale temp file *)
Record cfg := mkCfg { c_main : bool; c_bak : option skind; c_tmp : option skind }.

(* without a main file there is no backup either: start-up always promotes it *)
Definition cfg_valid (c : cfg) : bool :=
  c_main c || match c_bak c with None => true | Some _ => false end.

Definition stale {St} (k : skind) (s : St) : content St :=
  match k with KGood => CGood s | KPartial => CPartial | KEmpty => CEmpty end.

Definition add_file {St} (fs : fsys St) (n : name) (c : content St) : fsys St :=
  let d := dset (dir fs) n (Some (List.length (inodes fs))) in
  mkFs (inodes fs ++ [synced c]) d d [].

Definition add_opt {St} (fs : fsys St) (n : name) (c : option (content St)) : fsys St :=
  match c with Some c => add_file fs n c | None => fs end.

Definition empty_fs {St} : fsys St := mkFs [] (mkDir None None None) (mkDir None None None) [].

(* everything on disk is durable; old = last saved state, sb / stt = what the stale files hold *)
Definition mk_prior {St} (c : cfg) (old sb stt : St) : fsys St :=
  add_opt (add_opt (add_opt empty_fs Main (if c_main c then Some (CGood old) else None))
                   Bak (option_map (fun k => stale k sb) (c_bak c)))
          Tmp (option_map (fun k => stale k stt) (c_tmp c)).

Definition all_kinds : list (option skind) := [None; Some KGood; Some KPartial; Some KEmpty].
Definition all_cfgs : list cfg :=
  map (fun t => mkCfg false None t) all_kinds
  ++ flat_map (fun b => map (fun t => mkCfg true b t) all_kinds) all_kinds.

(* the five configurations named by the property *)
Definition five_cfgs : list cfg :=
  [mkCfg false None None; mkCfg true None None; mkCfg true (Some KGood) None;
   mkCfg true None (Some KGood); mkCfg true (Some KGood) (Some KGood)].

Definition kind_of {St} (c : content St) : skind :=
  match c with CGood _ => KGood | CEmpty => KEmpty | _ => KPartial end.

(* shape of a directory as a prior configuration; None if Main is there but not a good file *)
Definition cfg_of {St} (fs : fsys St) : option cfg :=
  let k n := option_map kind_of (fs_read fs n) in
  match fs_read fs Main with
  | None => Some (mkCfg false (k Bak) (k Tmp))
  | Some (CGood _) => Some (mkCfg true (k Bak) (k Tmp))
  | Some _ => None
  end.

Definition fs_file {St} (fs : fsys St) (n : name) : option (file St) :=
  match dget (dir fs) n with Some i => nth_error (inodes fs) i | None => None end.

(* the code under test, as data *)
Record progs := mkP { p_save : list sinstr; p_load : list slinstr; p_sl : safe_load_shape;
                      p_tab : list (cls * list cls) }.

Definition loadf {St} (P : progs) (ep ee : cls) (fs : fsys St) : fsys St * lres (list St) :=
  safe_load (p_tab P) ep ee (p_load P) (p_sl P) fs.

(* durable directory after a crash that lost the nlost most recent directory operations *)
Definition crash_lost {St} (nlost : nat) (l : loss) (fs : fsys St) : fsys St :=
  crash_fs (prefix_keep (List.length (dlog fs) - nlost)) l fs.

(* observation of "save again, then start up again" *)
Record again (St : Type) := mkAgain { a_status : status; a_need_save : bool; a_loaded : lres (list St) }.
Arguments mkAgain {St} _ _ _.
Arguments a_status {St} _.
Arguments a_need_save {St} _.
Arguments a_loaded {St} _.

Definition save_again {St} (P : progs) (ep ee : cls) (w2 : nat) (next : St) (st : mstate St) : again St :=
  let '(st3, s3) := save w2 next None (p_save P) (set_need_save st true) in
  mkAgain s3 (m_need_save st3) (snd (loadf P ep ee (m_fs st3))).

Record crash_obs (St : Type) := mkCO { co_loaded : lres (list St); co_cfg : option cfg; co_again : again St }.
Arguments mkCO {St} _ _ _.
Arguments co_loaded {St} _.
Arguments co_cfg {St} _.
Arguments co_again {St} _.

(* save_sensors(new) is cut by a crash at (i, j); the machine restarts on what is left on disk
   (keep / l), a fresh gateway loads; the network then becomes next, is saved and loaded again *)
Definition crash_scn_gen {St} (P : progs) (c : cfg) (old new next sb stt : St) (w : nat) (ev : option event)
           (mk_crash : fsys St -> fsys St) (ep ee : cls) (w2 : nat) : crash_obs St :=
  let st1 := fst (save w new ev (p_save P) (fresh (mk_prior c old sb stt))) in
  let '(fs2, r) := loadf P ep ee (mk_crash (m_fs st1)) in
  mkCO r (cfg_of fs2) (save_again P ep ee w2 next (fresh fs2)).

Definition crash_scn {St} (P : progs) (c : cfg) (old new next sb stt : St) (w i j nlost : nat) (l : loss)
           (ep ee : cls) (w2 : nat) : crash_obs St :=
  crash_scn_gen P c old new next sb stt w (Some (mkEv EvCrash i j)) (crash_lost nlost l) ep ee w2.

Record fault_obs (St : Type) := mkFO {
  fo_status : status; fo_need_save : bool; fo_main : option (file St);
  fo_loaded : lres (list St); fo_again : again St }.
Arguments mkFO {St} _ _ _ _ _.
Arguments fo_status {St} _.
Arguments fo_need_save {St} _.
Arguments fo_main {St} _.
Arguments fo_loaded {St} _.
Arguments fo_again {St} _.

(* call (i, j) of save_sensors(new) raises OSError; observed: how save_sensors ended, need_save,
   the main file, what a start-up at this point would load, and the next save by the same process *)
Definition fault_scn_gen {St} (P : progs) (c : cfg) (old new next sb stt : St) (w : nat) (ev : option event)
           (ep ee : cls) (w2 : nat) : fault_obs St :=
  let '(st1, s1) := save w new ev (p_save P) (fresh (mk_prior c old sb stt)) in
  mkFO s1 (m_need_save st1) (fs_file (m_fs st1) Main) (snd (loadf P ep ee (m_fs st1)))
       (save_again P ep ee w2 next st1).

Definition fault_scn {St} (P : progs) (c : cfg) (old new next sb stt : St) (w i j : nat)
           (ep ee : cls) (w2 : nat) : fault_obs St :=
  fault_scn_gen P c old new next sb stt w (Some (mkEv EvFault i j)) ep ee w2.

(* ---- C13: main / backup file classes ---- *)
Inductive fclass (St : Type) := FMissing | FGood (s : St) | FBad (e : cls).
Arguments FMissing {St}.
Arguments FGood {St} _.
Arguments FBad {St} _.

Definition class_content {St} (f : fclass St) : option (content St) :=
  match f with FMissing => None | FGood s => Some (CGood s) | FBad e => Some (CBad e) end.

Definition mk_disk {St} (m b t : fclass St) : fsys St :=
  add_opt (add_opt (add_opt empty_fs Main (class_content m)) Bak (class_content b)) Tmp (class_content t).

(* what start-up must load: main's state, else the backup's, else nothing *)
Definition expected_load {St} (m b : fclass St) : list St :=
  match m, b with
  | FGood s, _ => [s]
  | _, FGood s => [s]
  | _, _ => []
  end.

(* ================= what C12 / C13 demand of the observations ================= *)

(* the next save runs to completion, leaves need_save clear, and a start-up then loads exactly next *)
Definition again_spec {St} (next : St) (a : again St) : Prop :=
  a_status a = Done /\ a_need_save a = false /\ a_loaded a = LOk [next].

(* after a crash: start-up loads exactly the new state or exactly the previous one (nothing, if there
   was no file before) - never an empty, partial or mixed network when a good file existed; what is
   left on disk is again a legal prior configuration; and the next save + load round-trips *)
Definition crash_spec {St} (c : cfg) (old new next : St) (o : crash_obs St) : Prop :=
  (co_loaded o = LOk [new] \/ co_loaded o = LOk (if c_main c then [old] else [])) /\
  (exists c', co_cfg o = Some c' /\ cfg_valid c' = true) /\
  again_spec next (co_again o).

(* after a failing operation: the exception leaves save_sensors with need_save set again; need_save
   is clear only if the new file is completely and durably in place; a start-up at this point loads
   old or new; the next save by the same process succeeds *)
Definition fault_spec {St} (c : cfg) (old new next : St) (o : fault_obs St) : Prop :=
  fo_status o <> Crashed /\
  (fo_status o = Raised -> fo_need_save o = true) /\
  (fo_need_save o = false -> fo_main o = Some (synced (CGood new))) /\
  (fo_loaded o = LOk [new] \/ fo_loaded o = LOk (if c_main c then [old] else [])) /\
  again_spec next (fo_again o).

Definition class_ok {St} (dmg : list cls) (f : fclass St) : Prop :=
  match f with FBad e => In e dmg | _ => True end.
