(* C18 - Python call binding and the cooperative super().__init__ chain,
   interpreted over the generated class table (Gen/Signatures.v). *)
From Coq Require Import List NArith ZArith Bool String.
From PMS Require Import Base.PyStr Base.Exn Model.ConfigSyntax Model.ConfigVersion Gen.Signatures.
Import ListNotations.
Open Scope N_scope.
Open Scope list_scope.

(* ---- values *)
Fixpoint val_eqb (a b : val) : bool :=
  match a, b with
  | VNone, VNone => true
  | VBool x, VBool y => Bool.eqb x y
  | VInt x, VInt y => Z.eqb x y
  | VStr x, VStr y => pstr_eqb x y
  | VFloat x, VFloat y => pstr_eqb x y
  | VObj x, VObj y => pstr_eqb x y
  | VRef x, VRef y => Nat.eqb x y
  | VPair a1 a2, VPair b1 b2 => val_eqb a1 b1 && val_eqb a2 b2
  | _, _ => false
  end.

(* bool(v) *)
Definition truthy (v : val) : bool :=
  match v with
  | VNone => false
  | VBool b => b
  | VInt z => negb (Z.eqb z 0)
  | VStr s => match s with [] => false | _ => true end
  | VFloat r => negb (pstr_eqb r (s2p "0.0") || pstr_eqb r (s2p "-0.0"))
  | VObj _ | VRef _ | VPair _ _ => true
  end.

(* ---- association lists keyed by names *)
Fixpoint has_key {A} (k : pstr) (l : list (pstr * A)) : bool :=
  match l with [] => false | (k', _) :: r => pstr_eqb k k' || has_key k r end.

Fixpoint assoc_set {A} (k : pstr) (v : A) (l : list (pstr * A)) : list (pstr * A) :=
  match l with
  | [] => [(k, v)]
  | (k', v') :: r => if pstr_eqb k k' then (k, v) :: r else (k', v') :: assoc_set k v r
  end.

(* ---- call binding:  a call with positional values pos and keyword values kws  against a signature *)
Record frame := mkFrame {
  f_vars : list (pstr * val);      (* parameters and locals *)
  f_star : list val;               (* *args *)
  f_dstar : list (pstr * val) }.   (* **kwargs *)

(* positional arguments fill the positional-or-keyword parameters in order *)
Fixpoint fill_pos (ps : list param) (pos : list val) (acc : list (pstr * val))
  : list (pstr * val) * list val :=
  match ps, pos with
  | p :: ps', v :: pos' =>
      match p_kind p with
      | PosOrKw => fill_pos ps' pos' (acc ++ [(p_name p, v)])
      | KwOnly => (acc, pos)
      end
  | _, _ => (acc, pos)
  end.

Definition is_param (ps : list param) (k : pstr) : bool :=
  existsb (fun p => pstr_eqb k (p_name p)) ps.

(* keyword arguments: a parameter of that name (TypeError if already filled),
   else **kwargs, else TypeError *)
Fixpoint fill_kw (sg : sig) (kws : list (pstr * val)) (vars dstar : list (pstr * val))
  : res (list (pstr * val) * list (pstr * val)) :=
  match kws with
  | [] => Ok (vars, dstar)
  | (k, v) :: r =>
      if is_param (s_params sg) k then
        if has_key k vars then Raise TypeError
        else fill_kw sg r (vars ++ [(k, v)]) dstar
      else
        match s_dstar sg with
        | Some _ => if has_key k dstar then Raise TypeError else fill_kw sg r vars (dstar ++ [(k, v)])
        | None => Raise TypeError
        end
  end.

(* unfilled parameters take their default; a missing required one is a TypeError *)
Fixpoint fill_defaults (ps : list param) (vars : list (pstr * val)) : res (list (pstr * val)) :=
  match ps with
  | [] => Ok []
  | p :: r =>
      do rest <- fill_defaults r vars;
      match assoc (p_name p) vars with
      | Some v => Ok ((p_name p, v) :: rest)
      | None =>
          match p_default p with
          | Some d => Ok ((p_name p, d) :: rest)
          | None => Raise TypeError
          end
      end
  end.

Definition bind_args (sg : sig) (pos : list val) (kws : list (pstr * val)) : res frame :=
  let '(vars0, leftover) := fill_pos (s_params sg) pos [] in
  do star <- match s_star sg, leftover with
             | Some _, _ => Ok leftover
             | None, [] => Ok []
             | None, _ :: _ => Raise TypeError
             end;
  do vd <- fill_kw sg kws vars0 [];
  do vars <- fill_defaults (s_params sg) (fst vd);
  Ok (mkFrame vars star (snd vd)).

(* ---- objects *)
Record obj := mkObj { o_cls : pstr; o_attrs : list (pstr * val) }.
Definition heap := list obj.

Fixpoint heap_update (h : heap) (n : nat) (f : obj -> obj) : heap :=
  match h, n with
  | [], _ => []
  | o :: r, O => f o :: r
  | o :: r, S n' => o :: heap_update r n' f
  end.

Definition set_attr (h : heap) (self : nat) (a : pstr) (v : val) : heap :=
  heap_update h self (fun o => mkObj (o_cls o) (assoc_set a v (o_attrs o))).

Definition get_attr (h : heap) (self : nat) (a : pstr) : option val :=
  match nth_error h self with Some o => assoc a (o_attrs o) | None => None end.

(* follow an attribute path from a value *)
Fixpoint get_path (h : heap) (v : val) (path : list pstr) : option val :=
  match path with
  | [] => Some v
  | a :: p =>
      match v with
      | VRef n => match get_attr h n a with Some v' => get_path h v' p | None => None end
      | _ => None
      end
  end.

Fixpoint find_class (cs : list cdef) (c : pstr) : option cdef :=
  match cs with
  | [] => None
  | d :: r => if pstr_eqb c (c_name d) then Some d else find_class r c
  end.

(* ---- evaluation *)
Definition eval_atom (h : heap) (self : nat) (fr : frame) (a : atom) : res val :=
  match a with
  | AName n => of_option OtherError (assoc n (f_vars fr))      (* UnboundLocalError *)
  | ALit v => Ok v
  | ASelf => Ok (VRef self)
  | ASelfAttr x => of_option AttributeError (get_attr h self x)
  end.

Fixpoint merge_kw (kws extra : list (pstr * val)) : res (list (pstr * val)) :=
  match extra with
  | [] => Ok kws
  | (k, v) :: r => if has_key k kws then Raise TypeError else merge_kw (kws ++ [(k, v)]) r
  end.

(* the argument list of a call: positional values and keyword values *)
Fixpoint eval_args (h : heap) (self : nat) (fr : frame) (args : list arg)
  (pos : list val) (kws : list (pstr * val)) : res (list val * list (pstr * val)) :=
  match args with
  | [] => Ok (pos, kws)
  | APos a :: r => do v <- eval_atom h self fr a; eval_args h self fr r (pos ++ [v]) kws
  | AStar _ :: r => eval_args h self fr r (pos ++ f_star fr) kws
  | AKw k a :: r =>
      do v <- eval_atom h self fr a;
      if has_key k kws then Raise TypeError else eval_args h self fr r pos (kws ++ [(k, v)])
  | ADStar _ :: r => do kws' <- merge_kw kws (f_dstar fr); eval_args h self fr r pos kws'
  end.

Section Interp.
Variable orc : avop -> pstr -> pstr -> option bool.
Variable cont : pstr -> bool.
Variable classes : list cdef.

(* One fuel unit per statement / call level; running out is RuntimeError and
   is excluded by every theorem (they state Ok results). *)
Fixpoint run_init (fuel : nat) (h : heap) (self : nat) (mro : list pstr)
  (pos : list val) (kws : list (pstr * val)) {struct fuel} : res heap :=
  match fuel with
  | O => Raise RuntimeError
  | S fuel' =>
      match mro with
      | [] =>
          (* object.__init__ takes no arguments *)
          match pos, kws with [], [] => Ok h | _, _ => Raise TypeError end
      | c :: rest =>
          match find_class classes c with
          | None => Raise OtherError
          | Some cd =>
              match c_init cd with
              | None => run_init fuel' h self rest pos kws
              | Some (sg, body) =>
                  do fr <- bind_args sg pos kws;
                  do r <- exec_body fuel' h self rest fr body;
                  Ok (fst r)
              end
          end
      end
  end

with exec_body (fuel : nat) (h : heap) (self : nat) (rest : list pstr) (fr : frame)
  (body : list stmt) {struct fuel} : res (heap * frame) :=
  match fuel with
  | O => Raise RuntimeError
  | S fuel' =>
      match body with
      | [] => Ok (h, fr)
      | st :: more =>
          do r <- match st with
                  | SSuper args =>
                      do pk <- eval_args h self fr args [] [];
                      do h' <- run_init fuel' h self rest (fst pk) (snd pk);
                      Ok (h', fr)
                  | SSet a r =>
                      do hv <- eval_rhs fuel' h self fr r;
                      Ok (set_attr (fst hv) self a (snd hv), fr)
                  | SLet n r =>
                      do hv <- eval_rhs fuel' h self fr r;
                      Ok (fst hv, mkFrame (assoc_set n (snd hv) (f_vars fr)) (f_star fr) (f_dstar fr))
                  | SIf neg c th el =>
                      do v <- eval_atom h self fr c;
                      exec_body fuel' h self rest fr (if xorb neg (truthy v) then th else el)
                  | SSkip _ => Ok (h, fr)
                  end;
          exec_body fuel' (fst r) self rest (snd r) more
      end
  end

with eval_rhs (fuel : nat) (h : heap) (self : nat) (fr : frame) (r : rhs)
  {struct fuel} : res (heap * val) :=
  match fuel with
  | O => Raise RuntimeError
  | S fuel' =>
      match r with
      | RAtom a => do v <- eval_atom h self fr a; Ok (h, v)
      | RPair a b =>
          do x <- eval_atom h self fr a; do y <- eval_atom h self fr b; Ok (h, VPair x y)
      | ROpaque tag => Ok (h, VObj tag)
      | RFun FSafeIsVersion a =>
          do v <- eval_atom h self fr a; do s <- safe_is_version orc cont v; Ok (h, VStr s)
      | RFun FGetConst a =>
          do v <- eval_atom h self fr a; do m <- get_const orc (py_str v); Ok (h, VObj m)
      | RNew c args =>
          do pk <- eval_args h self fr args [] [];
          match find_class classes c with
          | None => Raise OtherError
          | Some cd =>
              let n := List.length h in
              do h' <- run_init fuel' (h ++ [mkObj c []]) n (c_mro cd) (fst pk) (snd pk);
              Ok (h', VRef n)
          end
      end
  end.

Definition fuel0 : nat := 400.

(* calling the class with pos and kws: the heap after construction; the new object is VRef 0 *)
Definition construct (cls : pstr) (pos : list val) (kws : list (pstr * val)) : res heap :=
  match find_class classes cls with
  | None => Raise OtherError
  | Some cd => run_init fuel0 [mkObj cls []] O (c_mro cd) pos kws
  end.

End Interp.

(* ---- what the check observes of a constructed gateway *)
Definition observed_paths : list (list pstr) :=
  map (map s2p) [
    ["tasks"; "transport"; "timeout"];
    ["tasks"; "transport"; "reconnect_timeout"];
    ["port"];
    ["baud"];
    ["server_address"];
    ["tasks"; "transport"; "in_prefix"];
    ["tasks"; "transport"; "out_prefix"];
    ["tasks"; "transport"; "_retain"];
    ["tasks"; "persistence"];
    ["tasks"; "persistence"; "persistence_file"];
    ["event_callback"];
    ["protocol_version"];
    ["const"]
  ]%string.

Definition look (h : heap) (path : list pstr) : option val := get_path h (VRef O) path.
