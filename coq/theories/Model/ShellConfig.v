(* C18 - command interpreter of the extracted runner model_runConfig. *)
From Coq Require Import List NArith ZArith Bool String.
From PMS Require Import Base.PyStr Base.PyInt Base.Exn Model.Codec Model.ShellBase
  Model.ConfigSyntax Model.ConfigVersion Model.Config Model.ConfigCheck Spec.ConfigSpec Gen.Signatures.
Import ListNotations.
Open Scope N_scope.
Open Scope list_scope.

Record shell_state := mkShell { sh_unit : unit }.
Definition shell_init : shell_state := mkShell tt.

(* ---- values on the wire:  N | B0 | B1 | I<int> | S<str> | F<str> | O<str>;
   printed only: R<class name> (an object made by the constructor), P<a>/<b> *)
Definition tok_val (t : pstr) : option val :=
  match t with
  | [78] => Some VNone
  | [66; 48] => Some (VBool false)
  | [66; 49] => Some (VBool true)
  | 73 :: r => option_map VInt (tok_Z r)
  | 83 :: r => option_map VStr (tok_str r)
  | 70 :: r => option_map VFloat (tok_str r)
  | 79 :: r => option_map VObj (tok_str r)
  | _ => None
  end.

Fixpoint out_val (h : heap) (v : val) : pstr :=
  match v with
  | VNone => [78]
  | VBool false => [66; 48]
  | VBool true => [66; 49]
  | VInt z => 73 :: out_Z z
  | VStr s => 83 :: out_str s
  | VFloat r => 70 :: out_str r
  | VObj t => 79 :: out_str t
  | VRef n => 82 :: out_str (match nth_error h n with Some o => o_cls o | None => [] end)
  | VPair a b => 80 :: out_val h a ++ [47] ++ out_val h b
  end.

Definition out_opt (h : heap) (o : option val) : pstr :=
  match o with Some v => out_val h v | None => [45] end.

(* ---- the oracle table:  o:<op 0..5>:<left>:<right>:<0|1|x> *)
Definition op_of (n : N) : option avop :=
  match n with
  | 0 => Some OpLt | 1 => Some OpLe | 2 => Some OpGt | 3 => Some OpGe | 4 => Some OpEq | 5 => Some OpNe
  | _ => None
  end.
Definition op_num (o : avop) : N :=
  match o with OpLt => 0 | OpLe => 1 | OpGt => 2 | OpGe => 3 | OpEq => 4 | OpNe => 5 end.

Definition orc_entry := (N * pstr * pstr * option bool)%type.

Definition orc_of (tbl : list orc_entry) (op : avop) (l r : pstr) : option bool :=
  match List.find (fun e => match e with (o, l', r', _) => N.eqb o (op_num op) && pstr_eqb l l' && pstr_eqb r r' end) tbl with
  | Some (_, _, _, verdict) => verdict
  | None => None
  end.

Inductive item := IPos (v : val) | IKw (k : pstr) (v : val) | IOrc (e : orc_entry) | ICont (s : pstr).

Definition tok_item (t : pstr) : option item :=
  match split 58 t with
  | [[112]; v] => option_map IPos (tok_val v)
  | [[107]; k; v] =>
      match tok_str k, tok_val v with Some k, Some v => Some (IKw k v) | _, _ => None end
  | [[99]; s] => option_map ICont (tok_str s)      (* c:<s> : s is a container word *)
  | [[111]; o; l; r; b] =>
      match tok_N o, tok_str l, tok_str r with
      | Some o, Some l, Some r =>
          match op_of o, b with
          | Some _, [48] => Some (IOrc (o, l, r, Some false))
          | Some _, [49] => Some (IOrc (o, l, r, Some true))
          | Some _, [120] => Some (IOrc (o, l, r, None))
          | _, _ => None
          end
      | _, _, _ => None
      end
  | _ => None
  end.

Fixpoint map_opt' {A B} (f : A -> option B) (l : list A) : option (list B) :=
  match l with
  | [] => Some []
  | x :: r => match f x, map_opt' f r with Some y, Some ys => Some (y :: ys) | _, _ => None end
  end.

Definition positional (l : list item) : list val :=
  flat_map (fun i => match i with IPos v => [v] | _ => [] end) l.
Definition keywords (l : list item) : list (pstr * val) :=
  flat_map (fun i => match i with IKw k v => [(k, v)] | _ => [] end) l.
Definition oracle (l : list item) : list orc_entry :=
  flat_map (fun i => match i with IOrc e => [e] | _ => [] end) l.

Definition cont_of (l : list item) (s : pstr) : bool :=
  existsb (fun i => match i with ICont s' => pstr_eqb s s' | _ => false end) l.

Definition out_res {A} (f : A -> pstr) (r : res A) : pstr :=
  match r with Ok a => s2p "ok:" ++ f a | Raise e => s2p "err:" ++ exn_name e end.

Definition out_call (c : gwclass) (call : list val * list (pstr * val)) : pstr :=
  sp (out_str (class_name c)
      :: map (fun v => s2p "p:" ++ out_val [] v) (fst call)
      ++ map (fun kv => s2p "k:" ++ out_str (fst kv) ++ [58] ++ out_val [] (snd kv)) (snd call)).

Definition tok_choice (c : N) : option choice :=
  match c with 48 => Some Absent | 49 => Some RepA | 50 => Some RepB | _ => None end.

Definition tok_case (args : list pstr) : option (gwclass * bool * list choice) :=
  match args with
  | [ci; kw; chs] =>
      match tok_N ci, tok_N kw, map_opt' tok_choice (match chs with 99 :: r => r | _ => [0] end) with
      | Some ci, Some kw, Some ch =>
          match nth_error all_classes (N.to_nat ci) with
          | Some c => Some (c, negb (N.eqb kw 0), ch)
          | None => None
          end
      | _, _, _ => None
      end
  | _ => None
  end.

Definition no_orc : avop -> pstr -> pstr -> option bool := fun _ _ _ => None.

Definition config_cmd (cmd : pstr) (args : list pstr) : option pstr :=
  if pstr_eqb cmd (s2p "construct") then
    match args with
    | c :: rest =>
        match tok_str c, map_opt' tok_item rest with
        | Some c, Some items =>
            Some match construct (orc_of (oracle items)) (cont_of items) classes c (positional items) (keywords items) with
                 | Ok h => sp (s2p "ok" :: map (fun path => out_opt h (look h path)) observed_paths)
                 | Raise e => sp [s2p "err"; exn_name e]
                 end
        | _, _ => Some bad
        end
    | [] => Some bad
    end
  else if pstr_eqb cmd (s2p "version") then
    match args with
    | v :: rest =>
        match tok_val v, map_opt' tok_item rest with
        | Some v, Some items =>
            let orc := orc_of (oracle items) in
            let cont := cont_of items in
            let safe := safe_is_version orc cont v in
            Some (sp [ out_res out_str (is_version orc cont v);
                       out_res out_str safe;
                       out_res out_str (gateway_const orc cont v);
                       out_res out_str (get_const orc (py_str v));
                       out_res out_bool (do s <- safe; wants_presentation orc s);
                       out_res (out_val []) (sensor_set_version orc cont v);
                       out_res out_str (node_const orc cont v) ])
        | _, _ => Some bad
        end
    | [] => Some bad
    end
  else if pstr_eqb cmd (s2p "case") then
    match tok_case args with
    | Some (c, kw, ch) =>
        if Nat.eqb (List.length ch) (List.length (documented c))
        then Some (out_call c (call_of c kw ch)) else Some bad
    | None => Some bad
    end
  else if pstr_eqb cmd (s2p "check") then
    match tok_case args with
    | Some (c, kw, ch) =>
        if Nat.eqb (List.length ch) (List.length (documented c))
        then Some (out_bool (check_case no_orc (fun _ => false) c kw ch)) else Some bad
    | None => Some bad
    end
  else if pstr_eqb cmd (s2p "floor") then
    match args with
    | [t] =>
        match tok_str t with
        | Some s => Some (sp [out_bool (dotted_numeric s); out_str (floor_module (sections s))])
        | None => Some bad
        end
    | _ => Some bad
    end
  else if pstr_eqb cmd (s2p "alert") then
    match args with
    | [a; b; c] =>
        match tok_N a, tok_N b, tok_N c with
        | Some a, Some b, Some c =>
            let r := alert_model (negb (N.eqb a 0)) (negb (N.eqb b 0)) (negb (N.eqb c 0)) in
            Some (sp [out_bool (fst r); out_bool (snd r)])
        | _, _, _ => Some bad
        end
    | _ => Some bad
    end
  else if pstr_eqb cmd (s2p "facts") then
    Some (sp [out_bool examples_documented;
              out_N (N.of_nat (List.length classes));
              out_N (N.of_nat (List.length doc_examples))])
  else None.

Definition shell_step (st : shell_state) (line : pstr) : shell_state * pstr :=
  match tokens line with
  | cmd :: args =>
      if pstr_eqb cmd (s2p "reset") then (shell_init, s2p "ok")
      else (st, match config_cmd cmd args with Some o => o | None => bad end)
  | [] => (st, bad)
  end.

Fixpoint shell_run (st : shell_state) (lines : list pstr) : list pstr :=
  match lines with
  | [] => []
  | l :: r => let '(st', o) := shell_step st l in o :: shell_run st' r
  end.
