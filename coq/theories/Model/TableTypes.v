(* Types of the generated per-version tables (Gen/Tables.v). *)
From Coq Require Import List NArith ZArith.
From PMS Require Import Base.PyStr Model.Rules.
Import ListNotations.

Record vtab := mkVtab {
  vt_version : pstr;
  vt_mtypes : list (Z * list Z);             (* VALID_MESSAGE_TYPES: type -> member values *)
  vt_payloads : list (Z * list (Z * rule));  (* VALID_PAYLOADS: type -> sub-type -> validator *)
  vt_presentation : Z; vt_set : Z; vt_req : Z; vt_internal : Z; vt_stream : Z;
  vt_id_request : Z; vt_id_response : Z;
  vt_max_node : Z;
  vt_valid_types : list (Z * list Z);        (* VALID_TYPES: presentation type -> value types *)
  vt_setreq : list (Z * rule);               (* VALID_SETREQ *)
  vt_s_custom : option Z;
  vt_mtype_names : list (Z * pstr);          (* MessageType value -> canonical member name *)
  vt_sub_names : list (Z * list (Z * pstr)); (* per message type: sub-type value -> canonical member name *)
  vt_internal_members : list (pstr * Z);     (* Internal members incl. aliases, by name *)
  vt_stream_members : list (pstr * Z);
  vt_handlers : list (pstr * pstr)           (* handler registry: name -> function __name__ *)
}.

Fixpoint zassoc {A} (k : Z) (l : list (Z * A)) : option A :=
  match l with
  | [] => None
  | (k', a) :: r => if Z.eqb k k' then Some a else zassoc k r
  end.

Fixpoint sassoc {A} (k : pstr) (l : list (pstr * A)) : option A :=
  match l with
  | [] => None
  | (k', a) :: r => if pstr_eqb k k' then Some a else sassoc k r
  end.

Fixpoint zmem (k : Z) (l : list Z) : bool :=
  match l with [] => false | x :: r => Z.eqb k x || zmem k r end.
