(* binascii.hexlify / unhexlify and struct "<nH" over byte lists, and the two
   helpers fw_hex_to_int / fw_int_to_hex of mysensors/ota.py.
   Python bytes = list N with every element < 256 (bytes_ok).  No proofs here. *)
From Coq Require Import List NArith ZArith Bool.
From PMS Require Import Base.PyStr Base.Exn.
Import ListNotations.
Open Scope N_scope.

Definition byte_ok (x : N) : bool := x <? 256.
Definition bytes_ok (b : list N) : bool := forallb byte_ok b.

(* ---- binascii.hexlify(b).decode("utf-8") : two lower-case digits per byte.
   hexlify_gen true writes upper-case digits (Intel-HEX files in the wild). *)
Definition hexdigit (upper : bool) (d : N) : N :=
  if d <? 10 then 48 + d else (if upper then 55 else 87) + d.

Fixpoint hexlify_gen (upper : bool) (b : list N) : pstr :=
  match b with
  | [] => []
  | x :: r => hexdigit upper (x / 16) :: hexdigit upper (x mod 16) :: hexlify_gen upper r
  end.

Definition hexlify (b : list N) : pstr := hexlify_gen false b.

(* ---- binascii.unhexlify(s) for a Python str s.
   CPython: the str is first converted with the "ASCII only" rule (ValueError
   "string argument should contain only ASCII characters" for any code point
   > 127), then binascii.Error (a ValueError subclass) "Odd-length string" or
   "Non-hexadecimal digit found".  Upper and lower case digits accepted, no
   white space, sign, underscore or prefix. *)
Definition hexval (c : N) : option N :=
  if (48 <=? c) && (c <=? 57) then Some (c - 48)
  else if (65 <=? c) && (c <=? 70) then Some (c - 55)
  else if (97 <=? c) && (c <=? 102) then Some (c - 87)
  else None.

Fixpoint unhex_pairs (s : pstr) : option (list N) :=
  match s with
  | [] => Some []
  | a :: b :: r =>
      match hexval a, hexval b with
      | Some x, Some y => option_map (cons (16 * x + y)) (unhex_pairs r)
      | _, _ => None
      end
  | [_] => None
  end.

Definition is_ascii (s : pstr) : bool := forallb (fun c => c <? 128) s.

Definition unhexlify (s : pstr) : res (list N) :=
  if negb (is_ascii s) then Raise ValueError
  else if Nat.odd (List.length s) then Raise BinasciiError
  else of_option BinasciiError (unhex_pairs s).

(* ---- struct.pack("<nH", *ws) / struct.unpack("<nH", b) *)
Definition word_ok (w : Z) : bool := ((0 <=? w) && (w <=? 65535))%Z.

Definition le16 (w : Z) : list N := [Z.to_N (w mod 256); Z.to_N (w / 256)].

Fixpoint pack_le16 (ws : list Z) : res (list N) :=
  match ws with
  | [] => Ok []
  | w :: r =>
      if word_ok w then (do t <- pack_le16 r; Ok (le16 w ++ t))
      else Raise StructError
  end.

Fixpoint words_of (b : list N) : list Z :=
  match b with
  | lo :: hi :: r => (Z.of_N lo + 256 * Z.of_N hi)%Z :: words_of r
  | _ => []
  end.

Definition unpack_le16 (words : nat) (b : list N) : res (list Z) :=
  if Nat.eqb (List.length b) (2 * words) then Ok (words_of b) else Raise StructError.

(* ---- ota.py *)
(* struct.unpack(f"<{words}H", binascii.unhexlify(hex_str)) *)
Definition fw_hex_to_int (s : pstr) (words : nat) : res (list Z) :=
  do b <- unhexlify s; unpack_le16 words b.

(* binascii.hexlify(struct.pack(f"<{len(args)}H", *args)).decode("utf-8") *)
Definition fw_int_to_hex (ws : list Z) : res pstr :=
  do b <- pack_le16 ws; Ok (hexlify b).
