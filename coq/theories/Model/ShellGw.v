(* Shell commands driving the core machine (Model/Gateway.v). *)
From Coq Require Import List NArith ZArith Bool String.
From PMS Require Import Base.PyStr Base.PyInt Base.Exn Model.Codec Model.Rules Model.TableTypes
  Gen.Tables Model.Validate Model.Oracles Model.ShellBase Model.Hex Model.Ota Model.Gateway.
Import ListNotations.
Open Scope string_scope.
Open Scope list_scope.

Record gsession := mkGs { gs_gw : gw; gs_orc : oracles; gs_clock : Z; gs_disk : option tree }.
Definition gs_init : gsession :=
  mkGs (gw_init (mkConfig tab_14 false false true false)) no_oracles 0%Z None.

Definition out_opt {A} (f : A -> pstr) (o : option A) : pstr :=
  match o with Some a => f a | None => s2p "--" end.
Definition out_pyval (v : pyval) : pstr :=
  match v with PS s => out_str s | PI z => 105%N :: out_Z z end.

Definition out_pchild (c : pchild) : pstr :=
  sp ([s2p "C"; out_Z (pc_id c); out_Z (pc_type c); out_str (pc_desc c)] ++
      flat_map (fun kv => [s2p "V"; out_Z (fst kv); out_pyval (snd kv)]) (pc_values c)).
Definition out_pnode (n : pnode) : pstr :=
  sp ([s2p "N"; out_Z (pn_id n); out_opt out_Z (pn_type n); out_opt out_str (pn_sk_name n);
       out_opt out_str (pn_sk_ver n); out_Z (pn_batt n); out_str (pn_pver n); out_Z (pn_hb n)] ++
      map (fun kc => out_pchild (snd kc)) (pn_children n)).
Definition out_tree (t : tree) : pstr := sp (s2p "T" :: map (fun kn => out_pnode (snd kn)) t).

Definition out_event (e : event) : pstr :=
  match e with
  | ESend l => sp [s2p "S"; out_str l]
  | ECallback m t => sp [s2p "CB"; out_msg m; out_tree t]
  | ERaise x => sp [s2p "R"; exn_name x]
  end.

(* transient and session state *)
Definition out_node_extra (n : node) : pstr :=
  sp ([s2p "X"; out_Z (n_id n); out_bool (n_reboot n); s2p "Q"] ++ map out_str (n_queue n) ++
      flat_map (fun cd => s2p "D" :: out_Z (fst cd) ::
                          flat_map (fun kv => [out_Z (fst kv); out_opt out_pyval (snd kv)]) (snd cd))
               (n_new n)).
Definition out_store (name : string) (l : list (Z * (Z * Z))) : pstr :=
  sp (s2p name :: flat_map (fun e => [out_Z (fst e); out_Z (fst (snd e)); out_Z (snd (snd e))]) l).
Definition out_state (g : gw) : pstr :=
  sp ([out_tree (proj (g_sensors g))] ++ map (fun kn => out_node_extra (snd kn)) (g_sensors g) ++
      [s2p "J"; out_Z (Z.of_nat (List.length (g_jobs g))); s2p "DIRTY"; out_bool (g_dirty g);
       s2p "FW"] ++ map (fun e => sp [out_Z (fst (fst e)); out_Z (snd (fst e)); out_Z (fw_blocks (snd e));
                                      out_Z (fw_crc (snd e))]) (o_fw (g_ota g))).

Definition tok_pyval (t : pstr) : option pyval :=
  match t with
  | 105%N :: r => option_map PI (tok_Z r)
  | _ => option_map PS (tok_str t)
  end.
Definition tok_vtarg (t : pstr) : option vtarg :=
  match t with
  | 105%N :: r => option_map VtInt (tok_Z r)
  | _ => option_map VtStr (tok_str t)
  end.
Definition tok_zlist (t : pstr) : option (list Z) :=
  match t with
  | [108%N] => Some []
  | 108%N :: r => map_opt tok_Z (split 44 r)
  | _ => None
  end.
Definition tok_bool (t : pstr) : option bool :=
  match t with [48%N] => Some false | [49%N] => Some true | _ => None end.

(* output of an operation: the events it appended, then the state *)
Definition report (old : gw) (g : gw) : pstr :=
  sp (map out_event (skipn (List.length (g_log old)) (g_log g)) ++ [s2p "#"; out_state g]).

Definition gw_cmd (st : gsession) (cmd : pstr) (args : list pstr) : option (gsession * pstr) :=
  let is s := pstr_eqb cmd (s2p s) in
  let g := gs_gw st in
  let finish g' := Some (mkGs (set_log g' []) (gs_orc st) (gs_clock st) (gs_disk st), report (set_log g []) g') in
  let finish_d (gd : gw * option tree) := Some (mkGs (set_log (fst gd) []) (gs_orc st) (gs_clock st) (snd gd), report (set_log g []) (fst gd)) in
  let g := set_log g [] in
  if is "init" then
    match args with
    | [i; ge; asy; cb; pe] =>
        match tok_N i, tok_bool ge, tok_bool asy, tok_bool cb, tok_bool pe with
        | Some i, Some ge, Some asy, Some cb, Some pe =>
            Some (mkGs (gw_init (mkConfig (tab_of_index (N.to_nat i)) ge asy cb pe)) no_oracles 0%Z None, s2p "ok")
        | _, _, _, _, _ => Some (st, bad)
        end
    | _ => Some (st, bad)
    end
  else if is "orc" then
    match parse_oracles (S (List.length args)) args (gs_orc st) with
    | Some o => Some (mkGs (gs_gw st) o (gs_clock st) (gs_disk st), s2p "ok")
    | None => Some (st, bad)
    end
  else if is "clock" then
    match args with
    | [z] => match tok_Z z with Some z => Some (mkGs (gs_gw st) (gs_orc st) z (gs_disk st), s2p "ok") | None => Some (st, bad) end
    | _ => Some (st, bad)
    end
  else if is "recv" then
    match args with
    | [l] => match tok_str l with
             | Some l => finish (step (gs_orc st) (gs_clock st) g (Recv l))
             | None => Some (st, bad)
             end
    | _ => Some (st, bad)
    end
  else if is "pump" then finish (step (gs_orc st) (gs_clock st) g Pump)
  else if is "metric" then
    match args with
    | [b] => match tok_bool b with Some b => finish (step (gs_orc st) (gs_clock st) g (SetMetric b)) | None => Some (st, bad) end
    | _ => Some (st, bad)
    end
  else if is "setchild" then
    match args with
    | [s; c; vt; v; mt; a] =>
        match tok_Z s, tok_Z c, tok_vtarg vt, tok_pyval v, tok_optZ mt, tok_optZ a with
        | Some s, Some c, Some vt, Some v, Some mt, Some a =>
            finish (step (gs_orc st) (gs_clock st) g (SetChild s c vt v mt a))
        | _, _, _, _, _, _ => Some (st, bad)
        end
    | _ => Some (st, bad)
    end
  else if is "updatefw" then
    match args with
    | [ns; t; v; b] =>
        match tok_zlist ns, tok_vtarg t, tok_vtarg v, tok_optstr b with
        | Some ns, Some t, Some v, Some b =>
            finish (step (gs_orc st) (gs_clock st) g (UpdateFw ns t v b))
        | _, _, _, _ => Some (st, bad)
        end
    | _ => Some (st, bad)
    end
  else if is "save" then finish_d (save_tick g (gs_disk st))
  else if is "restart" then finish_d (restart g (gs_disk st))
  else if is "state" then Some (st, out_state (gs_gw st))
  else None.
