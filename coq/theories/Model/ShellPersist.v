(* Command interpreter of the "Persist" runner (C11 file formats).

   Token grammar (prefix notation, one token per atom, arity in the head token):
     pv    ::= n | t | f | i<int> | s<cps> | q<k> str^k | d<k> (key pv)^k | S<k> (str pv)^k | C<k> (str pv)^k
     key   ::= i<int> | s<cps>
     json  ::= n | i<int> | s<cps> | o<k> (str json)^k
     orc   ::= <k> str^k          the strings validation.is_version accepts
   Commands:
     enc <pv>            gateway.sensors -> json.dump value tree        "ok <json>" | "unreadable"
     dec <orc> <json>    json.loads(cls=MySensorsJSONDecoder)            "ok <pv>" | "err <exn>"
     jload <orc> <json>  Persistence._load_json into {}                  "ok <pv>" | "err <exn>"
     getstate <pv>       Sensor.__getstate__                             "ok <pv>"
     setstate <orc> <pv> Sensor.__new__ + __setstate__                   "ok <pv>" | "err <exn>"
     csetstate <pv>      ChildSensor.__new__ + __setstate__              "ok <pv>"
     pdump <pv>          what pickle stores                              "ok <pv>"
     pload <orc> <pv>    what pickle.load rebuilds                       "ok <pv>" | "err <exn>"
     rt <orc> <pv>       both round trips of a machine state             "J <res> P <res> A <0|1> L <pv>" | "unreadable"
                         (A: both read back as the same machine state, which is load_tree (proj s): L) *)
From Coq Require Import List NArith ZArith Bool String.
From PMS Require Import Base.PyStr Base.PyInt Base.Exn Model.Codec Model.ShellBase Model.Gateway Model.Persist.
Import ListNotations.
Open Scope N_scope.

(* ---------------------------------------------------------------- printing *)
Definition out_len {A} (l : list A) : pstr := out_N (N.of_nat (List.length l)).
Definition o_key (k : key) : pstr := match k with KInt z => 105 :: out_Z z | KStr s => out_str s end.

Fixpoint o_pv (v : pv) : list pstr :=
  match v with
  | VNone => [[110]]
  | VBool b => [[if b then 116 else 102]]
  | VInt z => [105 :: out_Z z]
  | VStr s => [out_str s]
  | VDeque q => (113 :: out_len q) :: map out_str q
  | VDict l => (100 :: out_len l) :: flat_map (fun kv => o_key (fst kv) :: o_pv (snd kv)) l
  | VSensor a => (83 :: out_len a) :: flat_map (fun kv => out_str (fst kv) :: o_pv (snd kv)) a
  | VChild a => (67 :: out_len a) :: flat_map (fun kv => out_str (fst kv) :: o_pv (snd kv)) a
  end.

Fixpoint o_json (j : json) : list pstr :=
  match j with
  | JNull => [[110]]
  | JInt z => [105 :: out_Z z]
  | JStr s => [out_str s]
  | JObj l => (111 :: out_len l) :: flat_map (fun kv => out_str (fst kv) :: o_json (snd kv)) l
  end.

(* ---------------------------------------------------------------- parsing *)
Definition p_key (t : pstr) : option key :=
  match t with
  | 105 :: z => option_map KInt (tok_Z z)
  | 115 :: _ => option_map KStr (tok_str t)
  | _ => None
  end.

Fixpoint p_strs (n : nat) (ts : list pstr) : option (list pstr * list pstr) :=
  match n with
  | O => Some ([], ts)
  | S n' =>
      match ts with
      | t :: r => match tok_str t, p_strs n' r with
                  | Some s, Some (l, r') => Some (s :: l, r')
                  | _, _ => None
                  end
      | [] => None
      end
  end.

Definition arity (k : pstr) : option nat := option_map N.to_nat (tok_N k).

Fixpoint p_pv (fuel : nat) (ts : list pstr) : option (pv * list pstr) :=
  match fuel with
  | O => None
  | S f =>
      let attrs_of :=
        fix items (n : nat) (ts : list pstr) : option (list (pstr * pv) * list pstr) :=
          match n with
          | O => Some ([], ts)
          | S n' =>
              match ts with
              | kt :: ts1 =>
                  match tok_str kt, p_pv f ts1 with
                  | Some k, Some (v, ts2) =>
                      match items n' ts2 with Some (l, ts3) => Some ((k, v) :: l, ts3) | None => None end
                  | _, _ => None
                  end
              | [] => None
              end
          end in
      match ts with
      | [] => None
      | t :: rest =>
          match t with
          | [110] => Some (VNone, rest)
          | [116] => Some (VBool true, rest)
          | [102] => Some (VBool false, rest)
          | 105 :: z => option_map (fun z => (VInt z, rest)) (tok_Z z)
          | 115 :: _ => option_map (fun s => (VStr s, rest)) (tok_str t)
          | 113 :: k =>
              match arity k with
              | Some n => option_map (fun lr => (VDeque (fst lr), snd lr)) (p_strs n rest)
              | None => None
              end
          | 100 :: k =>
              match arity k with
              | Some n =>
                  option_map (fun lr => (VDict (fst lr), snd lr))
                    ((fix items (n : nat) (ts : list pstr) : option (list (key * pv) * list pstr) :=
                        match n with
                        | O => Some ([], ts)
                        | S n' =>
                            match ts with
                            | kt :: ts1 =>
                                match p_key kt, p_pv f ts1 with
                                | Some k, Some (v, ts2) =>
                                    match items n' ts2 with Some (l, ts3) => Some ((k, v) :: l, ts3) | None => None end
                                | _, _ => None
                                end
                            | [] => None
                            end
                        end) n rest)
              | None => None
              end
          | 83 :: k =>
              match arity k with
              | Some n => option_map (fun lr => (VSensor (fst lr), snd lr)) (attrs_of n rest)
              | None => None
              end
          | 67 :: k =>
              match arity k with
              | Some n => option_map (fun lr => (VChild (fst lr), snd lr)) (attrs_of n rest)
              | None => None
              end
          | _ => None
          end
      end
  end.

Fixpoint p_json (fuel : nat) (ts : list pstr) : option (json * list pstr) :=
  match fuel with
  | O => None
  | S f =>
      match ts with
      | [] => None
      | t :: rest =>
          match t with
          | [110] => Some (JNull, rest)
          | 105 :: z => option_map (fun z => (JInt z, rest)) (tok_Z z)
          | 115 :: _ => option_map (fun s => (JStr s, rest)) (tok_str t)
          | 111 :: k =>
              match arity k with
              | Some n =>
                  option_map (fun lr => (JObj (fst lr), snd lr))
                    ((fix items (n : nat) (ts : list pstr) : option (list (pstr * json) * list pstr) :=
                        match n with
                        | O => Some ([], ts)
                        | S n' =>
                            match ts with
                            | kt :: ts1 =>
                                match tok_str kt, p_json f ts1 with
                                | Some k, Some (v, ts2) =>
                                    match items n' ts2 with Some (l, ts3) => Some ((k, v) :: l, ts3) | None => None end
                                | _, _ => None
                                end
                            | [] => None
                            end
                        end) n rest)
              | None => None
              end
          | _ => None
          end
      end
  end.

(* <k> str^k : the accepted version strings *)
Definition p_orc (ts : list pstr) : option ((pstr -> bool) * list pstr) :=
  match ts with
  | k :: rest =>
      match arity k with
      | Some n => option_map (fun lr => ((fun s => mem_pstr s (fst lr)), snd lr)) (p_strs n rest)
      | None => None
      end
  | [] => None
  end.

Definition whole_pv (ts : list pstr) : option pv :=
  match p_pv (S (List.length ts)) ts with Some (v, []) => Some v | _ => None end.
Definition whole_json (ts : list pstr) : option json :=
  match p_json (S (List.length ts)) ts with Some (j, []) => Some j | _ => None end.

Definition out_res (r : res pv) : list pstr :=
  match r with
  | Ok v => s2p "ok" :: o_pv v
  | Raise e => [s2p "err"; exn_name e]
  end.
Definition out_dict (r : res (list (key * pv))) : list pstr :=
  out_res (match r with Ok d => Ok (VDict d) | Raise e => Raise e end).

Definition state_of (v : pv) : option (list (Z * node)) :=
  match v with VDict d => read_state d | _ => None end.

Fixpoint node_list_eqb (a b : list pstr) : bool :=
  match a, b with
  | [], [] => true
  | x :: a', y :: b' => pstr_eqb x y && node_list_eqb a' b'
  | _, _ => false
  end.

Definition persist_cmd (cmd : pstr) (args : list pstr) : option pstr :=
  let is s := pstr_eqb cmd (s2p s) in
  if is "enc" then
    Some match whole_pv args with
         | Some v => match state_of v with
                     | Some s => sp (s2p "ok" :: o_json (json_save s))
                     | None => s2p "unreadable"
                     end
         | None => bad
         end
  else if is "dec" then
    Some match p_orc args with
         | Some (ok, rest) => match whole_json rest with
                              | Some j => sp (out_res (dec_json ok j))
                              | None => bad
                              end
         | None => bad
         end
  else if is "jload" then
    Some match p_orc args with
         | Some (ok, rest) => match whole_json rest with
                              | Some j => sp (out_dict (json_load ok j))
                              | None => bad
                              end
         | None => bad
         end
  else if is "getstate" then
    Some match whole_pv args with
         | Some (VSensor a) => sp (s2p "ok" :: o_pv (VSensor (getstate a)))
         | _ => bad
         end
  else if is "setstate" then
    Some match p_orc args with
         | Some (ok, rest) =>
             match whole_pv rest with
             | Some (VSensor st) =>
                 sp (out_res (match setstate ok st with Ok a => Ok (VSensor a) | Raise e => Raise e end))
             | _ => bad
             end
         | None => bad
         end
  else if is "csetstate" then
    Some match whole_pv args with
         | Some (VChild st) => sp (s2p "ok" :: o_pv (VChild (child_setstate st)))
         | _ => bad
         end
  else if is "pdump" then
    Some match whole_pv args with
         | Some v => sp (s2p "ok" :: o_pv (pickle_dump v))
         | None => bad
         end
  else if is "pload" then
    Some match p_orc args with
         | Some (ok, rest) => match whole_pv rest with
                              | Some v => sp (out_res (pickle_load ok v))
                              | None => bad
                              end
         | None => bad
         end
  else if is "rt" then
    Some match p_orc args with
         | Some (ok, rest) =>
             match whole_pv rest with
             | Some v =>
                 match state_of v with
                 | Some s =>
                     let j := json_load ok (json_save s) in
                     let p := pickle_load_file ok (pickle_save s) in
                     let want := load_tree (proj s) in
                     let rd r := match r with Ok d => read_state d | Raise _ => None end in
                     let same x := match x with
                                   | Some s' => node_list_eqb (o_pv (VDict (state_dict s'))) (o_pv (VDict (state_dict want)))
                                   | None => false
                                   end in
                     sp ([s2p "J"] ++ out_dict j ++ [s2p "P"] ++ out_dict p
                         ++ [s2p "A"; out_bool (same (rd j) && same (rd p)); s2p "L"] ++ o_pv (VDict (state_dict want)))
                 | None => s2p "unreadable"
                 end
             | None => bad
             end
         | None => bad
         end
  else None.

Record shell_state := mkShell { sh_unit : unit }.
Definition shell_init : shell_state := mkShell tt.

Definition shell_step (st : shell_state) (line : pstr) : shell_state * pstr :=
  match tokens line with
  | cmd :: args =>
      if pstr_eqb cmd (s2p "reset") then (shell_init, s2p "ok")
      else (st, match persist_cmd cmd args with Some o => o | None => bad end)
  | [] => (st, bad)
  end.

Fixpoint shell_run (st : shell_state) (lines : list pstr) : list pstr :=
  match lines with
  | [] => []
  | l :: r => let '(st', o) := shell_step st l in o :: shell_run st' r
  end.
