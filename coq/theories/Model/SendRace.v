(* C16 - model of Transport.send racing with connection loss / disconnect / reconnection,
   and of the deque between producers and the poll thread.

   Threads are programs over a small register machine: ONE instruction per attribute load,
   attribute store or call of the Python source (plus explicit branches/moves, which touch only
   thread-local registers).  The programs themselves are GENERATED from the AST of
   mysensors/transport.py into Gen/SendSteps.v (harness/translate/sendsteps.py); this file
   defines the instruction set, its semantics on the shared heap, schedules, and the verified
   enumerator `explore`.  `send_steps_unfixed` is the hand transcription of the pre-fix
   Transport.send (git show f620478^:mysensors/transport.py).

   No proofs here (Proofs/SendRaceProofs.v). *)
From Coq Require Import List NArith Bool Arith.
From PMS Require Import Base.Exn.
Import ListNotations.

(* ------------------------------------------------------------------ values *)

Inductive attr :=
| A_protocol | A_transport | A_serial | A_write | A_close | A_conn_lost_callback
| A_can_log | A_gateway | A_on_conn_lost | A_on_conn_made
| A_debug | A_info | A_error | A_warning | A_encode | A_strip.

Inductive meth :=
| MWrite (c : N)        (* connection.write : ReaderThread.write / TCPTransport.write *)
| MClose (c : N)        (* connection.close and connection.serial.close *)
| MConnLostCb           (* protocol.conn_lost_callback = SyncTransport.connect: requests a reconnect *)
| MUserLost | MUserMade (* gateway.on_conn_lost / on_conn_made user callbacks *)
| MLog                  (* _LOGGER.debug/info/error *)
| MEncode | MStrip      (* str methods of the message *)
| MHasattr.

Inductive val :=
| VNone | VTrue | VFalse
| VSelfT                (* the Transport object *)
| VProto                (* its protocol object (one per transport, created in __init__) *)
| VConn (c : N)         (* a connection object (ReaderThread-like) *)
| VSerial (c : N)       (* connection.serial *)
| VGateway
| VMsg                  (* the str handed to send *)
| VMsgBytes             (* message.encode(): the complete command *)
| VExc                  (* an exception instance (truthy) *)
| VLogger
| VMeth (m : meth)
| VOpaque.              (* any other non-None, truthy object *)

Definition truthy (v : val) : bool := match v with VNone | VFalse => false | _ => true end.
Definition is_none (v : val) : bool := match v with VNone => true | _ => false end.
Definition of_bool (b : bool) : val := if b then VTrue else VFalse.

(* ------------------------------------------------------------------ shared heap *)

Record heap := mkHeap {
  h_protocol : bool;               (* T.protocol is the protocol object (true) or None (false) *)
  h_transport : option N;          (* P.transport: connection id or None *)
  h_open0 : bool;                  (* connection 0 open *)
  h_open1 : bool;                  (* connection 1 open *)
  h_log : list (N * val * bool);   (* every write attempt: connection, argument, open at that moment *)
  h_reconn : N;                    (* conn_lost_callback invocations (reconnect requests) *)
  h_user : N;                      (* user on_conn_lost invocations *)
  h_usercb : bool                  (* gateway.on_conn_lost / on_conn_made are set *)
}.

Definition conn_open (h : heap) (c : N) : bool :=
  match c with 0%N => h_open0 h | 1%N => h_open1 h | _ => false end.

Definition close_conn (h : heap) (c : N) : heap :=
  match c with
  | 0%N => mkHeap (h_protocol h) (h_transport h) false (h_open1 h) (h_log h) (h_reconn h) (h_user h) (h_usercb h)
  | 1%N => mkHeap (h_protocol h) (h_transport h) (h_open0 h) false (h_log h) (h_reconn h) (h_user h) (h_usercb h)
  | _ => h
  end.

Definition with_log (h : heap) (l : list (N * val * bool)) : heap :=
  mkHeap (h_protocol h) (h_transport h) (h_open0 h) (h_open1 h) l (h_reconn h) (h_user h) (h_usercb h).
Definition with_protocol (h : heap) (b : bool) : heap :=
  mkHeap b (h_transport h) (h_open0 h) (h_open1 h) (h_log h) (h_reconn h) (h_user h) (h_usercb h).
Definition with_transport (h : heap) (t : option N) : heap :=
  mkHeap (h_protocol h) t (h_open0 h) (h_open1 h) (h_log h) (h_reconn h) (h_user h) (h_usercb h).
Definition bump_reconn (h : heap) : heap :=
  mkHeap (h_protocol h) (h_transport h) (h_open0 h) (h_open1 h) (h_log h) (N.succ (h_reconn h)) (h_user h) (h_usercb h).
Definition bump_user (h : heap) : heap :=
  mkHeap (h_protocol h) (h_transport h) (h_open0 h) (h_open1 h) (h_log h) (h_reconn h) (N.succ (h_user h)) (h_usercb h).

(* attribute load: on None -> AttributeError; an (object, attribute) pair the model does not
   know -> OtherError (fail closed: the safety theorem then fails) *)
Definition load_attr (h : heap) (v : val) (a : attr) : res val :=
  match v, a with
  | VNone, _ => Raise AttributeError
  | VSelfT, A_protocol => Ok (if h_protocol h then VProto else VNone)
  | VSelfT, A_can_log => Ok VFalse
  | VSelfT, A_gateway => Ok VGateway
  | VProto, A_transport => Ok (match h_transport h with Some c => VConn c | None => VNone end)
  | VProto, A_conn_lost_callback => Ok (VMeth MConnLostCb)
  | VProto, A_gateway => Ok VGateway
  | VGateway, A_on_conn_lost => Ok (if h_usercb h then VMeth MUserLost else VNone)
  | VGateway, A_on_conn_made => Ok (if h_usercb h then VMeth MUserMade else VNone)
  | VConn c, A_write => Ok (VMeth (MWrite c))
  | VConn c, A_close => Ok (VMeth (MClose c))
  | VConn c, A_serial => Ok (VSerial c)
  | VSerial c, A_close => Ok (VMeth (MClose c))
  | VLogger, A_debug | VLogger, A_info | VLogger, A_error | VLogger, A_warning => Ok (VMeth MLog)
  | VMsg, A_encode => Ok (VMeth MEncode)
  | VMsg, A_strip => Ok (VMeth MStrip)
  | _, _ => Raise OtherError
  end.

Definition store_attr (h : heap) (o : val) (a : attr) (v : val) : res heap :=
  match o, a, v with
  | VNone, _, _ => Raise AttributeError
  | VSelfT, A_protocol, VNone => Ok (with_protocol h false)
  | VSelfT, A_protocol, VProto => Ok (with_protocol h true)
  | VProto, A_transport, VNone => Ok (with_transport h None)
  | VProto, A_transport, VConn c => Ok (with_transport h (Some c))
  | _, _, _ => Raise OtherError
  end.

(* call: `write` is ATOMIC: it reads the open flag, records the attempt, and either writes the
   whole argument or raises OSError having written nothing (pyserial PortNotOpenError,
   socket EBADF). The heap is returned also when the call raises (the attempt is recorded). *)
Definition call (h : heap) (f : val) (args : list val) : heap * res val :=
  match f with
  | VMeth (MWrite c) =>
      match args with
      | [a] => let o := conn_open h c in
               (with_log h (h_log h ++ [(c, a, o)]), if o then Ok VOpaque else Raise OSError)
      | _ => (h, Raise TypeError)
      end
  | VMeth (MClose c) => match args with [] => (close_conn h c, Ok VNone) | _ => (h, Raise TypeError) end
  | VMeth MConnLostCb => match args with [] => (bump_reconn h, Ok VNone) | _ => (h, Raise TypeError) end
  | VMeth MUserLost => match args with [_; _] => (bump_user h, Ok VNone) | _ => (h, Raise TypeError) end
  | VMeth MUserMade => match args with [_] => (h, Ok VNone) | _ => (h, Raise TypeError) end
  | VMeth MLog => (h, Ok VNone)
  | VMeth MEncode => match args with [] => (h, Ok VMsgBytes) | _ => (h, Raise TypeError) end
  | VMeth MStrip => match args with [] => (h, Ok VOpaque) | _ => (h, Raise TypeError) end
  | VMeth MHasattr =>
      match args with
      | [v; _] => (h, Ok (match v with VConn _ => VTrue | _ => VFalse end))
      | _ => (h, Raise TypeError)
      end
  | VNone => (h, Raise TypeError)
  | _ => (h, Raise OtherError)
  end.

(* ------------------------------------------------------------------ instructions *)

Inductive instr :=
| ILoad (dst src : nat) (a : attr)         (* dst := src.a *)
| IStore (obj : nat) (a : attr) (src : nat) (* obj.a := src *)
| ICall (dst f : nat) (args : list nat)    (* dst := f(args) *)
| IConst (dst : nat) (v : val)
| IMove (dst src : nat)
| INot (dst src : nat)
| IIsNone (dst src : nat) (neg : bool)     (* src is None  /  src is not None (neg) *)
| IBr (c : nat) (sense : bool) (l : nat)   (* goto l when truthiness of c = sense *)
| IJmp (l : nat)
| ILabel (l : nat)
| IRet.

(* s_line: source line (for line-level replay); s_hdl: label of the enclosing `except OSError` *)
Record step := mkStep { s_line : N; s_hdl : option nat; s_ins : instr }.

Definition get (rs : list val) (r : nat) : val := nth r rs VNone.

Fixpoint set_reg (rs : list val) (r : nat) (v : val) : option (list val) :=
  match rs, r with
  | [], _ => None
  | _ :: t, O => Some (v :: t)
  | x :: t, S r' => match set_reg t r' v with Some t' => Some (x :: t') | None => None end
  end.

Inductive outcome :=
| ONext (rs : list val) (h : heap)
| OGoto (l : nat)
| ORet
| OThrow (e : exn) (h : heap).

Definition wr (rs : list val) (d : nat) (v : val) (h : heap) : outcome :=
  match set_reg rs d v with Some rs' => ONext rs' h | None => OThrow OtherError h end.

Definition exec_instr (i : instr) (rs : list val) (h : heap) : outcome :=
  match i with
  | ILoad d s a =>
      match load_attr h (get rs s) a with Ok v => wr rs d v h | Raise e => OThrow e h end
  | IStore o a s =>
      match store_attr h (get rs o) a (get rs s) with Ok h' => ONext rs h' | Raise e => OThrow e h end
  | ICall d f args =>
      let '(h', r) := call h (get rs f) (map (get rs) args) in
      match r with Ok v => wr rs d v h' | Raise e => OThrow e h' end
  | IConst d v => wr rs d v h
  | IMove d s => wr rs d (get rs s) h
  | INot d s => wr rs d (of_bool (negb (truthy (get rs s)))) h
  | IIsNone d s neg => wr rs d (of_bool (xorb neg (is_none (get rs s)))) h
  | IBr c sense l => if Bool.eqb (truthy (get rs c)) sense then OGoto l else ONext rs h
  | IJmp l => OGoto l
  | ILabel _ => ONext rs h
  | IRet => ORet
  end.

(* ------------------------------------------------------------------ threads *)

Record thread := mkThread { t_pc : nat; t_regs : list val; t_exn : option exn }.

Fixpoint find_label (code : list step) (l : nat) (base : nat) : option nat :=
  match code with
  | [] => None
  | s :: r =>
      match s_ins s with
      | ILabel l' => if Nat.eqb l l' then Some base else find_label r l (S base)
      | _ => find_label r l (S base)
      end
  end.

(* jumps go forward only *)
Definition goto (prog : list step) (pc l : nat) : option nat :=
  find_label (skipn (S pc) prog) l (S pc).

Definition die (t : thread) (e : exn) : thread := mkThread (t_pc t) (t_regs t) (Some e).

Definition jump (prog : list step) (t : thread) (l : nat) : thread :=
  match goto prog (t_pc t) l with
  | Some pc' => mkThread pc' (t_regs t) None
  | None => die t OtherError
  end.

Definition step_thread (prog : list step) (t : thread) (h : heap) : thread * heap :=
  match nth_error prog (t_pc t) with
  | None => (t, h)
  | Some s =>
      match exec_instr (s_ins s) (t_regs t) h with
      | ONext rs h' => (mkThread (S (t_pc t)) rs None, h')
      | OGoto l => (jump prog t l, h)
      | ORet => (mkThread (length prog) (t_regs t) None, h)
      | OThrow e h' =>
          match s_hdl s with
          | Some l => if exn_eqb e OSError then (jump prog t l, h') else (die t e, h')
          | None => (die t e, h')
          end
      end
  end.

Definition enabled (prog : list step) (t : thread) : bool :=
  match t_exn t with None => Nat.ltb (t_pc t) (length prog) | Some _ => false end.

Definition remaining (prog : list step) (t : thread) : nat :=
  match t_exn t with None => length prog - t_pc t | Some _ => 0 end.

(* ------------------------------------------------------------------ two threads, schedules *)

Record config := mkCfg { c_a : thread; c_b : thread; c_h : heap }.

(* who = true: thread A (the sender); false: thread B (the event code) *)
Definition cstep (pa pb : list step) (who : bool) (c : config) : option config :=
  if who then
    if enabled pa (c_a c)
    then let '(t, h) := step_thread pa (c_a c) (c_h c) in Some (mkCfg t (c_b c) h)
    else None
  else
    if enabled pb (c_b c)
    then let '(t, h) := step_thread pb (c_b c) (c_h c) in Some (mkCfg (c_a c) t h)
    else None.

(* a schedule is any list of thread choices; choosing a thread that cannot move is a no-op,
   so the lists of choices cover exactly the merges of the two threads' step sequences *)
Fixpoint run_sched (pa pb : list step) (sched : list bool) (c : config) : config :=
  match sched with
  | [] => c
  | w :: r =>
      match cstep pa pb w c with
      | Some c' => run_sched pa pb r c'
      | None => run_sched pa pb r c
      end
  end.

Definition succs (pa pb : list step) (c : config) : list config :=
  (match cstep pa pb true c with Some x => [x] | None => [] end) ++
  (match cstep pa pb false c with Some x => [x] | None => [] end).

(* ------------------------------------------------------------------ equality tests (sound) *)

Definition meth_eqb (a b : meth) : bool :=
  match a, b with
  | MWrite c, MWrite d | MClose c, MClose d => N.eqb c d
  | MConnLostCb, MConnLostCb | MUserLost, MUserLost | MUserMade, MUserMade | MLog, MLog
  | MEncode, MEncode | MStrip, MStrip | MHasattr, MHasattr => true
  | _, _ => false
  end.

Definition val_eqb (a b : val) : bool :=
  match a, b with
  | VNone, VNone | VTrue, VTrue | VFalse, VFalse | VSelfT, VSelfT | VProto, VProto
  | VGateway, VGateway | VMsg, VMsg | VMsgBytes, VMsgBytes | VExc, VExc | VLogger, VLogger
  | VOpaque, VOpaque => true
  | VConn c, VConn d | VSerial c, VSerial d => N.eqb c d
  | VMeth m, VMeth n => meth_eqb m n
  | _, _ => false
  end.

Fixpoint list_eqb {A} (eqb : A -> A -> bool) (l m : list A) : bool :=
  match l, m with
  | [], [] => true
  | x :: l', y :: m' => eqb x y && list_eqb eqb l' m'
  | _, _ => false
  end.

Definition opt_eqb {A} (eqb : A -> A -> bool) (a b : option A) : bool :=
  match a, b with Some x, Some y => eqb x y | None, None => true | _, _ => false end.

Definition entry_eqb (a b : N * val * bool) : bool :=
  let '(c, v, o) := a in let '(d, w, p) := b in N.eqb c d && val_eqb v w && Bool.eqb o p.

Definition heap_eqb (a b : heap) : bool :=
  Bool.eqb (h_protocol a) (h_protocol b) && opt_eqb N.eqb (h_transport a) (h_transport b)
  && Bool.eqb (h_open0 a) (h_open0 b) && Bool.eqb (h_open1 a) (h_open1 b)
  && list_eqb entry_eqb (h_log a) (h_log b) && N.eqb (h_reconn a) (h_reconn b)
  && N.eqb (h_user a) (h_user b) && Bool.eqb (h_usercb a) (h_usercb b).

Definition thread_eqb (a b : thread) : bool :=
  Nat.eqb (t_pc a) (t_pc b) && opt_eqb exn_eqb (t_exn a) (t_exn b) && list_eqb val_eqb (t_regs a) (t_regs b).

Definition cfg_eqb (a b : config) : bool :=
  thread_eqb (c_a a) (c_a b) && thread_eqb (c_b a) (c_b b) && heap_eqb (c_h a) (c_h b).

(* ------------------------------------------------------------------ the enumerator *)

Definition add_new (acc : list config) (c : config) : list config :=
  if existsb (cfg_eqb c) acc then acc else c :: acc.
Definition dedup (l : list config) : list config := fold_left add_new l [].

(* all configurations reachable from S in at most n steps (level by level, duplicates merged) *)
Fixpoint reach (pa pb : list step) (n : nat) (S : list config) : list config :=
  match n with
  | O => S
  | Datatypes.S n' => S ++ reach pa pb n' (dedup (flat_map (succs pa pb) S))
  end.

Definition measure (pa pb : list step) (c : config) : nat :=
  remaining pa (c_a c) + remaining pb (c_b c).

Definition explore (pa pb : list step) (c : config) : list config :=
  reach pa pb (measure pa pb c) [c].

(* ------------------------------------------------------------------ program plumbing *)

Definition shift_instr (ro lo : nat) (i : instr) : instr :=
  match i with
  | ILoad d s a => ILoad (ro + d) (ro + s) a
  | IStore o a s => IStore (ro + o) a (ro + s)
  | ICall d f args => ICall (ro + d) (ro + f) (map (Nat.add ro) args)
  | IConst d v => IConst (ro + d) v
  | IMove d s => IMove (ro + d) (ro + s)
  | INot d s => INot (ro + d) (ro + s)
  | IIsNone d s n => IIsNone (ro + d) (ro + s) n
  | IBr c s l => IBr (ro + c) s (lo + l)
  | IJmp l => IJmp (lo + l)
  | ILabel l => ILabel (lo + l)
  | IRet => IRet
  end.

Definition shift_step (ro lo : nat) (s : step) : step :=
  mkStep (s_line s) (match s_hdl s with Some l => Some (lo + l) | None => None end)
         (shift_instr ro lo (s_ins s)).

Definition ret_to (l : nat) (s : step) : step :=
  match s_ins s with IRet => mkStep (s_line s) (s_hdl s) (IJmp l) | _ => s end.

Definition max_label (p : list step) : nat :=
  fold_left (fun m s => match s_ins s with ILabel l => Nat.max m l | _ => m end) p 0.

(* p1 ; p2 as one program: p1's `return` jumps to a fresh label in front of p2; p2's registers
   are placed after p1's n1 registers, its labels after p1's *)
Definition seq_progs (p1 : list step) (n1 : nat) (p2 : list step) : list step :=
  let l := S (max_label p1) in
  map (ret_to l) p1 ++ [mkStep 0%N None (ILabel l)] ++ map (shift_step n1 (S l)) p2.

Definition init_regs (n : nat) (params : list val) : list val :=
  params ++ repeat VNone (n - length params).

(* ------------------------------------------------------------------ scenarios *)

Inductive event := EvLostNoErr | EvLostErr | EvDisconnect | EvLostReconn.

Record scenario := mkSc {
  sc_ev : event;
  sc_open0 : bool;     (* connection 0 still open when the race starts (false: the port died, nobody noticed yet) *)
  sc_usercb : bool;    (* the user registered on_conn_lost / on_conn_made *)
  sc_msg : bool        (* send is called with a command (false: None/"" as after an empty run_job) *)
}.

Record progs := mkProgs {
  p_send : list step; p_send_n : nat;
  p_disc : list step; p_disc_n : nat;
  p_lost : list step; p_lost_n : nat;
  p_made : list step; p_made_n : nat
}.

Definition event_prog (P : progs) (ev : event) : list step :=
  match ev with
  | EvLostNoErr | EvLostErr => p_lost P
  | EvDisconnect => p_disc P
  | EvLostReconn => seq_progs (p_lost P) (p_lost_n P) (p_made P)
  end.

Definition event_regs (P : progs) (ev : event) : list val :=
  match ev with
  | EvLostNoErr => init_regs (p_lost_n P) [VProto; VNone]
  | EvLostErr => init_regs (p_lost_n P) [VProto; VExc]
  | EvDisconnect => init_regs (p_disc_n P) [VSelfT]
  | EvLostReconn => init_regs (p_lost_n P) [VProto; VExc] ++ init_regs (p_made_n P) [VProto; VConn 1]
  end.

Definition init_heap (sc : scenario) : heap :=
  mkHeap true (Some 0%N) (sc_open0 sc) true [] 0%N 0%N (sc_usercb sc).

Definition init_cfg (P : progs) (sc : scenario) : config :=
  mkCfg (mkThread 0 (init_regs (p_send_n P) [VSelfT; if sc_msg sc then VMsg else VNone]) None)
        (mkThread 0 (event_regs P (sc_ev sc)) None)
        (init_heap sc).

Definition all_events : list event := [EvLostNoErr; EvLostErr; EvDisconnect; EvLostReconn].
Definition all_scenarios : list scenario :=
  flat_map (fun ev => flat_map (fun o => flat_map (fun u => map (fun m => mkSc ev o u m) [true; false])
                                                  [true; false]) [true; false]) all_events.

(* ------------------------------------------------------------------ the safety predicate *)

Definition written (log : list (N * val * bool)) : list (N * val * bool) :=
  filter (fun e => snd e) log.

(* an attempt on an open connection carries the complete command *)
Definition entry_ok (e : N * val * bool) : bool :=
  let '(_, a, o) := e in if o then val_eqb a VMsgBytes else true.

Definition no_exn (t : thread) : bool := match t_exn t with None => true | Some _ => false end.

Definition safe (sc : scenario) (c : config) : bool :=
  no_exn (c_a c)                                            (* nothing raised in the sender *)
  && Nat.leb (length (written (h_log (c_h c)))) 1           (* at most one write went through *)
  && forallb entry_ok (h_log (c_h c))                       (* and it carried the complete command *)
  && (sc_msg sc || match h_log (c_h c) with [] => true | _ => false end)  (* nothing to send: no attempt *)
  && no_exn (c_b c).                                        (* (extra) the event code does not raise either *)

Definition check_scenario (P : progs) (sc : scenario) : bool :=
  forallb (safe sc) (explore (p_send P) (event_prog P (sc_ev sc)) (init_cfg P sc)).

Definition check_all (P : progs) : bool := forallb (check_scenario P) all_scenarios.

(* ------------------------------------------------------------------ the pre-fix send *)
(* git show f620478^:mysensors/transport.py, Transport.send (lines 39-52 there):
     if not message or not self.protocol or not self.protocol.transport: return
     if not self.can_log: _LOGGER.debug("Sending %s", message.strip())
     try: self.protocol.transport.write(message.encode())
     except OSError as exc:
         _LOGGER.error("Failed writing to transport %s: %s", self.protocol.transport, exc)
         self.protocol.transport.close()
         self.protocol.conn_lost_callback()                                   *)
Definition send_unfixed_nregs : nat := 32.
Definition send_steps_unfixed : list step := [
  mkStep 41%N None (IBr 1 false 1);
  mkStep 41%N None (ILoad 2 0 A_protocol);
  mkStep 41%N None (IBr 2 false 1);
  mkStep 41%N None (ILoad 3 0 A_protocol);
  mkStep 41%N None (ILoad 4 3 A_transport);
  mkStep 41%N None (IBr 4 true 0);
  mkStep 41%N None (ILabel 1);
  mkStep 42%N None IRet;
  mkStep 42%N None (ILabel 0);
  mkStep 43%N None (ILoad 5 0 A_can_log);
  mkStep 43%N None (IBr 5 true 2);
  mkStep 44%N None (IConst 6 VLogger);
  mkStep 44%N None (ILoad 7 6 A_debug);
  mkStep 44%N None (IConst 8 VOpaque);
  mkStep 44%N None (ILoad 9 1 A_strip);
  mkStep 44%N None (ICall 10 9 []);
  mkStep 44%N None (ICall 11 7 [8; 10]);
  mkStep 44%N None (ILabel 2);
  mkStep 46%N (Some 3) (ILoad 12 0 A_protocol);
  mkStep 46%N (Some 3) (ILoad 13 12 A_transport);
  mkStep 46%N (Some 3) (ILoad 14 13 A_write);
  mkStep 46%N (Some 3) (ILoad 15 1 A_encode);
  mkStep 46%N (Some 3) (ICall 16 15 []);
  mkStep 46%N (Some 3) (ICall 17 14 [16]);
  mkStep 46%N None (IJmp 4);
  mkStep 47%N None (ILabel 3);
  mkStep 47%N None (IConst 18 VExc);
  mkStep 48%N None (IConst 19 VLogger);
  mkStep 48%N None (ILoad 20 19 A_error);
  mkStep 49%N None (IConst 21 VOpaque);
  mkStep 49%N None (ILoad 22 0 A_protocol);
  mkStep 49%N None (ILoad 23 22 A_transport);
  mkStep 48%N None (ICall 24 20 [21; 23; 18]);
  mkStep 51%N None (ILoad 25 0 A_protocol);
  mkStep 51%N None (ILoad 26 25 A_transport);
  mkStep 51%N None (ILoad 27 26 A_close);
  mkStep 51%N None (ICall 28 27 []);
  mkStep 52%N None (ILoad 29 0 A_protocol);
  mkStep 52%N None (ILoad 30 29 A_conn_lost_callback);
  mkStep 52%N None (ICall 31 30 []);
  mkStep 52%N None (ILabel 4)
].

(* ------------------------------------------------------------------ the job queue *)
(* collections.deque between SyncTasks.add_job (any thread) and Tasks.run_job (poll thread).
   ASSUMPTION: deque.append, deque.popleft and the truth test of a deque are atomic.
   run_job is check-then-pop: `if not self.queue: return None` / `job = self.queue.popleft()`;
   the poll thread sends the reply of a popped job before it pops the next one. *)

Inductive qop := QAppend | QTruth | QPopleft.

Inductive qev := QProd (p : nat) | QPump (i : nat).

Section Queue.
  Variable job : Type.

  Record qstate := mkQ {
    q_pending : list (list job);        (* per producer: jobs it has not appended yet *)
    q_queue : list (nat * job);         (* the deque (entries tagged with their producer) *)
    q_checked : list bool;              (* per pump: has seen the deque non-empty, popleft is next *)
    q_sent : list (nat * job);          (* jobs popped (run and sent) so far, in order *)
    q_appended : list (nat * job);      (* ghost: the append linearisation *)
    q_err : bool                        (* popleft on an empty deque happened (IndexError) *)
  }.

  Definition qinit (lists : list (list job)) (pumps : nat) : qstate :=
    mkQ lists [] (repeat false pumps) [] [] false.

  Fixpoint upd {A} (l : list A) (i : nat) (x : A) : list A :=
    match l, i with
    | [], _ => []
    | _ :: t, O => x :: t
    | y :: t, S i' => y :: upd t i' x
    end.

  Definition qstep (s : qstate) (e : qev) : qstate :=
    match e with
    | QProd p =>
        match nth_error (q_pending s) p with
        | Some (j :: r) =>
            mkQ (upd (q_pending s) p r) (q_queue s ++ [(p, j)]) (q_checked s) (q_sent s)
                (q_appended s ++ [(p, j)]) (q_err s)
        | _ => s
        end
    | QPump i =>
        match nth_error (q_checked s) i with
        | Some false =>   (* `if not self.queue: return None` *)
            match q_queue s with
            | [] => s
            | _ :: _ => mkQ (q_pending s) (q_queue s) (upd (q_checked s) i true) (q_sent s) (q_appended s) (q_err s)
            end
        | Some true =>    (* `job = self.queue.popleft()`; run; send *)
            match q_queue s with
            | [] => mkQ (q_pending s) [] (upd (q_checked s) i false) (q_sent s) (q_appended s) true
            | x :: r => mkQ (q_pending s) r (upd (q_checked s) i false) (q_sent s ++ [x]) (q_appended s) (q_err s)
            end
        | None => s
        end
    end.

  Definition qrun (evs : list qev) (s : qstate) : qstate := fold_left qstep evs s.

  (* the jobs of producer p inside a tagged sequence, in order *)
  Definition proj (p : nat) (l : list (nat * job)) : list job :=
    map snd (filter (fun x => Nat.eqb (fst x) p) l).
End Queue.
Arguments mkQ {job}.
Arguments q_pending {job}.
Arguments q_queue {job}.
Arguments q_checked {job}.
Arguments q_sent {job}.
Arguments q_appended {job}.
Arguments q_err {job}.
Arguments qinit {job}.
Arguments qstep {job}.
Arguments qrun {job}.
Arguments proj {job}.
