(* The subset of the intelhex library that ota.load_fw relies on:
     ih = IntelHex(); ih.fromfile(f, format="hex"); ih.tobinstr()
   i.e. IntelHex.loadhex/_decode_record (record types 00..05, checksum, length,
   address overlap, EOF record stops reading) and tobinstr() with default
   arguments (from the minimal to the maximal address, gaps padded with 0xFF).
   Every exception the library raises here is an IntelHexError (or a ValueError
   from the text layer), all of which load_fw turns into None: the model returns
   None for all of them.  Plus an encoder (ours, not intelhex's) used for the
   round-trip theorem and by the harness to write .hex files.  No proofs here. *)
From Coq Require Import List NArith ZArith Bool FMapPositive.
From PMS Require Import Base.PyStr Base.Exn Model.Hex.
Import ListNotations.
Open Scope N_scope.

Record ihrec := mkRec { r_addr : N; r_type : N; r_data : list N }.

Definition sum_bytes (b : list N) : N := fold_left N.add b 0.

(* ---- text layer: one record per line *)

(* iterating a text-mode file (universal newlines) and s.rstrip('\r\n'); empty
   lines are skipped by _decode_record, so cutting at every CR and every LF and
   dropping empty pieces is the same thing *)
Definition is_eol (c : N) : bool := (c =? 10) || (c =? 13).

Fixpoint split_eol (s : pstr) : list pstr :=
  match s with
  | [] => [[]]
  | c :: s' =>
      if is_eol c then [] :: split_eol s'
      else match split_eol s' with
           | h :: t => (c :: h) :: t
           | [] => [[c]]
           end
  end.

Definition nonempty (l : pstr) : bool := match l with [] => false | _ => true end.
Definition ihex_lines (text : pstr) : list pstr := filter nonempty (split_eol text).

(* _decode_record up to the checksum test; None = HexRecordError /
   RecordLengthError / RecordTypeError / RecordChecksumError *)
Definition decode_record (line : pstr) : option ihrec :=
  match line with
  | 58 :: rest =>
      match unhexlify rest with
      | Ok bin =>
          match bin with
          | len :: ah :: al :: ty :: tail =>
              if N.of_nat (List.length bin) <? 5 then None
              else if negb (N.of_nat (List.length bin) =? 5 + len) then None
              else if negb (ty <=? 5) then None
              else if negb (sum_bytes bin mod 256 =? 0) then None
              else Some (mkRec (ah * 256 + al) ty (firstn (N.to_nat len) tail))
          | _ => None
          end
      | Raise _ => None
      end
  | _ => None
  end.

(* ---- loader state: self._offset, self._buf, self.start_addr (set or not);
   lo/hi = minaddr()/maxaddr() of the buffer *)
Record ihstate := mkIh {
  ih_offset : N;
  ih_buf : PositiveMap.t N;
  ih_span : option (N * N);
  ih_start : bool }.

Definition ih_init : ihstate := mkIh 0 (PositiveMap.empty N) None false.

Definition ih_get (buf : PositiveMap.t N) (a : N) : option N := PositiveMap.find (N.succ_pos a) buf.
Definition ih_put (buf : PositiveMap.t N) (a : N) (x : N) : PositiveMap.t N := PositiveMap.add (N.succ_pos a) x buf.

Definition span_add (sp : option (N * N)) (a : N) : option (N * N) :=
  match sp with
  | None => Some (a, a)
  | Some (lo, hi) => Some (N.min lo a, N.max hi a)
  end.

(* data record: store byte by byte, AddressOverlapError on an occupied address *)
Fixpoint store_bytes (buf : PositiveMap.t N) (sp : option (N * N)) (a : N) (d : list N)
  : option (PositiveMap.t N * option (N * N)) :=
  match d with
  | [] => Some (buf, sp)
  | x :: r =>
      match ih_get buf a with
      | Some _ => None
      | None => store_bytes (ih_put buf a x) (span_add sp a) (a + 1) r
      end
  end.

Inductive ihstep := IhCont (s : ihstate) | IhEof (s : ihstate) | IhErr.

Definition be16 (d : list N) : N := match d with [h; l] => h * 256 + l | _ => 0 end.

Definition apply_record (s : ihstate) (r : ihrec) : ihstep :=
  let len := N.of_nat (List.length (r_data r)) in
  match r_type r with
  | 0 =>
      match store_bytes (ih_buf s) (ih_span s) (r_addr r + ih_offset s) (r_data r) with
      | Some (buf, sp) => IhCont (mkIh (ih_offset s) buf sp (ih_start s))
      | None => IhErr
      end
  | 1 => if len =? 0 then IhEof s else IhErr
  | 2 =>
      if negb (len =? 2) || negb (r_addr r =? 0) then IhErr
      else IhCont (mkIh (be16 (r_data r) * 16) (ih_buf s) (ih_span s) (ih_start s))
  | 4 =>
      if negb (len =? 2) || negb (r_addr r =? 0) then IhErr
      else IhCont (mkIh (be16 (r_data r) * 65536) (ih_buf s) (ih_span s) (ih_start s))
  | 3 | 5 =>
      if negb (len =? 4) || negb (r_addr r =? 0) then IhErr
      else if ih_start s then IhErr
      else IhCont (mkIh (ih_offset s) (ih_buf s) (ih_span s) true)
  | _ => IhErr
  end.

(* for s in fobj: decode(s)   -- stops at the EOF record, raises on the first bad line *)
Fixpoint load_lines (s : ihstate) (ls : list pstr) : option ihstate :=
  match ls with
  | [] => Some s
  | l :: r =>
      match decode_record l with
      | None => None
      | Some rc =>
          match apply_record s rc with
          | IhCont s' => load_lines s' r
          | IhEof s' => Some s'
          | IhErr => None
          end
      end
  end.

Fixpoint nrange (a : N) (n : nat) : list N :=
  match n with O => [] | S n' => a :: nrange (N.succ a) n' end.

(* tobinstr(): b"" for an empty buffer, else bytes minaddr..maxaddr, holes = 0xFF *)
Definition ih_tobin (s : ihstate) : list N :=
  match ih_span s with
  | None => []
  | Some (lo, hi) =>
      map (fun a => match ih_get (ih_buf s) a with Some x => x | None => 255 end)
          (nrange lo (N.to_nat (hi - lo + 1)))
  end.

(* load_fw on the decoded text of an existing readable file: None = error logged *)
Definition ihex_load (text : pstr) : option (list N) :=
  option_map ih_tobin (load_lines ih_init (ihex_lines text)).

(* ---- encoder *)
Definition checksum (b : list N) : N := (256 - sum_bytes b mod 256) mod 256.

Definition record_bytes (r : ihrec) : list N :=
  let body := N.of_nat (List.length (r_data r)) :: r_addr r / 256 :: r_addr r mod 256 :: r_type r :: r_data r in
  body ++ [checksum body].

Definition print_record (upper : bool) (r : ihrec) : pstr :=
  58 :: hexlify_gen upper (record_bytes r).

Definition ihex_print (upper : bool) (rs : list ihrec) : pstr :=
  concat (map (fun r => print_record upper r ++ [10]) rs).

(* contiguous image from address 0 in data records of n bytes; an extended
   linear address record (04) whenever the upper 16 address bits change *)
Fixpoint data_records (fuel n : nat) (off upper : N) (l : list N) : list ihrec :=
  match fuel with
  | O => []
  | S f =>
      match l with
      | [] => []
      | _ =>
          let u := off / 65536 in
          let pre := if u =? upper then [] else [mkRec 0 4 [u / 256; u mod 256]] in
          pre ++ mkRec (off mod 65536) 0 (firstn n l)
              :: data_records f n (off + N.of_nat n) u (skipn n l)
      end
  end.

Definition ihex_records (n : nat) (img : list N) : list ihrec :=
  data_records (List.length img) n 0 0 img ++ [mkRec 0 1 []].

Definition ihex_encode (upper : bool) (n : nat) (img : list N) : pstr :=
  ihex_print upper (ihex_records n img).
