(* mysensors/message.py Message.validate (lines 86-162) over the generated tables,
   and sensor.py ChildSensor.get_schema / validate. *)
From Coq Require Import List NArith ZArith Bool.
From PMS Require Import Base.PyStr Base.PyInt Model.Codec Model.Rules Model.TableTypes Gen.Tables.
Import ListNotations.
Open Scope Z_scope.

Section Validate.
  Variable orc_version : pstr -> bool.
  Variable orc_float : pstr -> fres.

  (* const.VALID_PAYLOADS.get(type, {}).get(sub_type, "") *)
  Definition payload_rule (t : vtab) (ty sub : Z) : rule :=
    match zassoc ty (vt_payloads t) with
    | Some d => match zassoc sub d with Some r => r | None => RLit [] end
    | None => RLit []
    end.

  (* const.VALID_MESSAGE_TYPES.get(type, []) *)
  Definition subtypes (t : vtab) (ty : Z) : list Z :=
    match zassoc ty (vt_mtypes t) with Some l => l | None => [] end.

  Definition node_ok (m : msg) : bool := (0 <=? m_node m) && (m_node m <=? broadcast_id).

  Definition child_ok (t : vtab) (m : msg) : bool :=
    if (m_type m =? vt_internal t) && zmem (m_sub m) [vt_id_request t; vt_id_response t] then true
    else if zmem (m_type m) [vt_internal t; vt_stream t] then zmem (m_child m) [system_child_id]
    else (0 <=? m_child m) && (m_child m <=? system_child_id).

  Definition type_ok (t : vtab) (m : msg) : bool :=
    if m_child m =? system_child_id
    then zmem (m_type m) [vt_presentation t; vt_internal t; vt_stream t]
    else zmem (m_type m) (map fst (vt_mtypes t)).

  Definition ack_ok (m : msg) : bool := zmem (m_ack m) [0; 1].

  Definition sub_ok (t : vtab) (m : msg) : bool := zmem (m_sub m) (subtypes t (m_type m)).

  Definition payload_ok (t : vtab) (m : msg) : bool :=
    accepts orc_version orc_float (payload_rule t (m_type m) (m_sub m)) (m_payload m).

  (* true = the schema accepts; false = voluptuous.Invalid *)
  Definition validate (t : vtab) (m : msg) : bool :=
    node_ok m && child_ok t m && type_ok t m && ack_ok m && sub_ok t m && payload_ok t m.

  (* ChildSensor.get_schema: None = KeyError (type or S_CUSTOM missing from the tables) *)
  Definition child_schema (t : vtab) (ctype : Z) : option (list (Z * rule)) :=
    match vt_s_custom t with
    | None => None
    | Some cu =>
        match zassoc cu (vt_valid_types t), zassoc ctype (vt_valid_types t) with
        | Some lc, Some lt =>
            (fix build (ks : list Z) : option (list (Z * rule)) :=
               match ks with
               | [] => Some []
               | k :: r => match zassoc k (vt_setreq t), build r with
                           | Some ru, Some rest => Some ((k, ru) :: rest)
                           | _, _ => None
                           end
               end) (lt ++ lc)   (* extend(): the type's own entries override the custom ones; same rule per key *)
        | _, _ => None
        end
    end.

  (* ChildSensor.validate(values): Some true = valid, Some false = Invalid, None = KeyError *)
  Definition child_validate (t : vtab) (ctype : Z) (values : list (Z * pstr)) : option bool :=
    match child_schema t ctype with
    | None => None
    | Some sch =>
        Some (forallb (fun kv => match zassoc (fst kv) sch with
                                 | Some r => accepts orc_version orc_float r (snd kv)
                                 | None => false   (* extra keys not allowed *)
                                 end) values)
    end.
End Validate.

Definition tab_of_index (i : nat) : vtab := nth i all_tabs tab_14.
