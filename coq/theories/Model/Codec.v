(* mysensors/message.py: Message.decode / encode / copy *)
From Coq Require Import List NArith ZArith Bool.
From PMS Require Import Base.PyStr Base.PyInt Base.Exn.
Import ListNotations.

Record msg := mkMsg {
  m_node : Z; m_child : Z; m_type : Z; m_ack : Z; m_sub : Z; m_payload : pstr }.

Definition semi : N := 59%N.
Definition nl : N := 10%N.

Fixpoint map_opt {A B} (f : A -> option B) (l : list A) : option (list B) :=
  match l with
  | [] => Some []
  | x :: r => match f x with
              | None => None
              | Some y => option_map (cons y) (map_opt f r)
              end
  end.

(* Message.decode: None = ValueError (the only class that can arise) *)
Definition decode (l : pstr) : option msg :=
  let fs := split semi (rstrip isspace l) in
  let p := last fs [] in
  match map_opt parse (removelast fs) with
  | Some [a; b; c; d; e] => Some (mkMsg a b c d e p)
  | _ => None
  end.

(* Message.encode with integer header fields (IntEnum members are their values) *)
Definition encode_with (delim : pstr) (m : msg) : pstr :=
  join delim [print (m_node m); print (m_child m); print (m_type m);
              print (m_ack m); print (m_sub m); m_payload m] ++ [nl].
Definition encode (m : msg) : pstr := encode_with [semi] m.

(* Message.copy with keyword replacements = Message(self.encode()) then setattr *)
Record repl := mkRepl {
  r_node : option Z; r_child : option Z; r_type : option Z;
  r_ack : option Z; r_sub : option Z; r_payload : option pstr }.
Definition no_repl := mkRepl None None None None None None.

Definition ov {A} (o : option A) (d : A) : A := match o with Some x => x | None => d end.
Definition override (m : msg) (r : repl) : msg :=
  mkMsg (ov (r_node r) (m_node m)) (ov (r_child r) (m_child m)) (ov (r_type r) (m_type m))
        (ov (r_ack r) (m_ack m)) (ov (r_sub r) (m_sub m)) (ov (r_payload r) (m_payload m)).

Definition copy (m : msg) (r : repl) : res msg :=
  match decode (encode m) with
  | Some m' => Ok (override m' r)
  | None => Raise ValueError
  end.

Definition msg_eqb (a b : msg) : bool :=
  Z.eqb (m_node a) (m_node b) && Z.eqb (m_child a) (m_child b) &&
  Z.eqb (m_type a) (m_type b) && Z.eqb (m_ack a) (m_ack b) &&
  Z.eqb (m_sub a) (m_sub b) && pstr_eqb (m_payload a) (m_payload b).

(* what the wire format can carry *)
Definition wire_ok (p : pstr) : bool := negb (mem_N semi p) && no_trailing isspace p.
