(* OTAFirmware of mysensors/ota.py, statement by statement: the firmware dict,
   the three node stores, _get_fw, respond_fw, respond_fw_config, make_update,
   and Tasks.update_fw (task.py).  What is outside: Sensor.reboot, the
   gateway's is_sensor gate in handle_stream (the set of known nodes is an
   argument), logging.  Dict iteration order of the stores is never observed by
   this code, so they are plain association lists.  No proofs here. *)
From Coq Require Import List NArith ZArith Bool.
From PMS Require Import Base.PyStr Base.PyInt Base.Exn Model.Hex Model.Ota Model.IntelHex.
Import ListNotations.
Open Scope Z_scope.

Definition fwkey := (Z * Z)%type.
Definition key_eqb (a b : fwkey) : bool := (fst a =? fst b) && (snd a =? snd b).

Definition fwdict := list (fwkey * fware).

Fixpoint fw_get (k : fwkey) (d : fwdict) : option fware :=
  match d with
  | [] => None
  | (k', f) :: r => if key_eqb k k' then Some f else fw_get k r
  end.

(* d[k] = f : replace in place or append *)
Fixpoint fw_set (k : fwkey) (f : fware) (d : fwdict) : fwdict :=
  match d with
  | [] => [(k, f)]
  | (k', f') :: r => if key_eqb k k' then (k', f) :: r else (k', f') :: fw_set k f r
  end.

Definition nstore := list (Z * fwkey).

Fixpoint ns_get (n : Z) (s : nstore) : option fwkey :=
  match s with
  | [] => None
  | (n', k) :: r => if n =? n' then Some k else ns_get n r
  end.

Fixpoint ns_del (n : Z) (s : nstore) : nstore :=
  match s with
  | [] => []
  | (n', k) :: r => if n =? n' then ns_del n r else (n', k) :: ns_del n r
  end.

Definition ns_set (n : Z) (k : fwkey) (s : nstore) : nstore := (n, k) :: ns_del n s.

Record otast := mkOta { o_fw : fwdict; o_req : nstore; o_uns : nstore; o_sta : nstore }.
Definition ota_init : otast := mkOta [] [] [] [].

(* the loop of _get_fw over updates = (a, b):
     fw_id = store.pop(node, None); if found: updates[-1][node] = fw_id; break *)
Definition get_fw_stores (n : Z) (a b : nstore) : option fwkey * nstore * nstore :=
  match ns_get n a with
  | Some k => (Some k, ns_del n a, ns_set n k b)
  | None =>
      match ns_get n b with
      | Some k => (Some k, a, ns_set n k b)
      | None => (None, a, b)
      end
  end.

(* except (ValueError, struct.error): binascii.Error is a ValueError *)
Definition request_caught (e : exn) : bool :=
  match e with ValueError | BinasciiError | StructError => true | _ => false end.

(* respond_fw(msg) for msg.node_id = n, msg.payload = p.
   Result: new state, and Ok None (no reply) / Ok (Some payload) / Raise. *)
Definition respond_fw (st : otast) (n : Z) (p : pstr) : otast * res (option pstr) :=
  match fw_hex_to_int p 3 with
  | Raise e => (st, if request_caught e then Ok None else Raise e)
  | Ok [rt; rv; blk] =>
      let '(k, uns, sta) := get_fw_stores n (o_uns st) (o_sta st) in
      let st' := mkOta (o_fw st) (o_req st) uns sta in
      match k with
      | None => (st', Ok None)
      | Some _ =>
          match fw_get (rt, rv) (o_fw st) with
          | None => (st', Ok None)
          | Some fw => (st', do r <- fw_response_payload rt rv blk fw; Ok (Some r))
          end
      end
  | Ok _ => (st, Ok None)   (* tuple unpacking ValueError, caught; unreachable *)
  end.

Definition respond_fw_config (st : otast) (n : Z) (p : pstr) : otast * res (option pstr) :=
  match fw_hex_to_int p 5 with
  | Raise e => (st, if request_caught e then Ok None else Raise e)
  | Ok [_; _; _; _; _] =>
      let '(k, req, uns) := get_fw_stores n (o_req st) (o_uns st) in
      let st' := mkOta (o_fw st) req uns (o_sta st) in
      match k with
      | None => (st', Ok None)
      | Some (t, v) =>
          match fw_get (t, v) (o_fw st) with
          | None => (st', Ok None)
          | Some fw => (st', do r <- fw_config_payload t v fw; Ok (Some r))
          end
      end
  | Ok _ => (st, Ok None)
  end.

(* make_update(nids, fw_type, fw_ver, fw_bin) with type / version given as int or str *)
Inductive fwarg := AInt (z : Z) | AStr (s : pstr).
Definition arg_int (a : fwarg) : option Z :=
  match a with AInt z => Some z | AStr s => parse s end.

Definition schedule (known : list Z) (k : fwkey) (st : otast) (n : Z) : otast :=
  if existsb (Z.eqb n) known
  then mkOta (o_fw st) (ns_set n k (o_req st)) (ns_del n (o_uns st)) (ns_del n (o_sta st))
  else st.

Definition make_update (known : list Z) (st : otast) (nids : list Z) (ta va : fwarg)
           (bin : option (list N)) : otast :=
  match arg_int ta with
  | None => st                                  (* ValueError caught: return *)
  | Some t =>
      match arg_int va with
      | None => st
      | Some v =>
          if negb (word_ok t) || negb (word_ok v) then st
          else
            let fwd := match bin with
                       | Some b => fw_set (t, v) (prepare_fw b) (o_fw st)
                       | None => o_fw st
                       end in
            let st1 := mkOta fwd (o_req st) (o_uns st) (o_sta st) in
            match fw_get (t, v) fwd with
            | None => st1
            | Some _ => fold_left (schedule known (t, v)) nids st1
            end
      end
  end.

(* Tasks.update_fw: fw_path given -> load_fw; "if not fw_bin: return" *)
Definition update_fw (known : list Z) (st : otast) (nids : list Z) (ta va : fwarg)
           (file : option pstr) : otast :=
  match file with
  | None => make_update known st nids ta va None
  | Some text =>
      match ihex_load text with
      | None => st
      | Some [] => st
      | Some b => make_update known st nids ta va (Some b)
      end
  end.
