(* mysensors/gateway_mqtt.py: parse_message_to_mqtt, parse_mqtt_to_message,
   MQTTTransport.send / recv / handle_subscription, BaseMQTTGateway.init_topics and
   _handle_presentation (with handler.handle_presentation, Gateway.add_sensor,
   Sensor.add_child_sensor over an abstract network state).
   Literals, slice bounds, f-string templates and except classes come from Gen/MqttConsts.v. *)
From Coq Require Import List NArith ZArith Bool.
From PMS Require Import Base.PyStr Base.PyInt Base.Exn Model.Codec Gen.MqttConsts.
Import ListNotations.
Open Scope N_scope.

Definition slash : N := 47.

(* ---- Python list/str indexing with integer literals (negative = from the end) ---- *)

(* position a slice bound k denotes in a sequence of length len (clamped) *)
Definition norm_idx (len : nat) (k : Z) : nat :=
  if Z.ltb k 0 then Z.to_nat (Z.of_nat len + k) else Nat.min (Z.to_nat k) len.
(* l[:k] *)
Definition slice_to {A} (l : list A) (k : Z) : list A := firstn (norm_idx (length l) k) l.
(* l[k:] *)
Definition slice_from {A} (l : list A) (k : Z) : list A := skipn (norm_idx (length l) k) l.

Fixpoint replace_nth {A} (n : nat) (l : list A) (v : A) : list A :=
  match l, n with
  | [], _ => []
  | _ :: r, O => v :: r
  | x :: r, S n' => x :: replace_nth n' r v
  end.

(* the position an index i denotes, None = IndexError *)
Definition item_pos (len : nat) (i : Z) : option nat :=
  let n := Z.of_nat len in
  let j := if Z.ltb i 0 then (i + n)%Z else i in
  if (Z.leb 0 j && Z.ltb j n)%bool then Some (Z.to_nat j) else None.
(* l[i] = v *)
Definition set_idx {A} (l : list A) (i : Z) (v : A) : res (list A) :=
  match item_pos (length l) i with
  | Some j => Ok (replace_nth j l v)
  | None => Raise IndexError
  end.
(* l[i] *)
Definition get_idx {A} (l : list A) (i : Z) : res A :=
  match item_pos (length l) i with
  | Some j => of_option IndexError (nth_error l j)
  | None => Raise IndexError
  end.

(* ---- parse_message_to_mqtt ---- *)

(* msg = Message(data, self)            -- decode, ValueError
   payload = str(msg.payload); msg.payload = ""
   return f"/{msg.encode('/')}"[:-2], payload, msg.ack *)
Definition to_mqtt (data : pstr) : res (pstr * pstr * Z) :=
  match decode data with
  | None => Raise ValueError
  | Some m =>
      let payload := m_payload m in
      let m' := mkMsg (m_node m) (m_child m) (m_type m) (m_ack m) (m_sub m) [] in
      Ok (slice_to (slash :: encode_with [slash] m') enc_trim, payload, m_ack m)
  end.

(* ---- parse_mqtt_to_message ---- *)

Definition ack_str (qos : Z) : pstr := if Z.ltb 0 qos then [49] else [48].

(* Ok None = returned None (topic not for us); Ok (Some line) = the command string *)
Definition from_mqtt (in_prefix topic payload : pstr) (qos : Z) : res (option pstr) :=
  let levels := split slash topic in
  if Z.ltb (Z.of_nat (length levels)) min_levels then Ok None else
  let prefix := join [slash] (slice_to levels slice_prefix) in
  let levels := slice_from levels slice_tail in
  if negb (pstr_eqb prefix in_prefix) then Ok None else
  do levels <- set_idx levels ack_index (ack_str qos);
  Ok (Some (join [semi] (levels ++ [payload]))).

(* ---- topic f-strings ---- *)

Definition render_part (n c t : Z) (p : part) : pstr :=
  match p with
  | PLit s => s
  | PNode => print n
  | PChild => print c
  | PType => print t
  | PConst z => print z
  end.
Fixpoint render (tm : list part) (n c t : Z) : pstr :=
  match tm with
  | [] => []
  | p :: r => render_part n c t p ++ render r n c t
  end.

(* ---- abstract network state: insertion ordered node -> child ids ---- *)

Definition net := list (Z * list Z).

Fixpoint mem_Z (x : Z) (l : list Z) : bool :=
  match l with [] => false | y :: r => Z.eqb x y || mem_Z x r end.

Definition has_node (st : net) (n : Z) : bool := mem_Z n (map fst st).

(* Gateway.add_sensor(sensorid) with an explicit id: always returns the id *)
Definition add_sensor (st : net) (n : Z) : net :=
  if has_node st n then st else st ++ [(n, [])].

(* is_sensor(node) and Sensor.add_child_sensor: None = handle_presentation returned None *)
Fixpoint add_child (st : net) (n c : Z) : option net :=
  match st with
  | [] => None
  | (n', cs) :: r =>
      if Z.eqb n' n then (if mem_Z c cs then None else Some ((n', cs ++ [c]) :: r))
      else option_map (cons (n', cs)) (add_child r n c)
  end.

(* handler.handle_presentation: new state, and whether it returned the message *)
Definition handle_presentation (st : net) (n c : Z) : net * bool :=
  if Z.eqb c system_child_id then (add_sensor st n, true)
  else match add_child st n c with
       | Some st' => (st', true)
       | None => (st, false)
       end.

Definition catch (caught : exn -> bool) (r : res unit) : res unit :=
  match r with
  | Raise e => if caught e then Ok tt else Raise e
  | Ok _ => r
  end.

Section Callbacks.
  (* the user's callbacks: they may raise; the subscribe callback additionally sees how
     many subscribe calls were made before (so it may fail on the k-th call only) *)
  Variable pub : pstr -> pstr -> Z -> bool -> res unit.
  Variable sub : nat -> pstr -> Z -> res unit.

  (* MQTTTransport.send(message); message None or "" is falsy.
     Result: the publish call that was attempted, if any *)
  Definition send (out_prefix : pstr) (retain : bool) (message : option pstr)
    : res (option (pstr * pstr * Z * bool)) :=
    match message with
    | None | Some [] => Ok None
    | Some data =>
        match to_mqtt data with
        | Raise e => if send_parse_caught e then Ok None else Raise e
        | Ok (topic, payload, qos) =>
            let topic := out_prefix ++ topic in
            do _ <- catch pub_caught (pub topic payload qos retain);
            Ok (Some (topic, payload, qos, retain))
        end
    end.

  (* MQTTTransport.recv: the line given to Gateway.logic through add_job, if any *)
  Definition recv (in_prefix topic payload : pstr) (qos : Z) : res (option pstr) :=
    from_mqtt in_prefix topic payload qos.

  (* MQTTTransport.handle_subscription(topics), k subscribe calls made before.
     Result: the (topic, qos) pairs handed to the subscribe callback *)
  Fixpoint handle_subscription (in_prefix : pstr) (k : nat) (topics : list pstr)
    : res (list (pstr * Z)) :=
    match topics with
    | [] => Ok []
    | t :: r =>
        let topic := in_prefix ++ t in
        let levels := split slash topic in
        (* try: qos = int(topic_levels[-2])  except ValueError: qos = 0 *)
        let rq := (do lv <- get_idx levels sub_qos_index; of_option ValueError (parse lv)) in
        do qos <- match rq with
                  | Ok z => Ok z
                  | Raise e => if sub_int_caught e then Ok 0%Z else Raise e
                  end;
        do _ <- catch sub_caught (sub k topic qos);
        do rest <- handle_subscription in_prefix (S k) r;
        Ok ((topic, qos) :: rest)
    end.

  Definition child_topics (tm : list part) (types : list Z) (n c : Z) : list pstr :=
    map (fun t => render tm n c t) types.

  (* BaseMQTTGateway.init_topics; pers = bool(self.tasks.persistence) *)
  Definition init_topics (in_prefix : pstr) (pers : bool) (st : net) (k : nat)
    : res (list (pstr * Z)) :=
    do s1 <- handle_subscription in_prefix k init_topic_literals;
    if negb pers then Ok s1 else
    let topics :=
      flat_map (fun nc => flat_map (fun c => child_topics init_child_tmpl init_child_types (fst nc) c)
                                   (snd nc)) st
      ++ map (fun nc => render init_node_tmpl (fst nc) 0 0) st in
    do s2 <- handle_subscription in_prefix (k + length s1) topics;
    Ok (s1 ++ s2).

  (* BaseMQTTGateway._handle_presentation(msg) for msg.node_id = n, msg.child_id = c *)
  Definition mqtt_handle_presentation (in_prefix : pstr) (st : net) (k : nat) (n c : Z)
    : res (net * list (pstr * Z)) :=
    let '(st', ret) := handle_presentation st n c in
    if (Z.eqb c pres_skip_child || negb ret)%bool then Ok (st', []) else
    let topics := child_topics pres_child_tmpl pres_child_types n c ++ [render pres_node_tmpl n c 0] in
    do s <- handle_subscription in_prefix k topics;
    Ok (st', s).

  (* histories *)
  Inductive op :=
  | AddNode (n : Z)            (* a node appears by other means (id request, user code) *)
  | Present (n c : Z).         (* a validated presentation message reaches the handler *)

  Record mstate := mkM { ms_net : net; ms_subs : list (pstr * Z) }.

  Definition step (in_prefix : pstr) (s : mstate) (o : op) : res mstate :=
    match o with
    | AddNode n => Ok (mkM (add_sensor (ms_net s) n) (ms_subs s))
    | Present n c =>
        do r <- mqtt_handle_presentation in_prefix (ms_net s) (length (ms_subs s)) n c;
        Ok (mkM (fst r) (ms_subs s ++ snd r))
    end.

  Fixpoint run_ops (in_prefix : pstr) (s : mstate) (ops : list op) : res mstate :=
    match ops with
    | [] => Ok s
    | o :: r => do s' <- step in_prefix s o; run_ops in_prefix s' r
    end.

  (* connect() = init_topics on the state restored so far, then the history *)
  Definition start (in_prefix : pstr) (pers : bool) (st0 : net) (ops : list op) : res mstate :=
    do s <- init_topics in_prefix pers st0 0;
    run_ops in_prefix (mkM st0 s) ops.
End Callbacks.
