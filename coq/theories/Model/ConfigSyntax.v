(* C18 - syntax of the generated constructor summaries (Gen/Signatures.v) and
   of the values that travel through constructor calls.  Types only. *)
From Coq Require Import List NArith ZArith Bool String.
From PMS Require Import Base.PyStr.
Import ListNotations.

(* Python values as far as constructor arguments need them.  Floats are
   carried as their repr(); callbacks, functions, classes, modules, bound
   methods and results of calls the interpreter does not look into are opaque
   tagged objects; VRef is an object allocated by the interpreter. *)
Inductive val :=
| VNone
| VBool (b : bool)
| VInt (z : Z)
| VStr (s : pstr)
| VFloat (repr : pstr)
| VObj (tag : pstr)
| VRef (n : nat)
| VPair (a b : val).

(* inspect.signature of an __init__ without its first parameter (self):
   positional-or-keyword parameters first, then keyword-only ones *)
Inductive pkind := PosOrKw | KwOnly.
Record param := mkParam { p_name : pstr; p_kind : pkind; p_default : option val }.
Record sig := mkSig { s_params : list param; s_star : option pstr; s_dstar : option pstr }.

(* AST summary of an __init__ body.  Every call argument in the library is an
   atom; the translator fails closed on anything else. *)
Inductive atom :=
| AName (n : pstr)        (* parameter or local variable *)
| ALit (v : val)          (* constant, or a global / method rendered opaque *)
| ASelf
| ASelfAttr (a : pstr).   (* self.a, an instance attribute *)

Inductive arg :=
| APos (a : atom)
| AStar (n : pstr)        (* *args *)
| AKw (k : pstr) (a : atom)
| ADStar (n : pstr).      (* **kwargs *)

Inductive fn := FSafeIsVersion | FGetConst.

Inductive rhs :=
| RAtom (a : atom)
| RPair (a b : atom)                 (* (a, b) *)
| RNew (c : pstr) (args : list arg)  (* instantiation of a class of the table *)
| RFun (f : fn) (a : atom)           (* safe_is_version(a) / get_const(a) *)
| ROpaque (tag : pstr).              (* anything else: an opaque object *)

Inductive stmt :=
| SSuper (args : list arg)           (* super().__init__(args) *)
| SSet (attr : pstr) (r : rhs)       (* self.attr = r *)
| SLet (n : pstr) (r : rhs)          (* n = r *)
| SIf (neg : bool) (c : atom) (th el : list stmt)   (* if [not] c: th else: el *)
| SSkip (tag : pstr).                (* statement without effect on the configuration *)

Record cdef := mkClass {
  c_name : pstr;
  c_mro : list pstr;                      (* cls.__mro__ without object *)
  c_init : option (sig * list stmt) }.    (* the class's own __init__, if it defines one *)

(* version tests as written in get_const / is_version / is_sensor *)
Inductive avop := OpLt | OpLe | OpGt | OpGe | OpEq | OpNe.
Inductive vside := VInput | VLoop | VLit (s : pstr).
Record vtest := mkVTest { vt_neg : bool; vt_op : avop; vt_l : vside; vt_r : vside }.
Inductive iter_order := SortedDesc | SortedAsc | InsertionOrder.
Inductive setter_kind := SetSafeIsVersion | SetIsVersion | SetRaw.
(* Gateway.alert: when is tasks.persistence.need_save set *)
Inductive dirty_kind := DirtyAlways | DirtyOnlyWithCallback | DirtyNever.

(* constructor calls found in README.md and the example scripts *)
Record example := mkExample {
  ex_file : pstr; ex_class : pstr; ex_npos : nat; ex_keywords : list pstr }.
