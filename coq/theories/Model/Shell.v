(* The command interpreter run by the extracted binary and by vm_compute. *)
From Coq Require Import List NArith ZArith Bool String.
From PMS Require Import Base.PyStr Base.PyInt Base.Exn Model.Codec Model.ShellBase Model.ShellValidate
  Model.Gateway Model.ShellGw.
Import ListNotations.
Open Scope N_scope.

Record shell_state := mkShell { sh_gs : gsession }.
Definition shell_init : shell_state := mkShell gs_init.

Definition first_some {A} (l : list (option A)) (d : A) : A :=
  fold_right (fun o acc => match o with Some x => x | None => acc end) d l.

Definition shell_step (st : shell_state) (line : pstr) : shell_state * pstr :=
  match tokens line with
  | cmd :: args =>
      if pstr_eqb cmd (s2p "reset") then (shell_init, s2p "ok")
      else match gw_cmd (sh_gs st) cmd args with
           | Some (gs', out) => (mkShell gs', out)
           | None => (st, first_some [codec_cmd cmd args; validate_cmd cmd args] bad)
           end
  | [] => (st, bad)
  end.

Fixpoint shell_run (st : shell_state) (lines : list pstr) : list pstr :=
  match lines with
  | [] => []
  | l :: r => let '(st', o) := shell_step st l in o :: shell_run st' r
  end.
