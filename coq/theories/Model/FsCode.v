(* The code under test as data: the generated programs of Gen/SaveTrace.v and the measured decoder
   failure classes of Gen/DamageClasses.v, per file format; plus the mutated variants of the save
   program used by the sensitivity examples of C12. *)
From Coq Require Import List Bool Arith NArith.
From PMS Require Import Base.PyStr Spec.AbstractFs Model.FsSave Gen.SaveTrace Gen.DamageClasses.
Import ListNotations.

Inductive fmt := Json | Pickle.

Definition mro_tab : list (cls * list cls) := damage_mro ++ class_mro.

Definition save_prog_of (f : fmt) : list sinstr :=
  match f with Json => save_prog_json | Pickle => save_prog_pickle end.

Definition code (f : fmt) : progs := mkP (save_prog_of f) load_prog safe_load_prog mro_tab.

Definition damage_of (f : fmt) : list cls :=
  match f with Json => damage_classes_json | Pickle => damage_classes_pickle end.

Definition with_save (P : progs) (s : list sinstr) : progs := mkP s (p_load P) (p_sl P) (p_tab P).

(* variant: the os.fsync call dropped *)
Definition drop_fsync (s : list sinstr) : list sinstr :=
  filter (fun i => match i_op i with IFsync => false | _ => true end) s.

(* variant: the two renames in the other order *)
Fixpoint swap_renames (s : list sinstr) : list sinstr :=
  match s with
  | a :: r =>
      match r with
      | b :: r' =>
          match i_op a, i_op b with
          | IRename _ _, IRename _ _ => b :: a :: r'
          | _, _ => a :: swap_renames r
          end
      | [] => s
      end
  | [] => []
  end.
