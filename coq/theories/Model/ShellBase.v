(* Text protocol helpers for the extracted model runner: all parsing and
   printing is done in Gallina so that the OCaml driver is a dumb byte pump and
   the very same commands can be evaluated inside Coq with vm_compute. *)
From Coq Require Import List NArith ZArith Bool String.
From PMS Require Import Base.PyStr Base.PyInt Base.Exn Model.Codec.
Import ListNotations.
Open Scope N_scope.

Definition tokens (line : pstr) : list pstr := split 32 line.

Definition tok_Z (t : pstr) : option Z := parse t.
Definition tok_N (t : pstr) : option N :=
  match parse t with Some z => if Z.ltb z 0 then None else Some (Z.to_N z) | None => None end.

(* string token: 's' followed by comma separated code points *)
Definition tok_str (t : pstr) : option pstr :=
  match t with
  | 115 :: [] => Some []
  | 115 :: r => map_opt tok_N (split 44 r)
  | _ => None
  end.

Definition out_Z (z : Z) : pstr := print z.
Definition out_N (n : N) : pstr := print (Z.of_N n).
Definition out_str (s : pstr) : pstr := 115 :: join [44] (map out_N s).
Definition out_bool (b : bool) : pstr := if b then [49] else [48].
Definition sp (l : list pstr) : pstr := join [32] l.

Definition exn_name (e : exn) : pstr :=
  s2p match e with
  | ValueError => "ValueError" | KeyError => "KeyError" | IndexError => "IndexError"
  | AttributeError => "AttributeError" | TypeError => "TypeError"
  | StructError => "StructError" | BinasciiError => "BinasciiError"
  | VolInvalid => "VolInvalid" | OSError => "OSError" | EOFError => "EOFError"
  | UnpicklingError => "UnpicklingError" | RuntimeError => "RuntimeError"
  | OtherError => "OtherError"
  end%string.

Definition out_msg (m : msg) : pstr :=
  sp [out_Z (m_node m); out_Z (m_child m); out_Z (m_type m); out_Z (m_ack m);
      out_Z (m_sub m); out_str (m_payload m)].

Definition tok_msg (ts : list pstr) : option (msg * list pstr) :=
  match ts with
  | a :: b :: c :: d :: e :: p :: rest =>
      match tok_Z a, tok_Z b, tok_Z c, tok_Z d, tok_Z e, tok_str p with
      | Some a, Some b, Some c, Some d, Some e, Some p => Some (mkMsg a b c d e p, rest)
      | _, _, _, _, _, _ => None
      end
  | _ => None
  end.

Definition tok_optZ (t : pstr) : option (option Z) :=
  match t with [45; 45] => Some None | _ => option_map Some (tok_Z t) end.
Definition tok_optstr (t : pstr) : option (option pstr) :=
  match t with [45; 45] => Some None | _ => option_map Some (tok_str t) end.

Definition bad : pstr := s2p "BAD".

Definition codec_cmd (cmd : pstr) (args : list pstr) : option pstr :=
  if pstr_eqb cmd (s2p "decode") then
    match args with
    | [t] => match tok_str t with
             | Some l => Some match decode l with
                              | Some m => sp [s2p "ok"; out_msg m]
                              | None => sp [s2p "err"; exn_name ValueError]
                              end
             | None => Some bad
             end
    | _ => Some bad
    end
  else if pstr_eqb cmd (s2p "encode") then
    match tok_msg args with
    | Some (m, []) => Some (out_str (encode m))
    | _ => Some bad
    end
  else if pstr_eqb cmd (s2p "copy") then
    match tok_msg args with
    | Some (m, [a; b; c; d; e; p]) =>
        match tok_optZ a, tok_optZ b, tok_optZ c, tok_optZ d, tok_optZ e, tok_optstr p with
        | Some a, Some b, Some c, Some d, Some e, Some p =>
            Some match copy m (mkRepl a b c d e p) with
                 | Ok m' => sp [s2p "ok"; out_msg m']
                 | Raise x => sp [s2p "err"; exn_name x]
                 end
        | _, _, _, _, _, _ => Some bad
        end
    | _ => Some bad
    end
  else if pstr_eqb cmd (s2p "int") then
    match args with
    | [t] => match tok_str t with
             | Some s => Some match parse s with
                              | Some z => sp [s2p "ok"; out_Z z]
                              | None => sp [s2p "err"; exn_name ValueError]
                              end
             | None => Some bad
             end
    | _ => Some bad
    end
  else None.
