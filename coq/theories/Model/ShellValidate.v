From Coq Require Import List NArith ZArith Bool String.
From PMS Require Import Base.PyStr Base.PyInt Base.Exn Model.Codec Model.Rules Model.TableTypes
  Gen.Tables Model.Validate Spec.SerialApi Model.ShellBase Model.Oracles.
Import ListNotations.

Definition ver_of_index (i : N) : ver :=
  match i with 0 => V14 | 1 => V15 | 2 => V20 | 3 => V21 | _ => V22 end%N.

Fixpoint tok_kvs (ts : list pstr) : option (list (Z * pstr)) :=
  match ts with
  | [] => Some []
  | k :: v :: r => match tok_Z k, tok_str v, tok_kvs r with
                   | Some k, Some v, Some rest => Some ((k, v) :: rest)
                   | _, _, _ => None
                   end
  | _ => None
  end.

Definition validate_cmd (cmd : pstr) (args : list pstr) : option pstr :=
  if pstr_eqb cmd (s2p "validate") || pstr_eqb cmd (s2p "spec") then
    Some match with_oracles args with
    | Some (i :: rest, o) =>
        match tok_N i, tok_msg rest with
        | Some i, Some (m, []) =>
            if pstr_eqb cmd (s2p "validate")
            then out_bool (validate (orc_version o) (orc_float o) (tab_of_index (N.to_nat i)) m)
            else out_bool (spec_accepts (orc_version o) (orc_float o) (ver_of_index i)
                             (m_node m) (m_child m) (m_type m) (m_ack m) (m_sub m) (m_payload m))
        | _, _ => bad
        end
    | _ => bad
    end
  else if pstr_eqb cmd (s2p "childval") then
    Some match with_oracles args with
    | Some (i :: ct :: rest, o) =>
        match tok_N i, tok_Z ct, tok_kvs rest with
        | Some i, Some ct, Some kvs =>
            match child_validate (orc_version o) (orc_float o) (tab_of_index (N.to_nat i)) ct kvs with
            | Some b => sp [s2p "ok"; out_bool b]
            | None => s2p "keyerror"
            end
        | _, _, _ => bad
        end
    | _ => bad
    end
  else None.
