(* C19 part 1 - framing.  Transcription of pyserial's
     serial.threaded.Packetizer.data_received   (buffer.extend(data);
                                                 while TERMINATOR in buffer:
                                                     packet, buffer = buffer.split(TERMINATOR, 1)
                                                     handle_packet(packet))
     serial.threaded.LineReader.handle_packet   (handle_line(packet.decode(ENCODING, UNICODE_HANDLING)))
   as inherited by mysensors.transport.BaseMySensorsProtocol (TERMINATOR = b"\n",
   one byte; the translator framing_consts.py fails closed on any other length).
   Python bytes = list N.  The decoder is an oracle `dec`: the theorems are
   about WHERE it is applied (once per complete packet), not about UTF-8. *)
From Coq Require Import List NArith Bool.
From PMS Require Import Base.PyStr.
Import ListNotations.
Open Scope N_scope.

Definition bytes := list N.

(* buffer.split(T, 1) for a one-byte T: Some (before, after) at the first
   occurrence; None when T does not occur (Python: a one element list, the tuple
   assignment would raise - unreachable behind the `in` test) *)
Fixpoint split1 (t : N) (buf : bytes) : option (bytes * bytes) :=
  match buf with
  | [] => None
  | c :: r =>
      if N.eqb c t then Some ([], r)
      else match split1 t r with
           | Some (p, rest) => Some (c :: p, rest)
           | None => None
           end
  end.

Section Framing.
  Variable t : N.                 (* TERMINATOR[0] *)
  Variable dec : bytes -> pstr.   (* packet.decode('utf-8', 'replace') *)

  Record proto := mkProto { p_buffer : bytes }.
  Definition proto_init : proto := mkProto [].

  (* the while loop; `out` collects the arguments of handle_line in call order.
     fuel: every iteration removes at least the terminator from the buffer, so
     S (length buf) iterations always suffice (recv_loop_spec) *)
  Fixpoint recv_loop (fuel : nat) (buf : bytes) (out : list pstr) : bytes * list pstr :=
    match fuel with
    | O => (buf, out)
    | S f =>
        if mem_N t buf then                       (* while TERMINATOR in self.buffer *)
          match split1 t buf with                 (* packet, self.buffer = self.buffer.split(T, 1) *)
          | Some (packet, rest) => recv_loop f rest (out ++ [dec packet])   (* handle_packet(packet) *)
          | None => (buf, out)
          end
        else (buf, out)
    end.

  Definition data_received (p : proto) (data : bytes) : proto * list pstr :=
    let buf := p_buffer p ++ data in              (* self.buffer.extend(data) *)
    let '(buf', out) := recv_loop (S (length buf)) buf [] in
    (mkProto buf', out).

  (* a sequence of data_received calls; the delivered lines concatenated *)
  Fixpoint feed (p : proto) (cs : list bytes) : proto * list pstr :=
    match cs with
    | [] => (p, [])
    | c :: r => let '(p1, o1) := data_received p c in
                let '(p2, o2) := feed p1 r in (p2, o1 ++ o2)
    end.
End Framing.

(* specification side: the complete T-terminated lines of a byte stream and the
   unterminated tail, by bytes.split(T) (Base.PyStr.split has the same semantics) *)
Definition complete_lines (t : N) (s : bytes) : list bytes := removelast (split t s).
Definition tail_of (t : N) (s : bytes) : bytes := last (split t s) [].

(* TCPTransport.run: data = sock.recv(n) until the stream is exhausted, when
   every recv returns as much as it may *)
Fixpoint chunks_fuel (fuel n : nat) (s : bytes) : list bytes :=
  match fuel with
  | O => []
  | S f => match s with
           | [] => []
           | _ => firstn n s :: chunks_fuel f n (skipn n s)
           end
  end.
Definition chunks_of (n : nat) (s : bytes) : list bytes := chunks_fuel (length s) n s.

Definition cr : N := 13.
