(* C20 - the TCP watchdog: BaseTCPGateway.check_connection / _handle_i_version
   (mysensors/gateway_tcp.py) on a simulated clock.

   Time is Z in clock ticks (the harness uses 1/1024 s so that every instant is an
   exact binary64 number; nothing in the model depends on the unit).

     def check_connection(self):
         if (self.tcp_disconnect_timer + 2 * rt) < time.time():     -> WdDrop
             self.tcp_disconnect_timer = time.time()
             raise OSError(...)
         if (self.tcp_check_timer + rt) >= time.time():             -> WdIdle
             return
         self.tasks.add_job(msg.encode)   # I_VERSION request       -> WdProbe
         self.tcp_check_timer = time.time()

     def _handle_i_version(self, msg):
         self.tcp_disconnect_timer = time.time()

   The factor 2 is Gen.SupConsts.wd_factor (read from the source on every run);
   whether _handle_i_version resets the timer is Gen.SupConsts.wd_reset_on_answer. *)
From Coq Require Import List ZArith Bool.
From PMS Require Import Gen.SupConsts.
Import ListNotations.
Open Scope Z_scope.

Inductive wd_res := WdDrop | WdProbe | WdIdle.

Definition wd_check (rt check disc now : Z) : wd_res :=
  if disc + wd_factor * rt <? now then WdDrop
  else if now <=? check + rt then WdIdle
  else WdProbe.

(* the two timers *)
Record wd := mkWd { w_check : Z; w_disc : Z }.

(* a schedule: the instants at which check_connection runs (WPoll: every pass of
   TCPTransport.run's loop / every call_later firing) and at which an I_VERSION
   answer is processed by Gateway.logic (WAnswer) *)
Inductive wev := WPoll (t : Z) | WAnswer (t : Z).

Definition wev_time (e : wev) : Z := match e with WPoll t => t | WAnswer t => t end.

Definition wd_step (rt : Z) (w : wd) (e : wev) : wd * wd_res :=
  match e with
  | WPoll t =>
      match wd_check rt (w_check w) (w_disc w) t with
      | WdDrop => (mkWd (w_check w) t, WdDrop)
      | WdProbe => (mkWd t (w_disc w), WdProbe)
      | WdIdle => (w, WdIdle)
      end
  | WAnswer t => (if wd_reset_on_answer then mkWd (w_check w) t else w, WdIdle)
  end.

(* on connect both timers are set to the connect instant c *)
Definition wd_init (c : Z) : wd := mkWd c c.

(* the run stops at the first drop (the link is closed there) *)
Fixpoint wd_run (rt : Z) (w : wd) (es : list wev) : list wd_res :=
  match es with
  | [] => []
  | e :: r => let '(w', o) := wd_step rt w e in
              match o with WdDrop => [WdDrop] | _ => o :: wd_run rt w' r end
  end.

Definition is_drop (o : wd_res) : bool := match o with WdDrop => true | _ => false end.
Definition dropped (rt c : Z) (es : list wev) : bool := existsb is_drop (wd_run rt (wd_init c) es).

(* --- schedule predicates used by the theorems (all decidable) ---------------

   [timely rt lat delta w last t0 es]: from timers w, last poll at [last], clock at t0:
     * instants never go backwards,
     * consecutive polls are at most delta apart,
     * while a probe is outstanding (disc < check) nothing happens later than
       check + lat: its answer is processed within lat of the probe. *)
Fixpoint timely (rt lat delta : Z) (w : wd) (last t0 : Z) (es : list wev) : bool :=
  match es with
  | [] => true
  | e :: r =>
      let t := wev_time e in
      (t0 <=? t)
      && (if w_disc w <? w_check w then t <=? w_check w + lat else true)
      && match e with
         | WPoll _ => (t <=? last + delta) && timely rt lat delta (fst (wd_step rt w e)) t t r
         | WAnswer _ => timely rt lat delta (fst (wd_step rt w e)) last t r
         end
  end.

(* a polls-only schedule, at most delta apart *)
Fixpoint dense (delta last : Z) (ps : list Z) : bool :=
  match ps with
  | [] => true
  | t :: r => (last <=? t) && (t <=? last + delta) && dense delta t r
  end.

(* first drop instant of a polls-only schedule *)
Fixpoint first_drop (rt : Z) (w : wd) (ps : list Z) : option Z :=
  match ps with
  | [] => None
  | t :: r => let '(w', o) := wd_step rt w (WPoll t) in
              match o with WdDrop => Some t | _ => first_drop rt w' r end
  end.

(* the asyncio chain: check_connection re-arms itself with call_later(rt + slack):
   polls at c + k*(rt+slack), k = 1.. ; answers in between.  [aperiodic q t es]:
   every WPoll in es is exactly q after the previous one (previous = t). *)
Fixpoint periodic (q last t0 : Z) (es : list wev) : bool :=
  match es with
  | [] => true
  | WPoll t :: r => (t =? last + q) && (t0 <=? t) && periodic q t t r
  | WAnswer t :: r => (t0 <=? t) && (t <=? last + q) && periodic q last t r
  end.

(* every probe is answered before the next poll ([pending]: the last poll probed and no
   answer has been processed since) *)
Fixpoint answered_each (rt : Z) (w : wd) (pending : bool) (es : list wev) : bool :=
  match es with
  | [] => true
  | e :: r =>
      let '(w', o) := wd_step rt w e in
      match e with
      | WPoll _ => negb pending && answered_each rt w' (match o with WdProbe => true | _ => false end) r
      | WAnswer _ => answered_each rt w' false r
      end
  end.

(* the instants last+q, last+2q, ... (k of them) *)
Fixpoint chain (q last : Z) (k : nat) : list Z :=
  match k with O => [] | S k' => (last + q) :: chain q (last + q) k' end.
