(* Command interpreter of the MQTT model (runner tag "Mqtt").
   Stateless:  tomqtt <data> | frommqtt <pfx> <topic> <payload> <qos>
               send <out_prefix> <retain 0/1> <data|--> <c>      c: '.' callback returns, letter = raises
               hsub <pfx> <k> r<spec> <topic>*                  spec: i-th char = behaviour of the i-th subscribe call
   Stateful:   net <n> <c>*          append a restored node with its children
               init <pfx> <pers 0/1> r<spec>   init_topics on the restored state
               op N <n> | op P <n> <c>          history step
               state                            dump the network state *)
From Coq Require Import List NArith ZArith Bool String.
From PMS Require Import Base.PyStr Base.PyInt Base.Exn Model.Codec Model.ShellBase Model.Mqtt.
Import ListNotations.
Open Scope N_scope.

Record shell_state := mkShell { sh_net : net; sh_pfx : pstr; sh_spec : pstr; sh_k : nat }.
Definition shell_init : shell_state := mkShell [] [] [] 0%nat.

Definition exn_of_char (c : N) : option exn :=
  match c with
  | 86 => Some ValueError | 75 => Some KeyError | 73 => Some IndexError
  | 65 => Some AttributeError | 84 => Some TypeError | 83 => Some StructError
  | 66 => Some BinasciiError | 76 => Some VolInvalid | 79 => Some OSError
  | 69 => Some EOFError | 85 => Some UnpicklingError | 82 => Some RuntimeError
  | 88 => Some OtherError
  | _ => None
  end.

Definition behave (c : N) : res unit :=
  match exn_of_char c with Some e => Raise e | None => Ok tt end.

Definition sub_of_spec (spec : pstr) (k : nat) (_ : pstr) (_ : Z) : res unit :=
  behave (nth k spec 46).
Definition pub_of_char (c : N) (_ _ : pstr) (_ : Z) (_ : bool) : res unit := behave c.

Definition tok_spec (t : pstr) : option pstr :=
  match t with 114 :: r => Some r | _ => None end.
Definition tok_bool (t : pstr) : option bool :=
  match t with [48] => Some false | [49] => Some true | _ => None end.

Definition out_subs (l : list (pstr * Z)) : pstr :=
  sp (s2p "ok" :: flat_map (fun tq => [out_str (fst tq); out_Z (snd tq)]) l).
Definition out_err (e : exn) : pstr := sp [s2p "err"; exn_name e].

Definition out_net (st : net) : pstr :=
  sp (s2p "net" :: map (fun nc => out_Z (fst nc) ++ [58] ++ join [44] (map out_Z (snd nc))) st).

Definition stateless (cmd : pstr) (args : list pstr) : option pstr :=
  if pstr_eqb cmd (s2p "tomqtt") then
    match map_opt tok_str args with
    | Some [d] => Some match to_mqtt d with
                       | Ok (t, p, q) => sp [s2p "ok"; out_str t; out_str p; out_Z q]
                       | Raise e => out_err e
                       end
    | _ => Some bad
    end
  else if pstr_eqb cmd (s2p "frommqtt") then
    match args with
    | [a; b; c; d] =>
        match tok_str a, tok_str b, tok_str c, tok_Z d with
        | Some pfx, Some t, Some p, Some q =>
            Some match from_mqtt pfx t p q with
                 | Ok (Some l) => sp [s2p "ok"; out_str l]
                 | Ok None => s2p "none"
                 | Raise e => out_err e
                 end
        | _, _, _, _ => Some bad
        end
    | _ => Some bad
    end
  else if pstr_eqb cmd (s2p "send") then
    match args with
    | [a; b; c; [d]] =>
        match tok_str a, tok_bool b, tok_optstr c with
        | Some pfx, Some rt, Some m =>
            Some match send (pub_of_char d) pfx rt m with
                 | Ok None => s2p "none"
                 | Ok (Some (t, p, q, r)) => sp [s2p "pub"; out_str t; out_str p; out_Z q; out_bool r]
                 | Raise e => out_err e
                 end
        | _, _, _ => Some bad
        end
    | _ => Some bad
    end
  else if pstr_eqb cmd (s2p "hsub") then
    match args with
    | a :: b :: c :: ts =>
        match tok_str a, tok_N b, tok_spec c, map_opt tok_str ts with
        | Some pfx, Some k, Some spec, Some topics =>
            Some match handle_subscription (sub_of_spec spec) pfx (N.to_nat k) topics with
                 | Ok l => out_subs l
                 | Raise e => out_err e
                 end
        | _, _, _, _ => Some bad
        end
    | _ => Some bad
    end
  else None.

Definition stateful (st : shell_state) (cmd : pstr) (args : list pstr) : shell_state * pstr :=
  if pstr_eqb cmd (s2p "net") then
    match map_opt tok_Z args with
    | Some (n :: cs) => (mkShell (sh_net st ++ [(n, cs)]) (sh_pfx st) (sh_spec st) (sh_k st), s2p "ok")
    | _ => (st, bad)
    end
  else if pstr_eqb cmd (s2p "init") then
    match args with
    | [a; b; c] =>
        match tok_str a, tok_bool b, tok_spec c with
        | Some pfx, Some pers, Some spec =>
            match init_topics (sub_of_spec spec) pfx pers (sh_net st) 0 with
            | Ok l => (mkShell (sh_net st) pfx spec (List.length l), out_subs l)
            | Raise e => (mkShell (sh_net st) pfx spec 0, out_err e)
            end
        | _, _, _ => (st, bad)
        end
    | _ => (st, bad)
    end
  else if pstr_eqb cmd (s2p "op") then
    match args with
    | [[78]; a] =>
        match tok_Z a with
        | Some n => (mkShell (add_sensor (sh_net st) n) (sh_pfx st) (sh_spec st) (sh_k st), s2p "ok")
        | None => (st, bad)
        end
    | [[80]; a; b] =>
        match tok_Z a, tok_Z b with
        | Some n, Some c =>
            match mqtt_handle_presentation (sub_of_spec (sh_spec st)) (sh_pfx st) (sh_net st) (sh_k st) n c with
            | Ok (st', l) => (mkShell st' (sh_pfx st) (sh_spec st) (sh_k st + List.length l), out_subs l)
            | Raise e => (st, out_err e)
            end
        | _, _ => (st, bad)
        end
    | _ => (st, bad)
    end
  else if pstr_eqb cmd (s2p "state") then (st, out_net (sh_net st))
  else (st, bad).

Definition shell_step (st : shell_state) (line : pstr) : shell_state * pstr :=
  match tokens line with
  | cmd :: args =>
      if pstr_eqb cmd (s2p "reset") then (shell_init, s2p "ok")
      else match stateless cmd args with
           | Some o => (st, o)
           | None => stateful st cmd args
           end
  | [] => (st, bad)
  end.

Fixpoint shell_run (st : shell_state) (lines : list pstr) : list pstr :=
  match lines with
  | [] => []
  | l :: r => let '(st', o) := shell_step st l in o :: shell_run st' r
  end.
