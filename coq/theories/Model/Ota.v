(* mysensors/ota.py without file reading and without the session stores:
   compute_crc, prepare_fw, the block slice and the two response payloads.
   Bytes are list N (< 256).  No proofs here. *)
From Coq Require Import List NArith ZArith Bool.
From PMS Require Import Base.PyStr Base.Exn Model.Hex.
Import ListNotations.
Open Scope N_scope.

(* FIRMWARE_BLOCK_SIZE and the page literal of prepare_fw; Props/C09.v checks
   them against Gen/OtaConsts.v (read from the AST of ota.py on every run). *)
Definition fw_block_size : Z := 16.
Definition fw_page_size : nat := 128.
Definition fw_pad_byte : N := 255.

Record fware := mkFware { fw_blocks : Z; fw_crc : Z; fw_data : list N }.

(* crcmod.predefined.Crc("modbus"): CRC-16, reflected polynomial 0xA001,
   init 0xFFFF, no final xor; here bit-serial, no table. *)
Definition crc_bit (c : N) : N :=
  if N.odd c then N.lxor (N.div2 c) 40961 else N.div2 c.
Definition crc_byte (c b : N) : N := Nat.iter 8 crc_bit (N.lxor c b).
Definition crc16_modbus (b : list N) : Z := Z.of_N (fold_left crc_byte b 65535).

(* prepare_fw:
     pads = len(bin_string) % 128
     for _ in range(128 - pads): bin_string += b"\xff"
     {"blocks": int(len(bin_string) / FIRMWARE_BLOCK_SIZE), "crc": compute_crc(bin_string), "data": bin_string}
   (len/16 is a float division in Python; exact below 2^53 bytes) *)
Definition prepare_fw (img : list N) : fware :=
  let pads := Nat.modulo (List.length img) fw_page_size in
  let data := Nat.iter (fw_page_size - pads) (fun d => d ++ [fw_pad_byte]) img in
  mkFware (Z.of_nat (List.length data) / fw_block_size)%Z (crc16_modbus data) data.

(* Python slice l[a:b] for arbitrary ints a, b (step 1) *)
Definition py_slice_index (len i : Z) : Z :=
  (if i <? 0 then Z.max 0 (len + i) else Z.min len i)%Z.
Definition py_slice {A} (l : list A) (a b : Z) : list A :=
  let len := Z.of_nat (List.length l) in
  let a' := py_slice_index len a in
  let b' := py_slice_index len b in
  firstn (Z.to_nat (b' - a')) (skipn (Z.to_nat a') l).

(* fware["data"][blk*16 : blk*16 + 16] *)
Definition fw_block (data : list N) (blk : Z) : list N :=
  py_slice data (blk * fw_block_size)%Z (blk * fw_block_size + fw_block_size)%Z.

(* respond_fw: fw_int_to_hex(fw_type, fw_ver, req_blk) + hexlify(blk_data) *)
Definition fw_response_payload (t v blk : Z) (fw : fware) : res pstr :=
  do h <- fw_int_to_hex [t; v; blk];
  Ok (h ++ hexlify (fw_block (fw_data fw) blk)).

(* respond_fw_config: fw_int_to_hex(fw_type, fw_ver, fware["blocks"], fware["crc"]) *)
Definition fw_config_payload (t v : Z) (fw : fware) : res pstr :=
  fw_int_to_hex [t; v; fw_blocks fw; fw_crc fw].
