(* Command interpreter of the C20 model runner (extracted; also evaluated by vm_compute).

   run <sser|stcp|aser|atcp> <rt> <slack> <event>...
       events: ok fail rerr werr pclose preset udisc stop ans send t<dt>
       answer: one token per event  <now>/<tp><conn><ct>/<outputs>
               ct: I | D | S<until>;  outputs joined by ',' (or '-'):
               M  L0|L1 (exc?)  A<time>  W  C  S<d>
   wd <rt> <c> <p<t>|a<t>>...
       answer: one token per processed event (the run ends at the first drop): d | p | n *)
From Coq Require Import List NArith ZArith Bool String.
From PMS Require Import Base.PyStr Base.PyInt Base.Exn Model.Codec Model.ShellBase
  Gen.SupConsts Model.Watchdog Model.Supervise.
Import ListNotations.
Open Scope N_scope.

Record shell_state := mkShell { sh_unit : unit }.
Definition shell_init : shell_state := mkShell tt.

Definition is (t : pstr) (s : string) : bool := pstr_eqb t (s2p s).

Definition tok_flavour (t : pstr) : option flavour :=
  if is t "sser" then Some SyncSerial else if is t "stcp" then Some SyncTcp
  else if is t "aser" then Some AsyncSerial else if is t "atcp" then Some AsyncTcp else None.

Definition tok_event (t : pstr) : option event :=
  if is t "ok" then Some AttemptOk else if is t "fail" then Some AttemptFail
  else if is t "rerr" then Some ReadError else if is t "werr" then Some WriteError
  else if is t "pclose" then Some PeerClose else if is t "preset" then Some PeerReset
  else if is t "udisc" then Some UserDisconnect else if is t "stop" then Some Stop
  else if is t "ans" then Some ProbeAnswered else if is t "send" then Some Send
  else match t with
       | 116 :: r => option_map Tick (tok_Z r)
       | _ => None
       end.

Definition out_output (o : output) : pstr :=
  match o with
  | MadeCb => s2p "M"
  | LostCb false => s2p "L0"
  | LostCb true => s2p "L1"
  | Attempt t => s2p "A" ++ out_Z t
  | Write => s2p "W"
  | Close => s2p "C"
  | Sleep d => s2p "S" ++ out_Z d
  end.

Definition out_ct (c : ctask) : pstr :=
  match c with CIdle => s2p "I" | CDialing => s2p "D" | CSleeping u => s2p "S" ++ out_Z u end.

Definition out_obs (x : st * list output) : pstr :=
  let '(s, o) := x in
  out_Z (now s) ++ [47] ++ out_bool (tp s) ++ out_bool (conn s) ++ out_ct (ct s) ++ [47]
  ++ match o with [] => [45] | _ => join [44] (map out_output o) end.

Definition tok_wev (t : pstr) : option wev :=
  match t with
  | 112 :: r => option_map WPoll (tok_Z r)
  | 97 :: r => option_map WAnswer (tok_Z r)
  | _ => None
  end.

Definition out_wd (o : wd_res) : pstr :=
  match o with WdDrop => s2p "d" | WdProbe => s2p "p" | WdIdle => s2p "n" end.

Definition sup_cmd (cmd : pstr) (args : list pstr) : option pstr :=
  if is cmd "run" then
    match args with
    | f :: r :: k :: evs =>
        match tok_flavour f, tok_Z r, tok_Z k, map_opt tok_event evs with
        | Some fl, Some rt, Some slack, Some es =>
            Some (sp (map out_obs (run fl (mkParams rt slack) init es)))
        | _, _, _, _ => Some bad
        end
    | _ => Some bad
    end
  else if is cmd "wd" then
    match args with
    | r :: c :: evs =>
        match tok_Z r, tok_Z c, map_opt tok_wev evs with
        | Some rt, Some c, Some es => Some (sp (map out_wd (wd_run rt (wd_init c) es)))
        | _, _, _ => Some bad
        end
    | _ => Some bad
    end
  else None.

Definition shell_step (st : shell_state) (line : pstr) : shell_state * pstr :=
  match tokens line with
  | cmd :: args =>
      if is cmd "reset" then (shell_init, s2p "ok")
      else (st, match sup_cmd cmd args with Some o => o | None => bad end)
  | [] => (st, bad)
  end.

Fixpoint shell_run (st : shell_state) (lines : list pstr) : list pstr :=
  match lines with
  | [] => []
  | l :: r => let '(st', o) := shell_step st l in o :: shell_run st' r
  end.
