(* C18 - decidable form of "the option is visible where it acts" (Spec.ConfigSpec.honoured)
   and the per-case checker used by the finite proof and exposed by the runner
   (in-model search, DESIGN section 5 step 4).  Definitions only. *)
From Coq Require Import List NArith ZArith Bool String.
From PMS Require Import Base.PyStr Base.Exn Model.ConfigSyntax Model.ConfigVersion Model.Config
  Spec.ConfigSpec Gen.Signatures.
Import ListNotations.
Open Scope N_scope.
Open Scope list_scope.

Definition look_is (lk : list pstr -> option val) (path : list pstr) (v : val) : bool :=
  match lk path with Some x => val_eqb x v | None => false end.

Definition is_ref (o : option val) : bool := match o with Some (VRef _) => true | _ => false end.

Definition honoured_b (lk : list pstr -> option val) (c : gwclass) (sel : list (opt * val))
  (o : opt) (v : val) : bool :=
  match o with
  | OTimeout => look_is lk (p ["tasks"; "transport"; "timeout"]%string) v
  | OReconnectTimeout => look_is lk (p ["tasks"; "transport"; "reconnect_timeout"]%string) v
  | OBaud => look_is lk (p ["baud"]%string) v
  | OPort => look_is lk (p ["server_address"]%string) (VPair (host_of c) v)
  | OInPrefix => look_is lk (p ["tasks"; "transport"; "in_prefix"]%string) v
  | OOutPrefix => look_is lk (p ["tasks"; "transport"; "out_prefix"]%string) v
  | ORetain => look_is lk (p ["tasks"; "transport"; "_retain"]%string) v
  | OEventCallback => look_is lk (p ["event_callback"]%string) v
  | OPersistence =>
      if is_true_val v then is_ref (lk (p ["tasks"; "persistence"]%string))
      else look_is lk (p ["tasks"; "persistence"]%string) VNone
  | OPersistenceFile =>
      negb (persistence_on sel)
      || look_is lk (p ["tasks"; "persistence"; "persistence_file"]%string) v
  | OProtocolVersion =>
      look_is lk (p ["protocol_version"]%string) v &&
      existsb (fun second =>
                 val_eqb v (rep OProtocolVersion second) &&
                 look_is lk (p ["const"]%string) (VObj (floor_module (rep_version_sections second))))
              [false; true]
  end.

Definition is_pair_with (h : val) (o : option val) : bool :=
  match o with Some (VPair a _) => val_eqb a h | _ => false end.

Definition required_visible_b (lk : list pstr -> option val) (c : gwclass) : bool :=
  match c with
  | SerialGw | AsyncSerialGw => look_is lk (p ["port"]%string) (host_of c)
  | TCPGw | AsyncTCPGw => is_pair_with (host_of c) (lk (p ["server_address"]%string))
  | MQTTGw | AsyncMQTTGw => true
  end.

Section Check.
Variable orc : avop -> pstr -> pstr -> option bool.
Variable cont : pstr -> bool.

Definition construct_case (c : gwclass) (by_keyword : bool) (ch : list choice) : res heap :=
  let call := call_of c by_keyword ch in
  construct orc cont classes (class_name c) (fst call) (snd call).

Definition check_case (c : gwclass) (by_keyword : bool) (ch : list choice) : bool :=
  match construct_case c by_keyword ch with
  | Ok h =>
      let sel := selected c ch in
      forallb (fun ov => honoured_b (look h) c sel (fst ov) (snd ov)) sel
      && required_visible_b (look h) c
  | Raise _ => false
  end.

Definition check_class (c : gwclass) : bool :=
  forallb (fun kw => forallb (check_case c kw) (all_choices (List.length (documented c)))) [false; true].

End Check.

(* Gateway.alert as far as the options event_callback / persistence take effect
   through it: (is the callback invoked, is the network marked as changed).
   Generated facts: alert_calls_callback, alert_dirty. *)
Definition alert_model (has_callback persistence_on dirty : bool) : bool * bool :=
  (has_callback && alert_calls_callback,
   if persistence_on
      && match alert_dirty with
         | DirtyAlways => true
         | DirtyOnlyWithCallback => has_callback
         | DirtyNever => false
         end
   then true else dirty).

(* the generated facts agree with the specification's reading of the documentation *)
Definition gen_supported : list (list N * pstr) :=
  map (fun km => (sections (fst km), snd km)) const_versions.

Definition class_documents (cname kw : pstr) : bool :=
  existsb (fun c => pstr_eqb (class_name c) cname
                    && existsb (fun o => pstr_eqb (opt_name o) kw) (documented c)) all_classes.

(* every keyword used by a documented example is a documented option of that class *)
Definition examples_documented : bool :=
  forallb (fun e => forallb (class_documents (ex_class e)) (ex_keywords e)) doc_examples.
