(* C16 - sending races safely with connection loss and shutdown.  Statements only.

   Programs: send_steps, disconnect_steps, connection_lost_steps, connection_made_steps are
   GENERATED (Gen/SendSteps.v) from /repo's mysensors/transport.py on every check run, one
   instruction per attribute load / store / call.  P_now bundles them; `final P sc sched` is the
   configuration after running schedule `sched` (any list of thread choices, true = sender)
   from the initial configuration of scenario `sc`. *)
From Coq Require Import List NArith Bool Arith.
From PMS Require Import Base.Exn Model.SendRace Gen.SendSteps Proofs.SendRaceProofs.
Import ListNotations.

(* the enumerator misses no schedule *)
Theorem C16_explore_complete :
  forall (pa pb : list step) (sched : list bool) (c : config),
    In (run_sched pa pb sched c) (explore pa pb c).
Proof. exact explore_complete. Qed.

(* For each of the four events (connection_lost(None), connection_lost(exc), disconnect(),
   connection_lost(exc) followed by connection_made(new connection)), with the first connection
   open or already dead, with or without user callbacks, with or without a command, and for
   EVERY schedule (no preemption bound):
   - nothing is raised in the sender,
   - at most one write went through,
   - a write that went through (open at that moment) carried the complete encoded command,
   - without a command nothing is attempted,
   - once the sender was scheduled as often as its program is long it has returned,
   - (extra) the event code does not raise either. *)
Theorem C16_send_race_safe :
  forall (sc : scenario) (sched : list bool),
    let c := final P_now sc sched in
    t_exn (c_a c) = None
    /\ length (written (h_log (c_h c))) <= 1
    /\ (forall cid a, In (cid, a, true) (h_log (c_h c)) -> a = VMsgBytes)
    /\ (sc_msg sc = false -> h_log (c_h c) = [])
    /\ (length send_steps <= count_occ bool_dec sched true -> returned send_steps (c_a c))
    /\ t_exn (c_b c) = None.
Proof. exact send_race_safe_proof. Qed.

(* the same statement is false for the pre-fix Transport.send (hand transcription in the model):
   a schedule ends with AttributeError in the sender, i.e. in the message pump *)
Theorem C16_send_race_unfixed_refuted :
  exists sc sched, t_exn (c_a (final P_unfixed sc sched)) = Some AttributeError.
Proof. exact send_race_unfixed_refuted_proof. Qed.

(* k producers appending their job lists, one poll thread doing check-then-popleft, any merge
   of the atomic deque operations: popleft never hits an empty deque; sent ++ queue is the
   append linearisation (FIFO); each producer's jobs enter once and in its order *)
Theorem C16_queue_fifo_exactly_once :
  forall (job : Type) (lists : list (list job)) (evs : list qev),
    let s := qrun evs (qinit lists 1) in
    q_err s = false
    /\ q_appended s = q_sent s ++ q_queue s
    /\ (forall p, proj p (q_appended s) ++ nth p (q_pending s) [] = nth p lists [])
    /\ (forall x, In x (q_appended s) -> fst x < length lists).
Proof. exact queue_fifo_exactly_once_proof. Qed.

(* producers done and deque empty: exactly the producers' jobs were sent, each once, in
   per-producer order *)
Theorem C16_queue_drained :
  forall (job : Type) (lists : list (list job)) (evs : list qev),
    let s := qrun evs (qinit lists 1) in
    (forall p, nth p (q_pending s) [] = []) -> q_queue s = [] ->
    (forall p, proj p (q_sent s) = nth p lists []) /\ (forall x, In x (q_sent s) -> fst x < length lists).
Proof. exact queue_drained_proof. Qed.

(* with two poll threads the check-then-pop of run_job is NOT safe (outside the property:
   SyncTasks.start creates one poll thread; documents what the single-pump premise buys) *)
Theorem C16_queue_two_pumps_refuted :
  exists evs, q_err (qrun evs (qinit [[7%N]] 2)) = true.
Proof. exact queue_two_pumps_refuted_proof. Qed.

(* ---- the generated queue accesses are the ones the queue model assumes *)
Example C16_run_job_ops : run_job_queue_ops = [QTruth; QPopleft] /\ add_job_queue_ops = [QAppend]
                          /\ sync_send_locked = true.
Proof. repeat split; reflexivity. Qed.

(* ---- non-vacuity: the four outcomes really occur for the generated programs *)
(* sender first: one complete write on the open connection 0 *)
Example C16_ex_written :
  h_log (c_h (final P_now (mkSc EvLostErr true true true) (repeat true 60 ++ repeat false 60)))
  = [(0%N, VMsgBytes, true)].
Proof. vm_compute. reflexivity. Qed.
(* event first: the command is dropped, nothing attempted *)
Example C16_ex_dropped :
  h_log (c_h (final P_now (mkSc EvLostErr true true true) (repeat false 60 ++ repeat true 60))) = [].
Proof. vm_compute. reflexivity. Qed.
(* snapshot taken, connection closed by connection_lost(exc), then write: OSError handled,
   nothing written, second reconnect request *)
Example C16_ex_closed_under_the_sender :
  let c := final P_now (mkSc EvLostErr true true true) (repeat true 12 ++ repeat false 60 ++ repeat true 60) in
  h_log (c_h c) = [(0%N, VMsgBytes, false)] /\ h_reconn (c_h c) = 2%N /\ t_exn (c_a c) = None.
Proof. vm_compute. repeat split; reflexivity. Qed.
(* loss and reconnection first: the write goes to the new connection 1 *)
Example C16_ex_reconnected :
  h_log (c_h (final P_now (mkSc EvLostReconn true false true) (repeat false 80 ++ repeat true 60)))
  = [(1%N, VMsgBytes, true)].
Proof. vm_compute. reflexivity. Qed.
(* a queue run with two producers *)
Example C16_ex_queue :
  map snd (q_sent (qrun [QProd 0; QProd 1; QPump 0; QPump 0; QProd 0; QPump 0; QPump 0; QPump 0; QPump 0]
                        (qinit [[1%N; 2%N]; [10%N]] 1))) = [1%N; 10%N; 2%N].
Proof. vm_compute. reflexivity. Qed.

Print Assumptions C16_explore_complete.
Print Assumptions C16_send_race_safe.
Print Assumptions C16_send_race_unfixed_refuted.
Print Assumptions C16_queue_fifo_exactly_once.
Print Assumptions C16_queue_drained.
Print Assumptions C16_queue_two_pumps_refuted.
