(* C11 - persistence round trip is exact in both formats.

   Model/Persist.v transcribes MySensorsJSONEncoder.default, MySensorsJSONDecoder.dict_to_object
   (object_hook, bottom-up, three heuristics in source order, Sensor built through setattr and
   the property setters), Persistence._load_json / _load_pickle (`self._sensors.update`),
   Sensor.__getstate__ / __setstate__ and ChildSensor.__setstate__ on value trees; the text
   layer of json and the byte layer of pickle are trusted.  `ver_ok` is the verdict of
   validation.is_version on a string (awesomeversion: an oracle); theorems hold for every
   `ver_ok`.  Statements only; proofs in Proofs/PersistProofs.v, Proofs/PersistInvProofs.v. *)
From Coq Require Import List NArith ZArith Bool String.
From PMS Require Import Base.PyStr Base.PyInt Base.Exn Model.TableTypes Model.Oracles Model.Gateway
  Gen.PersistAst Model.Persist Proofs.GwInv Proofs.PersistProofs Proofs.PersistInvProofs.
Import ListNotations.
Open Scope list_scope.
Open Scope Z_scope.

(* ---- 1. JSON ---- *)

(* json.load(cls=MySensorsJSONDecoder) of what json.dump(cls=MySensorsJSONEncoder) wrote for a
   well-formed tree, merged into the empty sensors dict, is EXACTLY the dict of Sensor objects
   (every instance attribute, in __dict__ order, int keys) that denotes load_tree t: all
   persisted attributes as saved, new_state = {}, queue = deque(), reboot = False. *)
Theorem json_roundtrip : forall (ver_ok : pstr -> bool) (t : tree),
  wf_tree ver_ok t -> json_load ver_ok (enc_json t) = Ok (state_dict (load_tree t)).
Proof. exact json_load_enc. Qed.

(* the denotation is faithful: a state can be read back from its dict of objects *)
Theorem state_dict_faithful : forall s : list (Z * node), read_state (state_dict s) = Some s.
Proof. exact read_state_dict. Qed.

Example json_roundtrip_premise : wf_tree ok_22 ex_tree.
Proof. exact ex_tree_wf. Qed.
Example json_roundtrip_instance : json_load ok_22 (enc_json ex_tree) = Ok (state_dict (load_tree ex_tree)).
Proof. exact ex_tree_json. Qed.

(* without wf_tree the statement is false ... *)
Theorem json_roundtrip_unconditioned_refuted :
  exists ver_ok t, json_load ver_ok (enc_json t) <> Ok (state_dict (load_tree t)).
Proof. exact json_roundtrip_unconditioned_false. Qed.
(* ... a negative node id comes back as the STRING key "-1" ("-1".isdigit() is False) *)
Theorem json_negative_id_comes_back_as_string :
  json_load ok_all (enc_json t_neg_node) = Ok [(KStr (s2p "-1"), VSensor (node_attrs (new_node (-1))))].
Proof. exact neg_node_result. Qed.
(* ... one negative value type leaves ALL keys of that values dict strings *)
Theorem json_negative_value_type_poisons_dict :
  exists a, json_load ok_all (enc_json t_neg_vt) = Ok [(KInt 1, VSensor a)] /\
    aget k_children a =
      Some (VDict [(KInt 2, VChild [(k_id, VInt 2); (k_type, VInt 0); (k_description, VStr []);
                                    (k_values, VDict [(KStr (s2p "-1"), VStr (s2p "x")); (KStr (s2p "3"), VStr (s2p "y"))])])]).
Proof. exact neg_value_type_result. Qed.
(* ... a battery level outside 0..100 comes back as 0 (both formats), a protocol version that
   is_version rejects comes back as "1.4" *)
Theorem attributes_outside_setter_ranges_are_reset :
  (json_restore ok_all (enc_json t_batt) = Ok (Some [(1, new_node 1)]) /\
   pickle_node ok_all (mkNode 1 [] None None None 500 (s2p "1.4") 0 [] [] false) = Ok (Some (new_node 1))) /\
  json_restore ok_none (enc_json t_pver) = Ok (Some [(1, new_node 1)]).
Proof. exact (conj battery_out_of_range_result rejected_version_result). Qed.

(* ---- 2. pickle ---- *)

(* Sensor.__getstate__, then Sensor.__new__ + __setstate__: every persisted attribute is
   restored, new_state / queue / reboot are reset WHATEVER they were (they are part of the
   pickled state), and the result reads back as load_node (proj_node n). *)
Theorem pickle_roundtrip : forall (ver_ok : pstr -> bool) (n : node),
  attr_ok ver_ok n ->
  setstate ver_ok (getstate (node_attrs n)) = Ok (node_attrs_pickled (persisted n)) /\
  pickle_node ver_ok n = Ok (Some (load_node (proj_node n))).
Proof. exact pickle_roundtrip_thm. Qed.

Example pickle_state_contains_transient :
  match ex_state with
  | (_, n) :: _ => aget k_reboot (getstate (node_attrs n)) = Some (VBool true)
                   /\ aget k_queue (getstate (node_attrs n)) = Some (VDeque (n_queue n))
  | [] => False
  end.
Proof. exact ex_pickle_contains_transient. Qed.

Theorem pickle_roundtrip_unconditioned_refuted :
  exists ver_ok n, pickle_node ver_ok n <> Ok (Some (load_node (proj_node n))).
Proof. exact pickle_roundtrip_unconditioned_false. Qed.

(* ---- 3. both formats on machine states ---- *)

(* save as JSON and load, save as pickle and load: both give load_tree (proj s) - the same
   state - and no transient state comes back *)
Theorem formats_agree : forall (ver_ok : pstr -> bool) (s : list (Z * node)),
  wf_tree ver_ok (proj s) ->
  json_restore ver_ok (json_save s) = Ok (Some (load_tree (proj s))) /\
  pickle_restore ver_ok (pickle_save s) = Ok (Some (load_tree (proj s))) /\
  Forall transient_empty (load_tree (proj s)).
Proof. exact formats_agree_thm. Qed.

Example formats_agree_nonvacuous :
  ~ Forall transient_empty ex_state /\
  json_restore ok_22 (json_save ex_state) = Ok (Some (load_tree (proj ex_state))) /\
  pickle_restore ok_22 (pickle_save ex_state) = Ok (Some (load_tree (proj ex_state))).
Proof. exact (conj ex_state_transient_not_empty ex_state_formats). Qed.

(* ---- 4. the heuristics of dict_to_object ---- *)

(* objs_tree lists exactly the objects of the document, each with its role ... *)
Theorem hook_objects_complete : forall t : tree, all_objs (enc_json t) = map snd (objs_tree t).
Proof. exact all_objs_tree. Qed.
(* ... and on each of them exactly the intended branch fires: Sensor on encoded Sensors,
   ChildSensor on encoded ChildSensors, int keys on the sensors / children / values dicts
   (including the EMPTY ones, where all(k.isdigit()) is vacuously true) *)
Theorem hook_no_misfire : forall (ver_ok : pstr -> bool) (t : tree),
  wf_tree ver_ok t -> Forall fires_as_expected (objs_tree t).
Proof. exact fires_tree. Qed.

Theorem hook_no_misfire_unconditioned_refuted : exists t, ~ Forall fires_as_expected (objs_tree t).
Proof. exact hook_misfire_outside_wf. Qed.

(* the corners, on documents the encoder never writes *)
Theorem hook_corners :
  (branch_of [] = BIntKeys /\ dec_json ok_all (JObj []) = Ok (VDict [])) /\
  dec_json ok_all (JObj [(J "7", JStr (J "x"))]) = Ok (VDict [(KInt 7, VStr (J "x"))]) /\
  (exists a, dec_json ok_all (JObj [(J "note", JStr (J "x")); (J "sensor_id", JInt 1)]) = Ok (VSensor a)
             /\ aget (J "note") a = Some (VStr (J "x"))) /\
  dec_json ok_all (JObj [(J "values", JInt 3); (J "type", JInt 2); (J "id", JInt 1); (J "extra", JInt 4)])
    = Ok (VChild [(k_id, VInt 1); (k_type, VInt 2); (k_description, VStr []); (k_values, VInt 3)]) /\
  dec_json ok_all (JObj [([178%N], JInt 1)]) = Raise ValueError /\
  dec_json ok_all (JObj [([1633%N], JInt 1); (J "1", JInt 2)]) = Ok (VDict [(KInt 1, VInt 2)]).
Proof.
  exact (conj corner_empty_dict (conj corner_digit_string_keys (conj corner_sensor_id_member
        (conj corner_child_members (conj corner_isdigit_not_decimal corner_digit_keys_collide))))).
Qed.

(* the decoder does not reset transient attributes, refuses the read-only property, and the
   underscored names bypass the setters: only the ENCODER keeps these out of the file *)
Theorem decoder_trusts_the_document :
  (exists a, dec_json ok_all (JObj [(J "sensor_id", JInt 1); (J "reboot", JInt 1)]) = Ok (VSensor a)
             /\ aget k_reboot a = Some (VInt 1)) /\
  dec_json ok_all (JObj [(J "sensor_id", JInt 1); (J "is_smart_sleep_node", JInt 1)]) = Raise AttributeError /\
  (exists a, dec_json ok_all (JObj [(J "sensor_id", JInt 1); (J "_battery_level", JInt 500)]) = Ok (VSensor a)
             /\ aget k__battery_level a = Some (VInt 500)).
Proof.
  exact (conj corner_transient_in_document (conj corner_readonly_property corner_underscore_bypasses_setter)).
Qed.

(* ---- 5. every reachable state is well formed ---- *)

(* after any history of operations from the initial state, in any of the five configurations,
   for every oracle and clock: the persisted projection satisfies wf_tree (and more: key = id,
   ids in 0..255, child key = child id, values are strings - sens_ok) *)
Theorem reachable_wf : forall (orc : oracles) (clock : Z) (cf : config) (ops : list op),
  cfg_ok cf -> Forall op_ok ops ->
  wf_tree (orc_version orc) (proj (g_sensors (run orc clock (gw_init cf) ops))).
Proof. exact reachable_wf_thm. Qed.

Theorem reachable_sens_ok : forall (orc : oracles) (clock : Z) (cf : config) (ops : list op),
  cfg_ok cf -> Forall op_ok ops -> sens_ok orc (g_sensors (run orc clock (gw_init cf) ops)).
Proof. exact reachable_sens_ok_thm. Qed.

(* hence: in every reachable state both formats round trip exactly *)
Theorem reachable_roundtrip : forall (orc : oracles) (clock : Z) (cf : config) (ops : list op),
  cfg_ok cf -> Forall op_ok ops ->
  let s := g_sensors (run orc clock (gw_init cf) ops) in
  json_restore (orc_version orc) (json_save s) = Ok (Some (load_tree (proj s))) /\
  pickle_restore (orc_version orc) (pickle_save s) = Ok (Some (load_tree (proj s))) /\
  Forall transient_empty (load_tree (proj s)).
Proof. exact reachable_roundtrip_thm. Qed.

(* what a restart loads is again well formed (the machine-level restart installs load_tree t) *)
Theorem restart_keeps_wf : forall (ver_ok : pstr -> bool) (t : tree),
  wf_tree ver_ok t -> wf_tree ver_ok (proj (load_tree t)).
Proof. exact wf_restart. Qed.

(* ---- 6. the model transcribes the source as it is now ---- *)
Theorem model_matches_source : source_shape_ok.
Proof. exact source_shape_holds. Qed.

Print Assumptions json_roundtrip.
Print Assumptions state_dict_faithful.
Print Assumptions json_roundtrip_unconditioned_refuted.
Print Assumptions json_negative_id_comes_back_as_string.
Print Assumptions json_negative_value_type_poisons_dict.
Print Assumptions attributes_outside_setter_ranges_are_reset.
Print Assumptions pickle_roundtrip.
Print Assumptions pickle_roundtrip_unconditioned_refuted.
Print Assumptions formats_agree.
Print Assumptions hook_objects_complete.
Print Assumptions hook_no_misfire.
Print Assumptions hook_no_misfire_unconditioned_refuted.
Print Assumptions hook_corners.
Print Assumptions decoder_trusts_the_document.
Print Assumptions reachable_wf.
Print Assumptions reachable_sens_ok.
Print Assumptions reachable_roundtrip.
Print Assumptions restart_keeps_wf.
Print Assumptions model_matches_source.
