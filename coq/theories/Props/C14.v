(* C14 - a clean stop loses nothing.  Statements only.
   Machine: Model/Gateway.v (step, save_tick, restart, proj, load_tree) over the GENERATED tables
   and registry; oracles (awesomeversion, float(), clock) universally quantified.
   Persistence machine (Proofs/DirtyProofs.v): pop := POp o | PSave | PRestart,
   pstep uses step / save_tick / restart of the model; state = (gateway, file content).
   File formats and faults: C11 / C12 / C13; the timer thread interleaving: C15. *)
From Coq Require Import List NArith ZArith Bool String.
From PMS Require Import Base.PyStr Base.Exn Model.Codec Model.TableTypes Gen.Tables Model.Validate
  Model.Oracles Model.Hex Model.Ota Model.Gateway Spec.SerialApi Proofs.GwInv
  Spec.TreeMeaning Proofs.TreeProofs Proofs.TreeHistory Proofs.DirtyProofs Proofs.DirtySim.
Import ListNotations.
Open Scope Z_scope.

(* C14.1: with persistence enabled, a dispatcher call that changes the persisted tree leaves the
   state marked unsaved (all five configurations, all oracles, every state with the invariant) *)
Theorem C14_tree_change_marks_dirty :
  forall orc clock v g l g' r,
    cfg_is v (g_cf g) -> Inv orc g -> cf_persist (g_cf g) = true ->
    logic orc clock g l = Ok (g', r) ->
    proj (g_sensors g') <> proj (g_sensors g) -> g_dirty g' = true.
Proof. exact tree_change_marks_dirty. Qed.

(* the flag after a dispatcher call, exactly: set iff the line is accepted and alerting *)
Theorem C14_logic_dirty_exact :
  forall orc clock v g l g' r,
    cfg_is v (g_cf g) -> Inv orc g -> logic orc clock g l = Ok (g', r) ->
    g_dirty g' = match alerted_line (gvalidate orc g) v (proj (g_sensors g)) l with
                 | Some _ => if cf_persist (g_cf g) then true else g_dirty g
                 | None => g_dirty g
                 end.
Proof. exact logic_dirty_exact. Qed.

(* the dispatcher never clears the flag *)
Theorem C14_logic_never_clears :
  forall orc clock v g l g' r,
    cfg_is v (g_cf g) -> Inv orc g -> logic orc clock g l = Ok (g', r) ->
    g_dirty g = true -> g_dirty g' = true.
Proof. exact logic_never_clears. Qed.

(* controller calls (set_child_value, update_fw, set metric) and queued send jobs change neither
   the persisted tree nor the flag *)
Theorem C14_controller_ops_frame :
  forall orc clock g o, Inv orc g ->
    match o with Recv _ | Pump => False | _ => True end ->
    proj (g_sensors (step orc clock g o)) = proj (g_sensors g) /\
    g_dirty (step orc clock g o) = g_dirty g.
Proof. exact controller_ops_frame. Qed.

Theorem C14_send_job_frame :
  forall orc clock g l rest, g_jobs g = JSend l :: rest ->
    proj (g_sensors (pump orc clock g)) = proj (g_sensors g) /\ g_dirty (pump orc clock g) = g_dirty g.
Proof. exact send_job_frame. Qed.

(* a load restores exactly what was projected into the file *)
Theorem C14_proj_load_tree : forall t : tree, proj (load_tree t) = t.
Proof. exact proj_load_tree. Qed.

(* C14.2: over ALL histories of messages, pump iterations, controller calls, periodic saves and
   clean restarts from a fresh gateway with persistence: clean implies the file holds the tree *)
Theorem C14_clean_implies_synced :
  forall orc clock v cf pops, cfg_is v cf -> cf_persist cf = true -> Forall pop_ok pops ->
    let s := prun orc clock (gw_init cf, None) pops in
    g_dirty (fst s) = false -> snd s = Some (proj (g_sensors (fst s))).
Proof. exact clean_implies_synced. Qed.

(* C14.3: after stop() and the next start, the new gateway holds exactly the tree (every node,
   child, value, attribute; order included) held at the stop, and so does the file *)
Theorem C14_stop_loses_nothing :
  forall orc clock v cf pops, cfg_is v cf -> cf_persist cf = true -> Forall pop_ok pops ->
    let s := prun orc clock (gw_init cf, None) pops in
    let s' := pstep orc clock s PRestart in
    proj (g_sensors (fst s')) = proj (g_sensors (fst s)) /\
    snd s' = Some (proj (g_sensors (fst s))) /\
    g_sensors (fst s') = load_tree (proj (g_sensors (fst s))).
Proof. exact stop_loses_nothing. Qed.

(* nothing but save_tick reads the flag: gateways equal but for the flag (deq) stay so under
   every operation - a simulation through the dispatcher and all handlers *)
Theorem C14_dirty_flag_is_write_only :
  forall orc clock a b o, deq a b -> deq (step orc clock a o) (step orc clock b o).
Proof. exact deq_step. Qed.

(* C14.3 corollary: histories that differ only in the placement of periodic saves (equal after
   removing the PSave ops) reach gateways equal but for the flag, and after stop + restart the
   whole state - gateway and file - is identical *)
Theorem C14_save_tick_positions_irrelevant :
  forall orc clock v cf p1 p2, cfg_is v cf -> cf_persist cf = true ->
    Forall pop_ok p1 -> Forall pop_ok p2 -> strip p1 = strip p2 ->
    let s1 := prun orc clock (gw_init cf, None) p1 in
    let s2 := prun orc clock (gw_init cf, None) p2 in
    deq (fst s1) (fst s2) /\ pstep orc clock s1 PRestart = pstep orc clock s2 PRestart.
Proof. exact save_tick_positions_irrelevant. Qed.

Theorem C14_save_tick_positions_tree :
  forall orc clock v cf p1 p2, cfg_is v cf -> cf_persist cf = true ->
    Forall pop_ok p1 -> Forall pop_ok p2 -> strip p1 = strip p2 ->
    let s1 := pstep orc clock (prun orc clock (gw_init cf, None) p1) PRestart in
    let s2 := pstep orc clock (prun orc clock (gw_init cf, None) p2) PRestart in
    proj (g_sensors (fst s1)) = proj (g_sensors (fst s2)) /\ snd s1 = snd s2.
Proof. exact save_tick_positions_tree. Qed.

(* non-vacuity *)
Example C14_two_placements :
  let p1 := [POp (Recv (s2p "1;255;0;0;3;x")); PSave; POp (Recv (s2p "1;255;3;0;0;77"))] in
  let p2 := [PSave; POp (Recv (s2p "1;255;0;0;3;x")); POp (Recv (s2p "1;255;3;0;0;77")); PSave; PSave] in
  strip p1 = strip p2 /\ p1 <> p2.
Proof. split; [reflexivity|discriminate]. Qed.

Example C14_cfg_exists : cfg_is V22 (mkConfig tab_22 true true true true) /\
                         cf_persist (mkConfig tab_22 true true true true) = true.
Proof. repeat split. Qed.

(* the D7 scenario: a node id reserved after a periodic save survives stop + restart *)
Example C14_reservation_after_save_survives :
  let cf := mkConfig tab_22 true true true true in
  let s := prun no_oracles 0 (gw_init cf, None)
             [POp (Recv (s2p "1;255;0;0;3;x")); PSave; POp (Recv (s2p "255;255;3;0;3;")); PRestart] in
  map fst (g_sensors (fst s)) = [1; 2] /\ option_map (map fst) (snd s) = Some [1; 2] /\
  g_dirty (fst s) = false.
Proof. vm_compute. repeat split. Qed.

(* a tree-changing message right after a save marks the state dirty (premises of C14.1) *)
Example C14_change_after_save_is_dirty :
  let cf := mkConfig tab_22 true true true true in
  let s := prun no_oracles 0 (gw_init cf, None) [POp (Recv (s2p "1;255;0;0;3;x")); PSave] in
  let s' := pstep no_oracles 0 s (POp (Recv (s2p "1;255;3;0;0;77"))) in
  g_dirty (fst s) = false /\ g_dirty (fst s') = true /\
  proj (g_sensors (fst s')) <> proj (g_sensors (fst s)).
Proof. vm_compute. repeat split. discriminate. Qed.

Print Assumptions C14_tree_change_marks_dirty.
Print Assumptions C14_logic_dirty_exact.
Print Assumptions C14_logic_never_clears.
Print Assumptions C14_controller_ops_frame.
Print Assumptions C14_send_job_frame.
Print Assumptions C14_proj_load_tree.
Print Assumptions C14_clean_implies_synced.
Print Assumptions C14_stop_loses_nothing.
Print Assumptions C14_dirty_flag_is_write_only.
Print Assumptions C14_save_tick_positions_irrelevant.
Print Assumptions C14_save_tick_positions_tree.
