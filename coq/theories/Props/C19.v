(* C19 - behaviour depends only on the lines received.  Statements only.
   Part 1 (framing): proved for every byte stream, every segmentation, every decoder.
   Part 2 (flavours): state and MULTISET of emitted commands proved schedule and
   flavour independent; the ordered SEQUENCE claim is proved only for schedules
   that drain between lines (partial) and REFUTED in general (finding D11). *)
From Coq Require Import String List NArith ZArith Bool Permutation.
From PMS Require Import Base.PyStr Base.PyInt Base.Exn Model.Codec Model.Framing Model.JobFlavours
                        Proofs.FramingProofs Proofs.JobFlavourProofs Gen.FramingConsts.
Import ListNotations.

(* ---- the generated constants are the ones the model was written for *)
Theorem C19_generated_facts :
  terminator = nl /\ (N.to_nat recv_size <> 0)%nat /\
  (encoding_is_utf8 && unicode_handling_is_replace && packetizer_body_as_modelled &&
   handle_line_adds_logic_job && sync_add_job_appends && async_add_job_runs_then_sends &&
   poll_queue_sends_run_job && run_job_pops_left_and_calls && send_drops_empty_message &&
   nested_jobs_only_produce_strings) = true.
Proof. exact generated_facts. Qed.

(* ---- part 1: framing *)
(* feeding the chunks cs one by one to data_received delivers exactly the decoded
   complete lines of the concatenated stream, in order, and keeps the
   unterminated tail; for every decoder, every chunk list (empty chunks, one
   byte chunks, chunks ending inside a multi-byte character or between CR and LF) *)
Theorem C19_framing_segmentation_independent :
  forall (dec : bytes -> pstr) (cs : list bytes),
    feed terminator dec proto_init cs =
    (mkProto (tail_of terminator (concat cs)), map dec (complete_lines terminator (concat cs))).
Proof. exact (framing_segmentation_independent terminator). Qed.

Theorem C19_framing_same_stream_same_lines :
  forall (dec : bytes -> pstr) (cs1 cs2 : list bytes),
    concat cs1 = concat cs2 -> feed terminator dec proto_init cs1 = feed terminator dec proto_init cs2.
Proof. exact (framing_same_stream_same_lines terminator). Qed.

(* two different segmentations of the bytes of "€\r\n1\n": inside the 3-byte
   character and between CR and LF *)
Example C19_same_stream_example :
  let cs1 := [[226; 130]; [172; 13]; [10; 49]; []; [10]]%N in
  let cs2 := [[226; 130; 172; 13; 10; 49; 10]]%N in
  cs1 <> cs2 /\ concat cs1 = concat cs2 /\
  feed terminator (fun b => b) proto_init cs1 = (mkProto [], [[226; 130; 172; 13]; [49]]%N).
Proof. vm_compute. split; [discriminate|split; reflexivity]. Qed.

(* a later call continues from the residual buffer *)
Theorem C19_framing_resume :
  forall (dec : bytes -> pstr) (cs1 cs2 : list bytes),
    snd (feed terminator dec proto_init (cs1 ++ cs2)) =
    snd (feed terminator dec proto_init cs1) ++
    snd (feed terminator dec (fst (feed terminator dec proto_init cs1)) cs2).
Proof. exact (framing_resume terminator). Qed.

(* the complete lines are what the stream says: no line contains the terminator
   and lines + terminators + tail give the stream back *)
Theorem C19_complete_lines_sound :
  forall s : bytes,
    Forall (fun l => mem_N terminator l = false) (complete_lines terminator s) /\
    mem_N terminator (tail_of terminator s) = false /\
    s = flat_map (fun l => l ++ [terminator]) (complete_lines terminator s) ++ tail_of terminator s.
Proof.
  exact (fun s => conj (complete_lines_no_terminator terminator s)
                       (conj (tail_no_term terminator s) (stream_reassembled terminator s))).
Qed.

(* the decoder is applied once per complete packet, never to a chunk *)
Theorem C19_framing_decodes_per_line :
  forall (dec : bytes -> pstr) (cs : list bytes),
    feed terminator dec proto_init cs =
    (fst (feed terminator (fun b => b) proto_init cs),
     map dec (snd (feed terminator (fun b => b) proto_init cs))).
Proof. exact (framing_dec_natural terminator). Qed.

(* TCPTransport.run's recv(recv_size) chunking is one such segmentation *)
Theorem C19_tcp_recv_chunking :
  forall (dec : bytes -> pstr) (s : bytes),
    feed terminator dec proto_init (chunks_of (N.to_nat recv_size) s) =
    (mkProto (tail_of terminator s), map dec (complete_lines terminator s)).
Proof. exact tcp_recv_chunking. Qed.

(* CRLF: the delivered line keeps the CR; the codec ignores it *)
Theorem C19_decode_ignores_trailing_cr : forall l : pstr, decode (l ++ [cr]) = decode l.
Proof. exact decode_ignores_trailing_cr. Qed.

Theorem C19_crlf_line_decodes_like_lf :
  forall dec : bytes -> pstr,
    (forall b, dec (b ++ [cr]) = dec b ++ [cr]) ->
    forall b, decode (dec (b ++ [cr])) = decode (dec b).
Proof. exact crlf_line_decodes_like_lf. Qed.

Example C19_crlf_premise_satisfiable :
  (forall b : bytes, (fun x : bytes => x) (b ++ [cr]) = (fun x : bytes => x) b ++ [cr]) /\
  decode (s2p "1;2;1;0;2;x" ++ [cr]) = Some (mkMsg 1 2 1 0 2 (s2p "x")).
Proof. split; [reflexivity|vm_compute; reflexivity]. Qed.

(* ---- part 2: the two job disciplines, for every handler *)
(* any placement of Pump ops: lines are taken FIFO, the state is the asyncio
   state after the lines already taken *)
Theorem C19_sync_state_is_async_prefix :
  forall (state : Type) (handler : state -> pstr -> state * option pstr * list pstr)
         (st0 : state) (ops : list op),
    exists d,
      recvs ops = d ++ pending_lines (s_queue (fst (sync_run state handler (mkSync st0 []) ops))) /\
      s_state (fst (sync_run state handler (mkSync st0 []) ops)) = fst (async_run state handler st0 d).
Proof. exact sync_state_is_async_prefix. Qed.

(* once drained: same final state and same MULTISET of emitted commands as the
   asyncio gateway, for every placement of the pumps *)
Theorem C19_state_schedule_independent :
  forall (state : Type) (handler : state -> pstr -> state * option pstr * list pstr)
         (st0 : state) (ops : list op),
    s_queue (fst (sync_run state handler (mkSync st0 []) ops)) = [] ->
    s_state (fst (sync_run state handler (mkSync st0 []) ops))
      = fst (async_run state handler st0 (recvs ops)) /\
    Permutation (snd (sync_run state handler (mkSync st0 []) ops))
                (snd (async_run state handler st0 (recvs ops))).
Proof. exact state_schedule_independent. Qed.

Theorem C19_two_schedules_agree :
  forall (state : Type) (handler : state -> pstr -> state * option pstr * list pstr)
         (st0 : state) (ops1 ops2 : list op),
    recvs ops1 = recvs ops2 ->
    s_queue (fst (sync_run state handler (mkSync st0 []) ops1)) = [] ->
    s_queue (fst (sync_run state handler (mkSync st0 []) ops2)) = [] ->
    s_state (fst (sync_run state handler (mkSync st0 []) ops1))
      = s_state (fst (sync_run state handler (mkSync st0 []) ops2)) /\
    Permutation (snd (sync_run state handler (mkSync st0 []) ops1))
                (snd (sync_run state handler (mkSync st0 []) ops2)).
Proof. exact two_schedules_agree. Qed.

(* the premise "drained" can always be reached by finitely many more pumps *)
Theorem C19_drain_exists :
  forall (state : Type) (handler : state -> pstr -> state * option pstr * list pstr) (m : sync state),
    exists n, s_queue (fst (sync_run state handler m (repeat Pump n))) = [].
Proof. exact drain_exists. Qed.

Example C19_drained_premise_satisfiable :
  s_queue (fst (sync_run mini_state mini_handler (mkSync d11_state []) d11_ops)) = [] /\
  recvs d11_ops = d11_lines.
Proof. vm_compute. split; reflexivity. Qed.

(* PARTIAL: when the pump drains the queue between consecutive lines the
   threaded gateway emits, per line, reply then nested jobs; the asyncio gateway
   nested jobs then reply; the SEQUENCES are equal when no line does both *)
Theorem C19_flavour_equiv_drained_partial :
  forall (state : Type) (handler : state -> pstr -> state * option pstr * list pstr)
         (st0 : state) (bs : list (pstr * nat)),
    drained_between state handler (mkSync st0 []) bs ->
    s_state (fst (sync_run state handler (mkSync st0 []) (blocks_ops bs)))
      = fst (async_run state handler st0 (map fst bs)) /\
    snd (sync_run state handler (mkSync st0 []) (blocks_ops bs))
      = sync_order (line_outputs state handler st0 (map fst bs)) /\
    snd (async_run state handler st0 (map fst bs))
      = async_order (line_outputs state handler st0 (map fst bs)) /\
    (Forall exclusive (line_outputs state handler st0 (map fst bs)) ->
     snd (sync_run state handler (mkSync st0 []) (blocks_ops bs))
       = snd (async_run state handler st0 (map fst bs))).
Proof. exact flavour_equiv_drained. Qed.

Example C19_drained_between_satisfiable :
  drained_between mini_state mini_handler (mkSync d11_state [])
    [(s2p "1;7;1;0;2;1", 2%nat); (s2p "1;255;3;0;6;0", 1%nat)] /\
  Forall exclusive (line_outputs mini_state mini_handler d11_state d11_lines).
Proof. split; [vm_compute; auto|exact d11_exclusive]. Qed.

(* REFUTED: a line that both replies and enqueues separates the flavours even
   when drained (no handler of the library does; observed by the monitor) *)
Theorem C19_drained_needs_exclusive_refuted :
  exists state handler st0 bs,
    drained_between state handler (mkSync st0 []) bs /\
    snd (sync_run state handler (mkSync st0 []) (blocks_ops bs))
      <> snd (async_run state handler st0 (map fst bs)).
Proof. exact drained_needs_exclusive. Qed.

(* REFUTED (finding D11): with two lines pending the threaded gateway sends the
   nested job of the first line AFTER the reply to the second; the asyncio
   gateway before.  Witness: node 1 known, "1;7;1;0;2;1" then "1;255;3;0;6;0" *)
Theorem C19_flavour_equiv_refuted :
  exists (state : Type) (handler : state -> pstr -> state * option pstr * list pstr)
         (st0 : state) (ops : list op),
    s_queue (fst (sync_run state handler (mkSync st0 []) ops)) = [] /\
    Forall exclusive (line_outputs state handler st0 (recvs ops)) /\
    snd (sync_run state handler (mkSync st0 []) ops)
      <> snd (async_run state handler st0 (recvs ops)).
Proof. exact flavour_equiv_refuted. Qed.

(* the full ordered claim of the property (Model.JobFlavours.flavour_equiv_full:
   forall state handler st0 ops, drained -> sync sequence = async sequence) is false *)
Theorem C19_flavour_equiv_full_refuted : ~ flavour_equiv_full.
Proof. exact flavour_equiv_full_refuted. Qed.

Example C19_d11_witness :
  snd (sync_run mini_state mini_handler (mkSync d11_state []) d11_ops)
    = [s2p "1;255;3;0;6;M" ++ [nl]; s2p "1;255;3;0;19;" ++ [nl]] /\
  snd (async_run mini_state mini_handler d11_state (recvs d11_ops))
    = [s2p "1;255;3;0;19;" ++ [nl]; s2p "1;255;3;0;6;M" ++ [nl]].
Proof. exact (conj d11_sync d11_async). Qed.

Print Assumptions C19_generated_facts.
Print Assumptions C19_framing_segmentation_independent.
Print Assumptions C19_framing_same_stream_same_lines.
Print Assumptions C19_framing_resume.
Print Assumptions C19_complete_lines_sound.
Print Assumptions C19_framing_decodes_per_line.
Print Assumptions C19_tcp_recv_chunking.
Print Assumptions C19_decode_ignores_trailing_cr.
Print Assumptions C19_crlf_line_decodes_like_lf.
Print Assumptions C19_sync_state_is_async_prefix.
Print Assumptions C19_state_schedule_independent.
Print Assumptions C19_two_schedules_agree.
Print Assumptions C19_drain_exists.
Print Assumptions C19_flavour_equiv_drained_partial.
Print Assumptions C19_drained_needs_exclusive_refuted.
Print Assumptions C19_flavour_equiv_refuted.
Print Assumptions C19_flavour_equiv_full_refuted.
