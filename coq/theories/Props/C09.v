(* C09 - OTA serves exactly the firmware it advertised.  Statements only. *)
From Coq Require Import String List NArith ZArith Bool.
From PMS Require Import Base.PyStr Base.Exn Model.Hex Model.Ota Model.IntelHex Model.OtaServe
     Spec.OtaSpec Gen.OtaConsts
     Proofs.HexProofs Proofs.OtaProofs Proofs.OtaServeProofs Proofs.IntelHexProofs Proofs.OtaConstsProofs.
Import ListNotations.

(* the model's block size, page size and pad byte are the literals of ota.py (regenerated each run) *)
Theorem C09_constants :
  fw_block_size = src_fw_block_size /\ N.of_nat fw_page_size = src_fw_page_size /\
  fw_pad_byte = src_fw_pad_byte.
Proof. exact ota_consts_agree. Qed.

(* ---- 1. what prepare_fw builds, for every image of every length *)
Theorem C09_prepare_shape : forall img : list N,
  exists k,
    fw_data (prepare_fw img) = img ++ repeat 255%N k /\
    (1 <= k <= 128)%nat /\
    (k = 128%nat <-> List.length img mod 128 = 0)%nat /\
    (List.length (fw_data (prepare_fw img)) mod 128 = 0)%nat /\
    Z.of_nat (List.length (fw_data (prepare_fw img))) = (16 * fw_blocks (prepare_fw img))%Z /\
    fw_crc (prepare_fw img) = crc16_modbus (fw_data (prepare_fw img)).
Proof. exact prepare_shape. Qed.

Theorem C09_prepare_bytes : forall img, bytes_ok img = true -> bytes_ok (fw_data (prepare_fw img)) = true.
Proof. exact prepare_fw_bytes. Qed.

(* ---- 2. the advertised number of 16-byte blocks, in index order, is the data *)
Theorem C09_blocks_concat : forall (D : list N) (B : nat), List.length D = (16 * B)%nat ->
  concat (map (fun i => fw_block D (Z.of_nat i)) (seq 0 B)) = D.
Proof. exact blocks_concat. Qed.

Theorem C09_prepared_blocks : forall img,
  List.length (fw_data (prepare_fw img)) = (16 * Z.to_nat (fw_blocks (prepare_fw img)))%nat.
Proof. exact prepare_fw_nat_blocks. Qed.

Theorem C09_block_length : forall (D : list N) (i : nat),
  (16 * i + 16 <= List.length D)%nat -> List.length (fw_block D (Z.of_nat i)) = 16%nat.
Proof. exact fw_block_length. Qed.

Theorem C09_block_beyond : forall (D : list N) (i : Z),
  (Z.of_nat (List.length D) <= 16 * i)%Z -> fw_block D i = [].
Proof. exact fw_block_beyond. Qed.

(* any order, any repetition: a node that asked for every index at least once
   reassembles the data *)
Theorem C09_reassemble_any_order : forall (D : list N) (B : nat) (reqs : list Z),
  List.length D = (16 * B)%nat ->
  (forall i, (i < B)%nat -> In (Z.of_nat i) reqs) ->
  reassemble B (map (fun j => (j, fw_block D j)) reqs) = D.
Proof. exact reassemble_any_order. Qed.

(* ---- 3. payloads *)
Theorem C09_response_payload : forall t v i fw,
  word_ok t = true -> word_ok v = true -> word_ok i = true ->
  fw_response_payload t v i fw =
    Ok (hexlify (le16 t ++ le16 v ++ le16 i) ++ hexlify (fw_block (fw_data fw) i)).
Proof. exact fw_response_payload_ok. Qed.

(* the node reads back the type, version and index it asked for, and the block *)
Theorem C09_response_echo : forall t v i fw p,
  bytes_ok (fw_data fw) = true ->
  fw_response_payload t v i fw = Ok p ->
  parse_response p = Ok ([t; v; i], fw_block (fw_data fw) i) /\
  p = hexlify (le16 t ++ le16 v ++ le16 i) ++ hexlify (fw_block (fw_data fw) i).
Proof. exact response_echo. Qed.

Theorem C09_config_payload : forall t v fw,
  word_ok t = true -> word_ok v = true -> fware_ok fw ->
  fw_config_payload t v fw =
    Ok (hexlify (le16 t ++ le16 v ++ le16 (fw_blocks fw) ++ le16 (fw_crc fw))).
Proof. exact fw_config_payload_ok. Qed.

(* boundary: with more than 65535 blocks (image >= 1 MiB - 127 bytes) the config
   response cannot be packed: struct.error (outside the property's 1..32768 range) *)
Theorem C09_config_payload_overflow : forall t v fw,
  (65535 < fw_blocks fw)%Z -> fw_config_payload t v fw = Raise StructError.
Proof. exact fw_config_payload_overflow. Qed.

Theorem C09_config_echo : forall t v fw p,
  fw_config_payload t v fw = Ok p ->
  fw_hex_to_int p 4 = Ok [t; v; fw_blocks fw; fw_crc fw].
Proof. exact config_echo. Qed.

(* hexlify / unhexlify: both directions, all inputs *)
Theorem C09_unhexlify_hexlify : forall b, bytes_ok b = true -> unhexlify (hexlify b) = Ok b.
Proof. exact unhexlify_hexlify. Qed.

Theorem C09_hexlify_unhexlify : forall s b, unhexlify s = Ok b ->
  bytes_ok b = true /\ hexlify b = map lower_ascii s.
Proof. exact unhexlify_sound. Qed.

(* struct pack / unpack: both directions, all inputs; the only error of pack *)
Theorem C09_unpack_pack : forall ws b, pack_le16 ws = Ok b -> unpack_le16 (List.length ws) b = Ok ws.
Proof. exact unpack_pack. Qed.

Theorem C09_pack_unpack : forall n b ws, bytes_ok b = true -> unpack_le16 n b = Ok ws ->
  pack_le16 ws = Ok b /\ List.length ws = n /\ words_ok ws = true.
Proof. exact pack_unpack. Qed.

Theorem C09_pack_total : forall ws,
  (words_ok ws = true -> pack_le16 ws = Ok (concat (map le16 ws))) /\
  (words_ok ws = false -> pack_le16 ws = Raise StructError).
Proof. intros ws. split; [exact (pack_le16_ok ws)|exact (pack_le16_err ws)]. Qed.

Theorem C09_fw_hex_int_roundtrip : forall ws s,
  fw_int_to_hex ws = Ok s -> fw_hex_to_int s (List.length ws) = Ok ws.
Proof. exact fw_hex_int_roundtrip. Qed.

Theorem C09_fw_hex_to_int_errors : forall s n e, fw_hex_to_int s n = Raise e ->
  e = ValueError \/ e = BinasciiError \/ e = StructError.
Proof. exact fw_hex_to_int_errors. Qed.

(* ---- 4. CRC *)
Theorem C09_crc_range : forall b, bytes_ok b = true -> word_ok (crc16_modbus b) = true.
Proof. exact crc16_range. Qed.

(* catalogue check value of CRC-16/MODBUS *)
Example C09_crc_check_value : crc16_modbus (s2p "123456789") = 19255%Z (* 0x4B37 *).
Proof. vm_compute. reflexivity. Qed.

(* ---- 5. the request handlers *)
(* after ANY history of stream requests a block request is either not answered
   or answered by a function of the firmware dict and the request payload *)
Theorem C09_answers_history_independent : forall st hist n p,
  let st' := fst (serve_all st hist) in
  snd (respond_fw st' n p) = Ok None \/ snd (respond_fw st' n p) = block_answer (o_fw st) p.
Proof. exact block_answer_history_independent. Qed.

Theorem C09_requests_keep_firmware : forall rs st, o_fw (fst (serve_all st rs)) = o_fw st.
Proof. exact serve_all_keeps_fw. Qed.

Theorem C09_block_request_never_raises : forall st n p e, snd (respond_fw st n p) <> Raise e.
Proof. exact respond_fw_no_raise. Qed.

(* a config response advertises the firmware stored under the scheduled id *)
Theorem C09_config_advertises : forall st n p r,
  snd (respond_fw_config st n p) = Ok (Some r) ->
  exists t v fw,
    (ns_get n (o_req st) = Some (t, v) \/ ns_get n (o_uns st) = Some (t, v)) /\
    fw_get (t, v) (o_fw st) = Some fw /\ fw_config_payload t v fw = Ok r.
Proof. exact respond_fw_config_answer. Qed.

(* any sequence of block requests by nodes past their config request - any
   order, any repetition, any mix of nodes - is answered one by one with the
   echo header and the requested block *)
Theorem C09_serve_blocks : forall t v fw reqs st,
  word_ok t = true -> word_ok v = true ->
  fw_get (t, v) (o_fw st) = Some fw ->
  (forall ni, In ni reqs -> active st (fst ni) = true /\ word_ok (snd ni) = true) ->
  snd (serve_all st (map (blk_request t v) reqs)) =
  map (fun ni => Ok (Some (hexlify (le16 t ++ le16 v ++ le16 (snd ni))
                           ++ hexlify (fw_block (fw_data fw) (snd ni))))) reqs.
Proof. exact serve_blocks. Qed.

(* update with an image, the node's config request, then any history: the
   config response advertises blocks and CRC of the prepared image and every
   block request of the node returns that block of the prepared image *)
Theorem C09_end_to_end : forall known st nids t v img n pc ws,
  word_ok t = true -> word_ok v = true ->
  bytes_ok img = true -> (fw_blocks (prepare_fw img) <= 65535)%Z ->
  In n known -> In n nids ->
  fw_hex_to_int pc 5 = Ok ws ->
  let fw := prepare_fw img in
  let st1 := make_update known st nids (AInt t) (AInt v) (Some img) in
  let st2 := fst (respond_fw_config st1 n pc) in
  snd (respond_fw_config st1 n pc) =
    Ok (Some (hexlify (le16 t ++ le16 v ++ le16 (fw_blocks fw) ++ le16 (fw_crc fw)))) /\
  forall (hist : list request) i, word_ok i = true ->
    snd (respond_fw (fst (serve_all st2 hist)) n (req_payload t v i)) =
      Ok (Some (hexlify (le16 t ++ le16 v ++ le16 i) ++ hexlify (fw_block (fw_data fw) i))).
Proof. exact ota_end_to_end. Qed.

(* re-publishing a different image under an id that is already in use: whatever
   the state held before (old image, nodes in mid-download, any history), every
   later block answer for (t, v) - after any further requests, to any node - is
   a block of the NEW prepared image (or no answer) *)
Theorem C09_republish_serves_new : forall known st nids t v img hist n i,
  word_ok t = true -> word_ok v = true -> word_ok i = true ->
  let st1 := make_update known st nids (AInt t) (AInt v) (Some img) in
  let a := snd (respond_fw (fst (serve_all st1 hist)) n (req_payload t v i)) in
  a = Ok None \/
  a = Ok (Some (hexlify (le16 t ++ le16 v ++ le16 i)
                ++ hexlify (fw_block (fw_data (prepare_fw img)) i))).
Proof. exact republish_serves_new. Qed.

(* type / version that are no 16-bit integers are refused, nothing changes *)
Theorem C09_make_update_rejects : forall known st nids ta va bin,
  match arg_int ta, arg_int va with
  | Some t, Some v => word_ok t && word_ok v = false
  | _, _ => True
  end ->
  make_update known st nids ta va bin = st.
Proof. exact make_update_rejects. Qed.

(* the invariant under which the config response cannot raise *)
Theorem C09_invariant :
  ota_ok ota_init /\
  (forall st r, ota_ok st -> ota_ok (fst (serve st r))) /\
  (forall known st nids ta va bin, ota_ok st ->
     match bin with
     | Some img => bytes_ok img = true /\ (fw_blocks (prepare_fw img) <= 65535)%Z
     | None => True
     end -> ota_ok (make_update known st nids ta va bin)) /\
  (forall st n p e, ota_ok st -> snd (respond_fw_config st n p) <> Raise e).
Proof.
  exact (conj ota_init_ok (conj serve_ok (conj make_update_ok respond_fw_config_no_raise))).
Qed.

(* ---- 6. Intel-HEX: loading what our encoder wrote gives the image back *)
Theorem C09_ihex_roundtrip : forall (upper : bool) (n : nat) (img : list N),
  (1 <= n <= 255)%nat -> bytes_ok img = true ->
  (N.of_nat (List.length img) <= 4294967296)%N ->
  ihex_load (ihex_encode upper n img) = Some img.
Proof. exact ihex_roundtrip. Qed.

(* ---- non-vacuity *)
Example C09_example_prepare :
  let f := prepare_fw (repeat 7%N 130) in
  (fw_blocks f, List.length (fw_data f), fw_crc f =? crc16_modbus (fw_data f))%Z = (16%Z, 256%nat, true).
Proof. vm_compute. reflexivity. Qed.

Example C09_example_session :
  let st1 := make_update [1%Z] ota_init [1%Z] (AInt 1) (AStr (s2p " 2 ")) (Some [1; 2; 3]%N) in
  let '(st2, cfg) := respond_fw_config st1 1 (s2p "01000100000000000000") in
  let '(_, blk) := respond_fw st2 1 (s2p "010002000000") in
  (cfg, blk) = (Ok (Some (s2p "0100020008004929")),
                Ok (Some (s2p "010002000000010203ffffffffffffffffffffffffff"))).
Proof. vm_compute. reflexivity. Qed.

(* image A, one block fetched, image B under the same id, new config, block 0 again: B's block and B's CRC *)
Example C09_example_republish :
  let cfgp := s2p "01000100000000000000" in
  let st1 := make_update [1%Z] ota_init [1%Z] (AInt 1) (AInt 2) (Some [1; 2; 3]%N) in
  let st2 := fst (respond_fw_config st1 1 cfgp) in
  let '(st3, a0) := respond_fw st2 1 (req_payload 1 2 0) in
  let st4 := make_update [1%Z] st3 [1%Z] (AInt 1) (AInt 2) (Some [9; 8; 7; 6]%N) in
  let '(st5, cfg) := respond_fw_config st4 1 cfgp in
  let '(_, b0) := respond_fw st5 1 (req_payload 1 2 0) in
  (a0, b0, negb (pstr_eqb (match cfg with Ok (Some c) => c | _ => [] end) (s2p "0100020008004929")))
  = (Ok (Some (s2p "010002000000010203ffffffffffffffffffffffffff")),
     Ok (Some (s2p "01000200000009080706ffffffffffffffffffffffff")), true).
Proof. vm_compute. reflexivity. Qed.

Example C09_example_errors :
  (fw_hex_to_int (s2p "0g") 1, fw_hex_to_int [233%N; 48%N] 1, fw_hex_to_int (s2p "0100") 2,
   fw_int_to_hex [65536%Z], fw_hex_to_int (s2p "FfFe") 1)
  = (Raise BinasciiError, Raise ValueError, Raise StructError, Raise StructError, Ok [65279%Z]).
Proof. vm_compute. reflexivity. Qed.

Example C09_example_ihex :
  ihex_load (s2p ":020000040001F9" ++ [10%N] ++ s2p ":03000200AABBCCCA" ++ [13%N]
             ++ s2p ":0100000011EE" ++ [13%N; 10%N] ++ s2p ":00000001FF")
  = Some [17; 255; 170; 187; 204]%N.
Proof. vm_compute. reflexivity. Qed.

Print Assumptions C09_constants.
Print Assumptions C09_prepare_shape.
Print Assumptions C09_prepare_bytes.
Print Assumptions C09_blocks_concat.
Print Assumptions C09_prepared_blocks.
Print Assumptions C09_block_length.
Print Assumptions C09_block_beyond.
Print Assumptions C09_reassemble_any_order.
Print Assumptions C09_response_payload.
Print Assumptions C09_response_echo.
Print Assumptions C09_config_payload.
Print Assumptions C09_config_payload_overflow.
Print Assumptions C09_config_echo.
Print Assumptions C09_unhexlify_hexlify.
Print Assumptions C09_hexlify_unhexlify.
Print Assumptions C09_unpack_pack.
Print Assumptions C09_pack_unpack.
Print Assumptions C09_pack_total.
Print Assumptions C09_fw_hex_int_roundtrip.
Print Assumptions C09_fw_hex_to_int_errors.
Print Assumptions C09_crc_range.
Print Assumptions C09_answers_history_independent.
Print Assumptions C09_requests_keep_firmware.
Print Assumptions C09_block_request_never_raises.
Print Assumptions C09_config_advertises.
Print Assumptions C09_serve_blocks.
Print Assumptions C09_end_to_end.
Print Assumptions C09_republish_serves_new.
Print Assumptions C09_make_update_rejects.
Print Assumptions C09_invariant.
Print Assumptions C09_ihex_roundtrip.
