(* C06 - node ids are never handed out twice.  Statements only.
   Machine: Model/Gateway.v (next_id, add_sensor, handle_id_request, the dispatcher, step,
   save_tick, restart) over the GENERATED tables and registry (MAX_NODE_ID, I_ID_RESPONSE, which
   handler I_ID_REQUEST resolves to); oracles universally quantified.
   Persistence machine: Proofs/DirtyProofs.v (pop, pstep, prun).
   `id_of_pstep v s o` = the id carried by the id response produced by step o in state s
   (None: the step produces none); tied to handle_id_request by C06_id_of_line_sound/_complete
   and C06_logic_id_request.  `ids_handed` collects them over a history. *)
From Coq Require Import List NArith ZArith Bool String Sorted.
From PMS Require Import Base.PyStr Base.PyInt Base.Exn Model.Codec Model.TableTypes Gen.Tables Model.Validate
  Model.Oracles Model.Hex Model.Ota Model.Gateway Spec.SerialApi Proofs.GwInv
  Spec.TreeMeaning Proofs.TreeProofs Proofs.TreeHistory Proofs.DirtyProofs Proofs.IdProofs.
Import ListNotations.
Open Scope Z_scope.

(* C06.1: the id in an id response: printed in the payload, in 1..254, not a known node before,
   a known node afterwards (reserved at once, appended as a fresh node), above every known id *)
Theorem C06_id_response_fresh :
  forall v g m g' r, cfg_is v (g_cf g) -> in_range (keys (g_sensors g)) ->
    handle_id_request g m = Ok (g', Some r) ->
    exists nid, m_payload r = print nid /\ 1 <= nid <= 254 /\
                zhas nid (g_sensors g) = false /\ zhas nid (g_sensors g') = true /\
                (forall k, zhas k (g_sensors g) = true -> k < nid) /\
                g_sensors g' = g_sensors g ++ [(nid, new_node nid)].
Proof. exact id_response_fresh. Qed.

(* through the dispatcher, every configuration: an accepted id request (3;3) runs
   handle_id_request on the current state itself; its reply is only routed afterwards *)
Theorem C06_logic_id_request :
  forall orc clock v g l m g' r, cfg_is v (g_cf g) -> Inv orc g ->
    decode l = Some m -> gvalidate orc g m = true -> m_type m = 3 -> m_sub m = 3 ->
    logic orc clock g l = Ok (g', r) ->
    exists g1 rep routed, handle_id_request g m = Ok (g1, rep) /\ route_opt g1 rep = (g', routed) /\
                          r = option_map encode routed.
Proof. exact logic_id_request. Qed.

(* the hypothesis of C06.1 holds in every reachable state: keys are in 0..255 *)
Theorem C06_keys_in_range :
  forall orc clock v cf ops, cfg_is v cf -> Forall op_ok ops ->
    in_range (keys (g_sensors (run orc clock (gw_init cf) ops))).
Proof. exact keys_in_range. Qed.

(* C06.2: no step of any history removes a known node id *)
Theorem C06_keys_monotone :
  forall orc clock v ops g k, cfg_is v (g_cf g) -> Inv orc g -> Forall op_ok ops ->
    in_range (keys (g_sensors g)) -> zhas k (g_sensors g) = true ->
    zhas k (g_sensors (run orc clock g ops)) = true /\
    in_range (keys (g_sensors (run orc clock g ops))).
Proof. exact keys_monotone. Qed.

(* id_of_line (inside id_of_pstep) is exactly what handle_id_request answers *)
Theorem C06_id_of_line_sound :
  forall orc v g l n, cfg_is v (g_cf g) -> id_of_line orc v (proj (g_sensors g)) l = Some n ->
    exists m g1 rsp, decode l = Some m /\ gvalidate orc g m = true /\ is_id_request m = true /\
                     handle_id_request g m = Ok (g1, Some rsp) /\ m_payload rsp = print n.
Proof. exact id_of_line_sound. Qed.

Theorem C06_id_of_line_complete :
  forall orc v g l m, cfg_is v (g_cf g) -> decode l = Some m ->
    gvalidate orc g m = true -> is_id_request m = true ->
    id_of_line orc v (proj (g_sensors g)) l = None -> handle_id_request g m = Ok (g, None).
Proof. exact id_of_line_complete. Qed.

(* C06.2 + C06.4 over ALL histories of messages, pump iterations, controller calls, periodic
   saves and - with persistence enabled - clean stop/restarts, both task flavours, all five
   configurations: the ids handed out are pairwise distinct (strictly increasing) and in 1..254 *)
Theorem C06_ids_never_twice :
  forall orc clock v cf pops, cfg_is v cf -> Forall (pop_ok2 cf) pops ->
    NoDup (ids_handed orc clock v (gw_init cf, None) pops) /\
    StronglySorted Z.lt (ids_handed orc clock v (gw_init cf, None) pops) /\
    Forall (fun n => 1 <= n <= 254) (ids_handed orc clock v (gw_init cf, None) pops).
Proof. exact ids_never_twice. Qed.

(* ... and each differs from (exceeds) every node known at the time, and is known afterwards *)
Theorem C06_id_fresh_in_history :
  forall orc clock v cf pops o n, cfg_is v cf -> Forall (pop_ok2 cf) pops -> pop_ok2 cf o ->
    let s := prun orc clock (gw_init cf, None) pops in
    id_of_pstep orc v s o = Some n ->
    1 <= n <= 254 /\ zhas n (g_sensors (fst s)) = false /\
    (forall k, zhas k (g_sensors (fst s)) = true -> k < n) /\
    zhas n (g_sensors (fst (pstep orc clock s o))) = true.
Proof. exact id_fresh_in_history. Qed.

(* C06.3: when no id can be allocated: no response, state unchanged *)
Theorem C06_exhaustion_silent :
  forall v g m k, cfg_is v (g_cf g) -> zhas k (g_sensors g) = true -> 254 <= k ->
    handle_id_request g m = Ok (g, None).
Proof. exact exhaustion_silent. Qed.

Theorem C06_exhaustion_silent_logic :
  forall orc clock v g l m k, cfg_is v (g_cf g) -> Inv orc g ->
    decode l = Some m -> gvalidate orc g m = true -> m_type m = 3 -> m_sub m = 3 ->
    zhas k (g_sensors g) = true -> 254 <= k ->
    logic orc clock g l = Ok (g, None).
Proof. exact exhaustion_silent_logic. Qed.

(* C06.4: a clean stop/restart keeps the whole list of known / reserved ids *)
Theorem C06_restart_keeps_reservations :
  forall orc clock v cf pops, cfg_is v cf -> cf_persist cf = true -> Forall pop_ok pops ->
    let s := prun orc clock (gw_init cf, None) pops in
    keys (g_sensors (fst (pstep orc clock s PRestart))) = keys (g_sensors (fst s)).
Proof. exact restart_keeps_reservations. Qed.

(* non-vacuity.  The D7 scenario: present 1; periodic save; id request; stop+restart; id request
   hands out 2 and then 3 (before the fix of D7 the second request got 2 again) *)
Example C06_d7_scenario :
  let cf := mkConfig tab_22 true true true true in
  let h := [POp (Recv (s2p "1;255;0;0;3;x")); PSave; POp (Recv (s2p "255;255;3;0;3;")); PRestart;
            POp (Recv (s2p "255;255;3;0;3;"))] in
  Forall (pop_ok2 cf) h /\ ids_handed no_oracles 0 V22 (gw_init cf, None) h = [2; 3] /\
  filter (fun e => match e with ESend _ => true | _ => false end)
         (g_log (fst (prun no_oracles 0 (gw_init cf, None) h))) = [ESend (s2p "255;255;3;0;4;3" ++ [nl])].
Proof. split; [repeat constructor|]. vm_compute. split; reflexivity. Qed.

(* threaded flavour: the id is handed out when the pump runs the queued line *)
Example C06_threaded :
  let cf := mkConfig tab_20 true false false false in
  let h := [POp (Recv (s2p "255;255;3;0;3;")); POp (Recv (s2p "255;255;3;0;3;")); POp Pump; POp Pump; POp Pump] in
  ids_handed no_oracles 0 V20 (gw_init cf, None) h = [1; 2].
Proof. vm_compute. reflexivity. Qed.

(* exhaustion: node 254 known: an id request changes nothing and is not answered *)
Example C06_exhausted :
  let cf := mkConfig tab_22 true true true true in
  let g := run no_oracles 0 (gw_init cf) [Recv (s2p "254;255;0;0;3;x")] in
  zhas 254 (g_sensors g) = true /\
  step no_oracles 0 g (Recv (s2p "255;255;3;0;3;")) = g.
Proof. vm_compute. split; reflexivity. Qed.

(* the persistence hypothesis on restarts is needed: without persistence a restart forgets *)
Example C06_without_persistence_restart_forgets :
  let cf := mkConfig tab_22 true true true false in
  ids_handed no_oracles 0 V22 (gw_init cf, None)
    [POp (Recv (s2p "255;255;3;0;3;")); PRestart; POp (Recv (s2p "255;255;3;0;3;"))] = [1; 1].
Proof. vm_compute. reflexivity. Qed.

Print Assumptions C06_id_response_fresh.
Print Assumptions C06_logic_id_request.
Print Assumptions C06_keys_in_range.
Print Assumptions C06_keys_monotone.
Print Assumptions C06_id_of_line_sound.
Print Assumptions C06_id_of_line_complete.
Print Assumptions C06_ids_never_twice.
Print Assumptions C06_id_fresh_in_history.
Print Assumptions C06_exhaustion_silent.
Print Assumptions C06_exhaustion_silent_logic.
Print Assumptions C06_restart_keeps_reservations.
