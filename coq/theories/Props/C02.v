(* C02 - wire codec is a faithful, canonical round trip.  Statements only. *)
From Coq Require Import List NArith ZArith Bool String.
From PMS Require Import Base.PyStr Base.PyInt Base.Exn Model.Codec Proofs.CodecProofs Proofs.PyIntFacts.
Import ListNotations.

(* every integer survives str() then int() *)
Theorem C02_int_roundtrip : forall z : Z, parse (print z) = Some z.
Proof. exact parse_print. Qed.

(* encode then decode: same six fields, for every header in Z and every
   payload without ';' and without a trailing str.isspace character
   (inner line breaks included: stronger than the property asks) *)
Theorem C02_decode_encode :
  forall m : msg, wire_ok (m_payload m) = true -> decode (encode m) = Some m.
Proof. exact decode_encode. Qed.

(* decode then encode: one canonical line that decodes to the same message;
   a canonical input is reproduced byte for byte *)
Theorem C02_encode_decode_canonical :
  forall (l : pstr) (m : msg), decode l = Some m ->
    canonical (encode m) /\ decode (encode m) = Some m /\ (canonical l -> encode m = l).
Proof. exact encode_decode_canonical. Qed.

Theorem C02_canonical_shape :
  forall l, canonical l ->
    exists b, l = b ++ [nl] /\ no_trailing isspace b = true /\ List.length (split semi b) = 6%nat.
Proof. exact canonical_shape. Qed.

(* copy = original with exactly the replaced fields overridden *)
Theorem C02_copy_spec :
  forall m r, wire_ok (m_payload m) = true -> copy m r = Ok (override m r).
Proof. exact copy_spec. Qed.

(* non-vacuity: a non-trivial spelling is accepted and canonicalised *)
Example C02_example :
  option_map encode (decode (s2p " 1_0;+2;-3; 0 ;007;hello w  ")) = Some (s2p "10;2;-3;0;7;hello w" ++ [nl]).
Proof. vm_compute. reflexivity. Qed.

Print Assumptions C02_int_roundtrip.
Print Assumptions C02_decode_encode.
Print Assumptions C02_encode_decode_canonical.
Print Assumptions C02_canonical_shape.
Print Assumptions C02_copy_spec.
