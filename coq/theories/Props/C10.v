(* C10 - OTA sessions are gated, restartable and terminate.  Statements only.

   Machine: Model/Gateway.v (record ota: o_requested / o_unstarted / o_started / o_fw;
   ota_get_fw, respond_fw_config, respond_fw, update_fw, handle_stream, handle_set,
   handle_presentation, run_leaf, logic, step, run) over the GENERATED tables and registry;
   byte level: Model/Hex.v, Model/Ota.v.  Reference automaton: Spec/OtaSession.v
   (Idle | Requested k | Offered k | Fetching k; inputs Update k, CfgReq, BlkReq k' i,
   Malformed; outputs CfgResp k, BlkResp k' i, none).  Oracles and clock are universally
   quantified.  Definitions used in the statements (Proofs/OtaSessionProofs.v):

     abs o n            which of the three stores holds node n (Requested / Offered / Fetching / Idle)
     sess_inv o         the three stores have unique keys and at most one of them holds a node
     ids_ok g           every node object is filed under its own id;  SInv g = sess_inv /\ ids_ok
     fw_avail o         an image is stored for the key of every session that is not Idle
     known g n          n is a key of gateway.sensors;  reboot_flag g n = sensors[n].reboot (false if unknown)
     stream_input m     the automaton input of a stream message: sub-type 0 -> CfgReq when the payload is
                        the hex of 5 words else Malformed; sub-type 2 -> BlkReq (t,v) i when it is the hex
                        of 3 words else Malformed; other sub-types -> none
     offer_reply fws m out   the message an automaton output becomes: CfgResp (t,v) -> sub-type 1 with
                        payload fw_config_payload t v f, BlkResp (t,v) i -> sub-type 3 with payload
                        fw_response_payload t v i f, f the image stored for (t,v); nothing when no image is
                        stored for that key; a packing error (struct.error) propagates
     update_key g ft fv bin  Some (t,v) iff the update call schedules: int(type)=t, int(version)=v, both in
                        0..65535, and an image is given (non-empty) or already stored for (t,v)
     line_of g o        the line the dispatcher runs on in step o (Recv in the asyncio flavour, Pump with a
                        queued line in the threaded flavour);  schedules / presents / request_of: what step o
                        means for node n (scheduling update call / accepted node presentation / stream request)
     hex_request_ok s w      s is exactly 4*w hexadecimal digits (either case), nothing else *)
From Coq Require Import List NArith ZArith Bool String.
From PMS Require Import Base.PyStr Base.Exn Model.Codec Model.TableTypes Gen.Tables Model.Validate
  Model.Oracles Model.Hex Model.Ota Model.Gateway Spec.SerialApi Spec.OtaSession
  Proofs.HexProofs Proofs.GwLemmas Proofs.GwInv Proofs.OtaSessionProofs.
Import ListNotations.
Open Scope Z_scope.

(* ------------------------------------------------------------------ 0. the reference automaton *)

(* the automaton of Spec/OtaSession.v has the shape the property asks for: the config response
   is repeated until the first block request and then withheld; Fetching absorbs every input
   but Update; Update restarts from any state; Malformed is a no-op *)
Theorem C10_spec_progress :
  forall k k' i, srun (Requested k) [CfgReq; CfgReq; BlkReq k' i; CfgReq] =
                 (Fetching k, [CfgResp k; CfgResp k; BlkResp k' i; NoOut]).
Proof. exact spec_progress. Qed.
Theorem C10_spec_no_reflash :
  forall k is, forallb (fun i => negb (is_update i)) is = true ->
    fst (srun (Fetching k) is) = Fetching k /\
    forallb (fun o => negb (is_cfg_resp o)) (snd (srun (Fetching k) is)) = true.
Proof. exact spec_no_reflash. Qed.
Theorem C10_spec_restart_and_malformed :
  forall s k, fst (sstep s (Update k)) = Requested k /\ sstep s Malformed = (s, NoOut).
Proof. exact spec_restart_malformed. Qed.

(* ------------------------------------------------------------------ 1. abstraction and invariant *)

(* under the invariant, abs is the graph of "store X holds n": it does not depend on the order
   in which the stores are inspected *)
Theorem C10_abs_well_defined :
  forall o n, sess_inv o ->
    (forall k, abs o n = Requested k <-> zassoc n (o_requested o) = Some k) /\
    (forall k, abs o n = Offered k <-> zassoc n (o_unstarted o) = Some k) /\
    (forall k, abs o n = Fetching k <-> zassoc n (o_started o) = Some k) /\
    (abs o n = Idle <-> zassoc n (o_requested o) = None /\ zassoc n (o_unstarted o) = None /\
                        zassoc n (o_started o) = None).
Proof. exact abs_well_defined. Qed.

(* every state reachable from a fresh gateway by ANY history (any lines, pump iterations,
   set_child_value / update_fw / metric calls, both task flavours, all five configurations)
   satisfies the invariant, and an image is stored for the key of every scheduled session *)
Theorem C10_reachable_invariant :
  forall orc clock cf ops, cfg_ok cf ->
    let g := run orc clock (gw_init cf) ops in
    sess_inv (g_ota g) /\ ids_ok g /\ fw_avail (g_ota g) /\ g_cf g = cf.
Proof. exact reachable_invariant. Qed.

(* one step keeps the invariant and moves every session either by a non-update input of the
   automaton or - only in an update call that names the node while it is known and has a key -
   to Requested *)
Theorem C10_step_invariant :
  forall orc clock g o, cfg_ok (g_cf g) -> SInv g ->
    SInv (step orc clock g o) /\ g_cf (step orc clock g o) = g_cf g /\
    (forall n, known g n = true -> known (step orc clock g o) n = true) /\
    fw_after g o (o_fw (g_ota (step orc clock g o))) /\
    forall n, moved g o n (abs (g_ota g) n) (abs (g_ota (step orc clock g o)) n).
Proof. exact step_weak. Qed.

(* ------------------------------------------------------------------ 2. session_refines *)

(* an accepted stream message (type 4) of sub-type 0 / 2 from a KNOWN node: the dispatcher does
   exactly the automaton step for that node - same next state, reply = the automaton's output
   (config response for the SCHEDULED key; block response for the REQUESTED key and block; no
   reply, but the same state change, when no image is stored for that key) - every other
   session, the firmware dictionary, the sensors, the job queue are untouched, and log / dirty
   flag change exactly as by the callback alert of handle_stream *)
Theorem C10_session_refines_request :
  forall orc clock g l m i,
    cfg_ok (g_cf g) -> sess_inv (g_ota g) ->
    decode l = Some m -> gvalidate orc g m = true -> m_type m = 4 -> known g (m_node m) = true ->
    stream_input m = Some i ->
    let so := sstep (abs (g_ota g) (m_node m)) i in
    exists g',
      logic orc clock g l =
        (do rm <- offer_reply (o_fw (g_ota g)) m (snd so); Ok (g', option_map encode rm)) /\
      sess_inv (g_ota g') /\ o_fw (g_ota g') = o_fw (g_ota g) /\
      abs (g_ota g') (m_node m) = fst so /\
      (forall n, n <> m_node m -> abs (g_ota g') n = abs (g_ota g) n) /\
      same_core g g' /\ g_log g' = g_log (alert g m) /\ g_dirty g' = g_dirty (alert g m).
Proof. exact logic_stream_request. Qed.

(* the same at the level of the two leaf handlers (before handle_stream's alert) *)
Theorem C10_respond_fw_config_refines :
  forall g m, tabfacts (tab g) (cf_ge20 (g_cf g)) -> sess_inv (g_ota g) -> wire_ok (m_payload m) = true ->
    leaf_sim g m (cfg_input m) (respond_fw_config g m).
Proof. exact respond_fw_config_sim. Qed.
Theorem C10_respond_fw_refines :
  forall g m, tabfacts (tab g) (cf_ge20 (g_cf g)) -> sess_inv (g_ota g) -> wire_ok (m_payload m) = true ->
    leaf_sim g m (blk_input m) (respond_fw g m).
Proof. exact respond_fw_sim. Qed.

(* accepted stream message of any other sub-type from a known node: nothing at all *)
Theorem C10_stream_other_subtype_noop :
  forall orc clock g l m,
    cfg_ok (g_cf g) -> decode l = Some m -> gvalidate orc g m = true -> m_type m = 4 ->
    known g (m_node m) = true -> stream_input m = None ->
    logic orc clock g l = Ok (g, None).
Proof. exact logic_stream_other. Qed.

(* every other accepted line (presentation of a child, set, req, internal): the OTA state, node
   ids and reboot flags are untouched (frame = g_ota equal, configuration equal, known nodes stay
   known, ids_ok kept, every reboot flag equal) *)
Theorem C10_other_lines_frame :
  forall orc clock g l m g' r,
    cfg_ok (g_cf g) -> decode l = Some m -> gvalidate orc g m = true ->
    m_type m <> 4 -> ~ (m_type m = 0 /\ m_child m = 255) ->
    logic orc clock g l = Ok (g', r) -> frame g g'.
Proof. exact logic_other_frame. Qed.

(* every leaf handler of the registry other than the two firmware request handlers, and the
   controller call set_child_value *)
Theorem C10_leaf_handlers_frame :
  forall orc clock h g m g' r, is_fw_leaf h = false -> run_leaf orc clock h g m = Ok (g', r) -> frame g g'.
Proof. exact frame_run_leaf. Qed.
Theorem C10_set_child_value_frame :
  forall orc g s c vt v mt a g', set_child_value orc g s c vt v mt a = Ok g' -> frame g g'.
Proof. exact frame_set_child_value. Qed.

(* the update call: never raises; without a key (bad / out-of-range type or version, failed
   load, no image) NOTHING changes (stores, firmware dictionary, sensors); with key (t,v) the
   image (if given) is stored, exactly the KNOWN nodes named move to Requested (t,v) from
   whatever state (restart) and get their reboot flag set, unknown ids are skipped *)
Theorem C10_update_call :
  forall g nids fwt fwv bin, sess_inv (g_ota g) -> ids_ok g ->
  exists g', update_fw g nids fwt fwv bin = Ok g' /\
    sess_inv (g_ota g') /\ ids_ok g' /\ g_cf g' = g_cf g /\
    g_log g' = g_log g /\ g_jobs g' = g_jobs g /\ g_dirty g' = g_dirty g /\ g_metric g' = g_metric g /\
    (forall n, known g' n = known g n) /\
    match update_key g fwt fwv bin with
    | None =>
        same_sessions (g_ota g) (g_ota g') /\ o_fw (g_ota g') = o_fw (g_ota g) /\ g_sensors g' = g_sensors g
    | Some (t, v) =>
        0 <= t <= 65535 /\ 0 <= v <= 65535 /\ vt_int fwt = Some t /\ vt_int fwv = Some v /\
        (exists f, fw_lookup t v (o_fw (g_ota g')) = Some f) /\
        o_fw (g_ota g') = match bin with
                          | Some b => fw_store t v (prepare_fw b) (o_fw (g_ota g))
                          | None => o_fw (g_ota g)
                          end /\
        (forall n, abs (g_ota g') n =
                   if zmem n nids && known g n then Requested (t, v) else abs (g_ota g) n) /\
        (forall n, reboot_flag g' n = if zmem n nids && known g n then true else reboot_flag g n)
    end.
Proof. exact update_fw_spec. Qed.

(* what having a key means *)
Theorem C10_update_key_sound :
  forall g ft fv bin t v, update_key g ft fv bin = Some (t, v) ->
    vt_int ft = Some t /\ vt_int fv = Some v /\ 0 <= t <= 65535 /\ 0 <= v <= 65535 /\
    ((exists b0 br, bin = Some (b0 :: br)) \/
     (bin = None /\ exists f, fw_lookup t v (o_fw (g_ota g)) = Some f)).
Proof. exact update_key_sound. Qed.

(* the whole machine, one step, exactly: in a state satisfying the C01 invariant (so that the
   dispatcher cannot raise) the session of every node after ANY step is the automaton's *)
Theorem C10_session_refines_step :
  forall orc clock g o n, cfg_ok (g_cf g) -> Inv orc g -> SInv g ->
    abs (g_ota (step orc clock g o)) n =
      match schedules g o n with
      | Some k => Requested k
      | None => match request_of orc g o n with
                | Some i => fst (sstep (abs (g_ota g) n) i)
                | None => abs (g_ota g) n
                end
      end.
Proof. exact session_step_exact. Qed.

(* ------------------------------------------------------------------ 3. the property's words *)

(* gated (history): a session that is not Idle was scheduled, with its key, by an earlier update
   call that named the node while it was known and had a key (C10_update_key_sound: integers in
   range, firmware available) *)
Theorem C10_gated_history :
  forall orc clock cf ops n k, cfg_ok cf ->
    key_of (abs (g_ota (run orc clock (gw_init cf) ops)) n) = Some k ->
    exists pre ns ft fv bin post,
      ops = pre ++ UpdateFw ns ft fv bin :: post /\
      update_key (run orc clock (gw_init cf) pre) ft fv bin = Some k /\
      zmem n ns = true /\ known (run orc clock (gw_init cf) pre) n = true.
Proof. exact gated_history. Qed.

(* gated (per line): whatever the line, if the dispatcher replies with a stream message, that
   message is a config (1) or block (3) response addressed to a known node whose session is
   not Idle *)
Theorem C10_gated_reply :
  forall orc clock g l g' rl, cfg_ok (g_cf g) -> sess_inv (g_ota g) ->
    logic orc clock g l = Ok (g', Some rl) ->
    exists x, rl = encode x /\
      (m_type x = 4 -> known g (m_node x) = true /\ abs (g_ota g) (m_node x) <> Idle /\
                       (m_sub x = 1 \/ m_sub x = 3)).
Proof. exact gated_reply. Qed.

(* and precisely: config request answered only in Requested / Offered, block request only in
   Offered / Fetching (Requested never yields block responses) *)
Theorem C10_stream_reply_gated :
  forall orc clock g l m g' rl,
    cfg_ok (g_cf g) -> sess_inv (g_ota g) -> decode l = Some m -> gvalidate orc g m = true -> m_type m = 4 ->
    logic orc clock g l = Ok (g', Some rl) ->
    known g (m_node m) = true /\
    exists x k, rl = encode x /\ m_node x = m_node m /\ m_type x = 4 /\
      ((m_sub m = 0 /\ m_sub x = 1 /\
        (abs (g_ota g) (m_node m) = Requested k \/ abs (g_ota g) (m_node m) = Offered k)) \/
       (m_sub m = 2 /\ m_sub x = 3 /\
        (abs (g_ota g) (m_node m) = Offered k \/ abs (g_ota g) (m_node m) = Fetching k))).
Proof. exact stream_reply_gated. Qed.

Theorem C10_non_stream_line_not_answered_with_stream :
  forall orc clock g l m g' rl,
    cfg_ok (g_cf g) -> decode l = Some m -> gvalidate orc g m = true -> m_type m <> 4 ->
    logic orc clock g l = Ok (g', Some rl) -> exists x, rl = encode x /\ m_type x <> 4.
Proof. exact non_stream_reply. Qed.

(* no re-flash loop: while a node is Fetching, NO line whatsoever is answered with a config
   response for it ... *)
Theorem C10_no_reflash_loop :
  forall orc clock g l g' rl n k, cfg_ok (g_cf g) -> sess_inv (g_ota g) ->
    abs (g_ota g) n = Fetching k -> logic orc clock g l = Ok (g', Some rl) ->
    exists x, rl = encode x /\ ~ (m_node x = n /\ m_type x = 4 /\ m_sub x = 1).
Proof. exact no_reflash_loop. Qed.

(* ... and it stays Fetching, with the same key, over any history in which no update call names it *)
Theorem C10_fetching_stable :
  forall orc clock ops g n k, cfg_ok (g_cf g) -> SInv g ->
    abs (g_ota g) n = Fetching k -> forallb (fun o => negb (names n o)) ops = true ->
    abs (g_ota (run orc clock g ops)) n = Fetching k.
Proof. exact fetching_stable. Qed.

(* the config response is repeated until the node starts fetching: in Requested / Offered every
   well-formed config request is answered with the payload for the SCHEDULED key *)
Theorem C10_config_repeated_until_fetch :
  forall orc clock g l m t v f,
    cfg_ok (g_cf g) -> sess_inv (g_ota g) ->
    decode l = Some m -> gvalidate orc g m = true -> m_type m = 4 -> m_sub m = 0 ->
    known g (m_node m) = true -> hex_request_ok (m_payload m) 5 = true ->
    (abs (g_ota g) (m_node m) = Requested (t, v) \/ abs (g_ota g) (m_node m) = Offered (t, v)) ->
    fw_lookup t v (o_fw (g_ota g)) = Some f ->
    exists g',
      logic orc clock g l =
        (do p <- fw_config_payload t v f; Ok (g', Some (encode (stream_reply m 1 p)))) /\
      abs (g_ota g') (m_node m) = Offered (t, v) /\ sess_inv (g_ota g').
Proof. exact config_repeated_until_fetch. Qed.

(* in reachable states (images whose block count fits the 16-bit header word: op_ok) the image
   IS stored and the packing cannot fail: the request is answered, explicitly *)
Theorem C10_config_answered_reachable :
  forall orc clock cf ops l m t v, cfg_ok cf -> Forall op_ok ops ->
    let g := run orc clock (gw_init cf) ops in
    decode l = Some m -> gvalidate orc g m = true -> m_type m = 4 -> m_sub m = 0 ->
    known g (m_node m) = true -> hex_request_ok (m_payload m) 5 = true ->
    (abs (g_ota g) (m_node m) = Requested (t, v) \/ abs (g_ota g) (m_node m) = Offered (t, v)) ->
    exists f g',
      fw_lookup t v (o_fw (g_ota g)) = Some f /\
      logic orc clock g l =
        Ok (g', Some (encode (stream_reply m 1
               (hexlify (le16 t ++ le16 v ++ le16 (fw_blocks f) ++ le16 (fw_crc f)))))) /\
      abs (g_ota g') (m_node m) = Offered (t, v).
Proof. exact config_answered_reachable. Qed.

(* a well-formed block request in Offered / Fetching: the node is Fetching afterwards; the reply
   is the block of the image stored for the REQUESTED key; when none is stored there is no
   reply but the session has moved all the same (observation recorded in the notes) *)
Theorem C10_block_request_served :
  forall orc clock g l m k rt rv rb,
    cfg_ok (g_cf g) -> sess_inv (g_ota g) ->
    decode l = Some m -> gvalidate orc g m = true -> m_type m = 4 -> m_sub m = 2 ->
    known g (m_node m) = true -> fw_hex_to_int (m_payload m) 3 = Ok [rt; rv; rb] ->
    (abs (g_ota g) (m_node m) = Offered k \/ abs (g_ota g) (m_node m) = Fetching k) ->
    exists g',
      logic orc clock g l =
        match fw_lookup rt rv (o_fw (g_ota g)) with
        | Some f => do p <- fw_response_payload rt rv rb f; Ok (g', Some (encode (stream_reply m 3 p)))
        | None => Ok (g', None)
        end /\
      abs (g_ota g') (m_node m) = Fetching k /\ sess_inv (g_ota g').
Proof. exact block_request_served. Qed.
Theorem C10_block_payload_never_fails :
  forall p rt rv rb f, fw_hex_to_int p 3 = Ok [rt; rv; rb] ->
    fw_response_payload rt rv rb f =
      Ok (hexlify (le16 rt ++ le16 rv ++ le16 rb) ++ hexlify (fw_block (fw_data f) rb)).
Proof. exact block_payload_ok. Qed.

(* restart: an update call with a key moves every known node it names to Requested, from ANY state *)
Theorem C10_restart :
  forall g ns ft fv bin n k, SInv g ->
    update_key g ft fv bin = Some k -> zmem n ns = true -> known g n = true ->
    exists g', update_fw g ns ft fv bin = Ok g' /\ abs (g_ota g') n = Requested k /\ reboot_flag g' n = true.
Proof. exact restart. Qed.

Theorem C10_update_without_effect :
  forall g ns ft fv bin, SInv g ->
    (update_key g ft fv bin = None \/ forall n, zmem n ns = true -> known g n = false) ->
    exists g', update_fw g ns ft fv bin = Ok g' /\
      forall n, abs (g_ota g') n = abs (g_ota g) n /\ reboot_flag g' n = reboot_flag g n.
Proof. exact update_without_effect. Qed.

(* stream message from a node the gateway does not know: no reply; nothing changes except that a
   >= 2.0 gateway asks the node to present itself ("n;255;3;0;19;") *)
Theorem C10_stream_from_unknown_node_ignored :
  forall orc clock g l m,
    cfg_ok (g_cf g) -> decode l = Some m -> gvalidate orc g m = true -> m_type m = 4 ->
    known g (m_node m) = false ->
    logic orc clock g l =
      Ok (if cf_ge20 (g_cf g) then add_job_send g (encode (mkMsg (m_node m) 255 3 0 19 [])) else g, None).
Proof. exact logic_stream_unknown. Qed.

(* ------------------------------------------------------------------ 4. malformed_ignored *)

(* a firmware config / firmware request from a known node whose payload does not unpack: no
   exception, no reply, and the state is EXACTLY alert g m - the callback / dirty mark of
   handle_stream; g_ota, sensors, jobs are untouched *)
Theorem C10_malformed_ignored :
  forall orc clock g l m,
    cfg_ok (g_cf g) -> decode l = Some m -> gvalidate orc g m = true -> m_type m = 4 ->
    known g (m_node m) = true ->
    ((m_sub m = 0 /\ exists e, fw_hex_to_int (m_payload m) 5 = Raise e) \/
     (m_sub m = 2 /\ exists e, fw_hex_to_int (m_payload m) 3 = Raise e)) ->
    logic orc clock g l = Ok (alert g m, None).
Proof. exact logic_malformed. Qed.

Theorem C10_alert_changes_log_and_dirty_only :
  forall g m, g_sensors (alert g m) = g_sensors g /\ g_ota (alert g m) = g_ota g /\ g_cf (alert g m) = g_cf g /\
              g_jobs (alert g m) = g_jobs g /\ g_metric (alert g m) = g_metric g.
Proof. exact alert_frame. Qed.

(* which payloads are malformed: exactly those that are not 4*words hexadecimal digits
   (odd length, wrong length, a non-hex or non-ASCII character, white space, sign, prefix) *)
Theorem C10_malformed_iff :
  forall s words, (exists e, fw_hex_to_int s words = Raise e) <-> hex_request_ok s words = false.
Proof. exact fw_hex_to_int_raises_iff. Qed.
Theorem C10_malformed_exceptions :
  forall s words e, fw_hex_to_int s words = Raise e ->
    e = ValueError \/ e = BinasciiError \/ e = StructError.
Proof. exact fw_hex_to_int_errors. Qed.

(* ------------------------------------------------------------------ 5. reboot_window *)

(* the flag after ANY step, exactly: set by an update call that schedules the node, cleared by
   an accepted node presentation, untouched by everything else - so it is true exactly from
   the update call to the next node presentation *)
Theorem C10_reboot_window :
  forall orc clock g o n, cfg_ok (g_cf g) -> SInv g ->
    reboot_flag (step orc clock g o) n =
      match schedules g o n with
      | Some _ => true
      | None => if presents orc g o n then false else reboot_flag g n
      end.
Proof. exact reboot_flag_step. Qed.

(* set message from a KNOWN child: the reply, before routing, is (node, 255, internal=3, 0,
   I_REBOOT=13, "") iff the flag is set *)
Theorem C10_set_known_child_reboot_reply :
  forall g m nd,
    tabfacts (tab g) (cf_ge20 (g_cf g)) -> wire_ok (m_payload m) = true ->
    get_node g (m_node m) = Some nd -> zhas (m_child m) (n_children nd) = true ->
    handle_set g m =
      Ok (alert (put_node g (update_child_value nd (m_child m) (m_sub m) (m_payload m))) m,
          if n_reboot nd then Some (mkMsg (m_node m) 255 3 0 13 []) else None).
Proof. exact handle_set_known_child. Qed.

(* the table facts hold for the five configurations (I_REBOOT = 13 etc. are finite facts about
   the generated tables, checked per version) *)
Theorem C10_table_facts : forall g, cfg_ok (g_cf g) -> tabfacts (tab g) (cf_ge20 (g_cf g)).
Proof. exact tabfacts_of_cfg. Qed.

(* set message for an unknown child: no reboot request *)
Theorem C10_set_unknown_child_no_reboot :
  forall g m g1 r,
    (forall nd, get_node g (m_node m) = Some nd -> zhas (m_child m) (n_children nd) = false) ->
    handle_set g m = Ok (g1, r) -> r = None.
Proof. exact handle_set_unknown_child. Qed.

(* through the dispatcher: sent at once to an awake node, queued for the next wake-up of a
   smart-sleep node *)
Theorem C10_set_line_reboot :
  forall orc clock g l m nd,
    cfg_ok (g_cf g) -> ids_ok g -> decode l = Some m -> gvalidate orc g m = true -> m_type m = 1 ->
    get_node g (m_node m) = Some nd -> zhas (m_child m) (n_children nd) = true -> n_reboot nd = true ->
    exists g', logic orc clock g l =
                 Ok (g', if sleeping nd then None else Some (encode (mkMsg (m_node m) 255 3 0 13 []))) /\
      frame g g' /\
      (sleeping nd = true -> exists nd', get_node g' (m_node m) = Some nd' /\
           n_queue nd' = n_queue nd ++ [encode (mkMsg (m_node m) 255 3 0 13 [])]).
Proof. exact logic_set_reboot. Qed.

Theorem C10_set_line_no_reboot_after_presentation :
  forall orc clock g l m nd,
    cfg_ok (g_cf g) -> decode l = Some m -> gvalidate orc g m = true -> m_type m = 1 ->
    get_node g (m_node m) = Some nd -> zhas (m_child m) (n_children nd) = true -> n_reboot nd = false ->
    exists g', logic orc clock g l = Ok (g', None).
Proof. exact logic_set_no_reboot. Qed.

(* node presentation: never raises, clears the flag of that node only, OTA state untouched *)
Theorem C10_node_presentation_clears_reboot :
  forall orc clock g l m,
    cfg_ok (g_cf g) -> decode l = Some m -> gvalidate orc g m = true -> m_type m = 0 -> m_child m = 255 ->
    exists g', logic orc clock g l = Ok (g', None) /\
      g_ota g' = g_ota g /\ g_cf g' = g_cf g /\
      (forall n, known g n = true -> known g' n = true) /\ known g' (m_node m) = true /\
      (ids_ok g -> ids_ok g' /\ reboot_flag g' (m_node m) = false /\
                   forall n, n <> m_node m -> reboot_flag g' n = reboot_flag g n).
Proof. exact logic_node_presentation. Qed.

(* ------------------------------------------------------------------ 6. session_terminates *)

(* from Requested: one well-formed config request and one well-formed block request later the
   node is Fetching, and from then on - over any history in which no update call names it -
   it stays Fetching and no line is answered with a config response for it *)
Theorem C10_session_terminates :
  forall orc clock g l1 m1 g1 r1 l2 m2 g2 r2 n k ws rt rv rb,
    cfg_ok (g_cf g) -> SInv g -> known g n = true -> abs (g_ota g) n = Requested k ->
    decode l1 = Some m1 -> gvalidate orc g m1 = true -> m_type m1 = 4 -> m_sub m1 = 0 -> m_node m1 = n ->
    fw_hex_to_int (m_payload m1) 5 = Ok ws ->
    logic orc clock g l1 = Ok (g1, r1) ->
    decode l2 = Some m2 -> gvalidate orc g m2 = true -> m_type m2 = 4 -> m_sub m2 = 2 -> m_node m2 = n ->
    fw_hex_to_int (m_payload m2) 3 = Ok [rt; rv; rb] ->
    logic orc clock g1 l2 = Ok (g2, r2) ->
    abs (g_ota g1) n = Offered k /\ abs (g_ota g2) n = Fetching k /\
    (forall ops, forallb (fun o => negb (names n o)) ops = true ->
       let g3 := run orc clock g2 ops in
       abs (g_ota g3) n = Fetching k /\
       forall l g' rl, logic orc clock g3 l = Ok (g', Some rl) ->
         exists x, rl = encode x /\ ~ (m_node x = n /\ m_type x = 4 /\ m_sub x = 1)).
Proof. exact session_terminates. Qed.

(* ------------------------------------------------------------------ non-vacuity *)

Definition c10_img : list N := [1;2;3;4;5;6;7;8;9;10;11;12;13;14;15;16;17;18;19;20]%N.
Definition c10_cf : config := mkConfig tab_22 true true false false.
Definition c10_h0 : list op :=
  [Recv (s2p "1;255;0;0;3;x"); Recv (s2p "1;1;0;0;6;t"); UpdateFw [1; 7] (VtInt 1) (VtStr (s2p "1")) (Some c10_img)].
Definition c10_g0 : gw := run no_oracles 0 (gw_init c10_cf) c10_h0.
Definition c10_cfgreq : pstr := s2p "1;255;4;0;0;01000100000000000000".
Definition c10_blkreq : pstr := s2p "1;255;4;0;2;010001000000".
Definition c10_new_events (g g' : gw) : list event := skipn (List.length (g_log g)) (g_log g').

Example C10_cfg_exists : cfg_ok c10_cf.
Proof. exists V22. split; reflexivity. Qed.

(* present node 1 (and a child), update_fw([1, 7], 1, "1", image): node 1 Requested, flag set;
   the unknown id 7 is skipped *)
Example C10_ex_scheduled :
  abs (g_ota c10_g0) 1 = Requested (1, 1) /\ reboot_flag c10_g0 1 = true /\ known c10_g0 1 = true /\
  abs (g_ota c10_g0) 7 = Idle /\ known c10_g0 7 = false /\
  update_key (run no_oracles 0 (gw_init c10_cf) (firstn 2 c10_h0)) (VtInt 1) (VtStr (s2p "1")) (Some c10_img) = Some (1, 1).
Proof. vm_compute. repeat split; reflexivity. Qed.

(* config request -> config response "1;255;4;0;1;010001000800d85f" (8 blocks, CRC 0x5fd8) *)
Example C10_ex_config_response :
  let g1 := step no_oracles 0 c10_g0 (Recv c10_cfgreq) in
  abs (g_ota g1) 1 = Offered (1, 1) /\
  c10_new_events c10_g0 g1 = [ESend (s2p "1;255;4;0;1;010001000800d85f" ++ [nl])].
Proof. vm_compute. split; reflexivity. Qed.

(* repeated config request -> repeated response; block request -> block 0; then a config
   request is no longer answered *)
Example C10_ex_session :
  let g1 := run no_oracles 0 c10_g0 [Recv c10_cfgreq; Recv c10_cfgreq] in
  let g2 := step no_oracles 0 g1 (Recv c10_blkreq) in
  let g3 := step no_oracles 0 g2 (Recv c10_cfgreq) in
  abs (g_ota g1) 1 = Offered (1, 1) /\
  c10_new_events c10_g0 g1 = [ESend (s2p "1;255;4;0;1;010001000800d85f" ++ [nl]);
                              ESend (s2p "1;255;4;0;1;010001000800d85f" ++ [nl])] /\
  abs (g_ota g2) 1 = Fetching (1, 1) /\
  c10_new_events g1 g2 = [ESend (s2p "1;255;4;0;3;0100010000000102030405060708090a0b0c0d0e0f10" ++ [nl])] /\
  abs (g_ota g3) 1 = Fetching (1, 1) /\ c10_new_events g2 g3 = [].
Proof. vm_compute. repeat split; reflexivity. Qed.

(* malformed requests (non-hex, truncated, over-long, odd) from the scheduled node: no reply,
   session unchanged; a stream request from the unknown node 9: only the presentation request *)
Example C10_ex_malformed :
  let g1 := run no_oracles 0 c10_g0
              [Recv (s2p "1;255;4;0;0;zz"); Recv (s2p "1;255;4;0;0;0100010000000000"); Recv (s2p "1;255;4;0;2;0100010000000");
               Recv (s2p "1;255;4;0;2;01000100000000")] in
  let g2 := step no_oracles 0 g1 (Recv (s2p "9;255;4;0;0;01000100000000000000")) in
  g_ota g1 = g_ota c10_g0 /\ c10_new_events c10_g0 g1 = [] /\
  hex_request_ok (s2p "zz") 5 = false /\ hex_request_ok (s2p "01000100000000000000") 5 = true /\
  g_ota g2 = g_ota c10_g0 /\ c10_new_events g1 g2 = [ESend (s2p "9;255;3;0;19;" ++ [nl])].
Proof. vm_compute. repeat split; reflexivity. Qed.

(* reboot window: a set message from the known child 1 is answered with "1;255;3;0;13;" until
   node 1 presents itself again; a set for the unknown child 2 is not *)
Example C10_ex_reboot_window :
  let g1 := step no_oracles 0 c10_g0 (Recv (s2p "1;1;1;0;0;20.5")) in
  let g2 := step no_oracles 0 g1 (Recv (s2p "1;2;1;0;0;20.5")) in
  let g3 := step no_oracles 0 g2 (Recv (s2p "1;255;0;0;3;x")) in
  let g4 := step no_oracles 0 g3 (Recv (s2p "1;1;1;0;0;21")) in
  c10_new_events c10_g0 g1 = [ESend (s2p "1;255;3;0;13;" ++ [nl])] /\ reboot_flag g1 1 = true /\
  c10_new_events g1 g2 = [ESend (s2p "1;255;3;0;19;" ++ [nl])] /\
  reboot_flag g3 1 = false /\ abs (g_ota g3) 1 = Requested (1, 1) /\
  c10_new_events g3 g4 = [].
Proof. vm_compute. repeat split; reflexivity. Qed.

(* restart mid-fetch: a second update call (no image: the stored one is used) takes a Fetching
   node back to Requested; an update call for a key without image, with an out-of-range type or
   with a failed load changes no session *)
Example C10_ex_restart :
  let g2 := run no_oracles 0 c10_g0 [Recv c10_cfgreq; Recv c10_blkreq] in
  let g3 := step no_oracles 0 g2 (UpdateFw [1] (VtInt 1) (VtInt 1) None) in
  let g4 := run no_oracles 0 g2 [UpdateFw [1] (VtInt 2) (VtInt 1) None; UpdateFw [1] (VtInt 70000) (VtInt 1) (Some c10_img);
                                 UpdateFw [1] (VtStr (s2p "x")) (VtInt 1) (Some c10_img); UpdateFw [1] (VtInt 3) (VtInt 1) (Some [])] in
  abs (g_ota g2) 1 = Fetching (1, 1) /\ abs (g_ota g3) 1 = Requested (1, 1) /\
  g_ota g4 = g_ota g2 /\ g_log g4 = g_log g2.
Proof. vm_compute. repeat split; reflexivity. Qed.

(* the reading note of DESIGN C10: a well-formed block request for a key WITHOUT stored image
   moves Offered -> Fetching silently *)
Example C10_ex_silent_advance :
  let g1 := step no_oracles 0 c10_g0 (Recv c10_cfgreq) in
  let g2 := step no_oracles 0 g1 (Recv (s2p "1;255;4;0;2;050005000000")) in
  abs (g_ota g1) 1 = Offered (1, 1) /\ abs (g_ota g2) 1 = Fetching (1, 1) /\ c10_new_events g1 g2 = [].
Proof. vm_compute. repeat split; reflexivity. Qed.

(* the threaded flavour: the same through the job queue *)
Example C10_ex_threaded :
  let cf := mkConfig tab_15 false false true true in
  let g := run no_oracles 0 (gw_init cf)
             [Recv (s2p "1;255;0;0;3;x"); Pump; UpdateFw [1] (VtInt 1) (VtInt 1) (Some c10_img);
              Recv c10_cfgreq; Pump] in
  abs (g_ota g) 1 = Offered (1, 1) /\
  exists t, last (g_log g) (ERaise OtherError) = ESend (s2p "1;255;4;0;1;010001000800d85f" ++ [nl]) /\
            nth 1 (rev (g_log g)) (ERaise OtherError) = ECallback (mkMsg 1 255 4 0 0 (s2p "01000100000000000000")) t.
Proof. vm_compute. split; [reflexivity|]. eexists. split; reflexivity. Qed.

Print Assumptions C10_spec_progress.
Print Assumptions C10_spec_no_reflash.
Print Assumptions C10_spec_restart_and_malformed.
Print Assumptions C10_abs_well_defined.
Print Assumptions C10_reachable_invariant.
Print Assumptions C10_step_invariant.
Print Assumptions C10_session_refines_request.
Print Assumptions C10_respond_fw_config_refines.
Print Assumptions C10_respond_fw_refines.
Print Assumptions C10_stream_other_subtype_noop.
Print Assumptions C10_other_lines_frame.
Print Assumptions C10_leaf_handlers_frame.
Print Assumptions C10_set_child_value_frame.
Print Assumptions C10_update_call.
Print Assumptions C10_update_key_sound.
Print Assumptions C10_session_refines_step.
Print Assumptions C10_gated_history.
Print Assumptions C10_gated_reply.
Print Assumptions C10_stream_reply_gated.
Print Assumptions C10_non_stream_line_not_answered_with_stream.
Print Assumptions C10_no_reflash_loop.
Print Assumptions C10_fetching_stable.
Print Assumptions C10_config_repeated_until_fetch.
Print Assumptions C10_config_answered_reachable.
Print Assumptions C10_block_request_served.
Print Assumptions C10_block_payload_never_fails.
Print Assumptions C10_restart.
Print Assumptions C10_update_without_effect.
Print Assumptions C10_stream_from_unknown_node_ignored.
Print Assumptions C10_malformed_ignored.
Print Assumptions C10_alert_changes_log_and_dirty_only.
Print Assumptions C10_malformed_iff.
Print Assumptions C10_malformed_exceptions.
Print Assumptions C10_reboot_window.
Print Assumptions C10_set_known_child_reboot_reply.
Print Assumptions C10_table_facts.
Print Assumptions C10_set_unknown_child_no_reboot.
Print Assumptions C10_set_line_reboot.
Print Assumptions C10_set_line_no_reboot_after_presentation.
Print Assumptions C10_node_presentation_clears_reboot.
Print Assumptions C10_session_terminates.
