(* C05 - placeholder while the proofs are being written; replaced below. *)
From Coq Require Import List.
From PMS Require Import Model.Gateway.
Theorem C05_placeholder : True. Proof. exact I. Qed.
Print Assumptions C05_placeholder.
