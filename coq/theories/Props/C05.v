(* C05 - every reply is the prescribed one, well-formed and correctly addressed.  Statements only.
   Machine: Model/Gateway.v (logic, all handlers, is_sensor, _route_message, set_child_value,
   wake-up flush, both task flavours) over the GENERATED tables and registry.  The reply table is
   Spec/ReplyTable.v (hand-written).  Oracles (awesomeversion, float(), clock) are universally
   quantified.  Proofs: Proofs/ReplyBase.v, ReplyProofs.v, ReplyInv.v, ReplyAddr.v. *)
From Coq Require Import List NArith ZArith Bool String.
From PMS Require Import Base.PyStr Base.PyInt Base.Exn Model.Codec Model.TableTypes Gen.Tables Model.Validate
  Model.Oracles Model.Hex Model.Ota Model.Gateway Spec.SerialApi Spec.ReplyTable
  Proofs.CodecProofs Proofs.ValidateProofs Proofs.GwInv
  Proofs.ReplyBase Proofs.ReplyProofs Proofs.ReplyInv Proofs.ReplyAddr.
Import ListNotations.
Open Scope Z_scope.

(* ---------------------------------------------------------------- 0. finite facts *)
(* cfgv v g : g runs one of the five configurations (table of version v, the >= 2.0 flag of v) *)
Theorem C05_configurations : forall v g, cfgv v g <-> (cf_tab (g_cf g) = tab_of v /\ cf_ge20 (g_cf g) = ge20 v).
Proof. exact cfgv_iff. Qed.

(* which handler function the generated registry resolves to, per version, against the
   hand-written table: message types ... *)
Theorem C05_type_resolution : forall v,
  type_handler (tab_of v) 0 = Some HPresentation /\ type_handler (tab_of v) 1 = Some HSet /\
  type_handler (tab_of v) 2 = Some HReq /\ type_handler (tab_of v) 3 = Some HInternal /\
  type_handler (tab_of v) 4 = Some HStream.
Proof. exact k_type_handlers. Qed.

(* ... every internal sub-type of the version (act_of names what each handler function does) ... *)
Theorem C05_internal_resolution : forall v s, between 0 (max_sub v 3) s = true ->
  act_of (sub_handler (tab_of v) 3 s) = Some (internal_action v s).
Proof. exact internal_resolution. Qed.

(* ... and every stream sub-type *)
Theorem C05_stream_resolution : forall v s, between 0 (max_sub v 4) s = true ->
  sub_handler (tab_of v) 4 s =
  (if s =? 0 then Some HFwConfigReq else if s =? 2 then Some HFwReq else None).
Proof. exact stream_resolution. Qed.

(* Gateway._route_message in closed form: presentations are dropped; a command for a sleeping node
   is appended to that node's queue unless it is a stream command; everything else passes *)
Theorem C05_route_closed : forall v g x, cfgv v g ->
  route g x = if m_type x =? 0 then (g, None)
              else if withheld (vsleep g) x then (enqueue g x, None) else (g, Some x).
Proof. exact route_closed. Qed.

(* ---------------------------------------------------------------- 1. reply_table *)
(* For each of the five configurations, all oracles and clocks, every state with the C01
   invariant and every accepted line whose handling does not include the wake-up flush (C08):
   the strings handed to tasks.add_job inside the call (ns: sent at once in the asyncio flavour,
   queued as send jobs in the threaded flavour), followed by the reply returned to the caller,
   are exactly the encodings of the prescribed messages that routing lets through, in order; and
   every node's hold queue grows by exactly the encodings of the prescribed messages withheld
   for it.  Nothing else is sent, queued or withheld. *)
Theorem C05_reply_table :
  forall orc clock v g l m g' r,
    cfgv v g -> Inv orc g -> accepted orc g l m ->
    wakes_up v (view_of clock g) m = false ->
    logic orc clock g l = Ok (g', r) ->
    let P := prescribed v (view_of clock g) m in
    exists ns,
      g_cf g' = g_cf g /\
      (if cf_async (g_cf g)
       then sends (g_log g') = sends (g_log g) ++ ns /\ g_jobs g' = g_jobs g
       else sends (g_log g') = sends (g_log g) /\ g_jobs g' = g_jobs g ++ map JSend ns) /\
      ns ++ olist r = emitted_part (vw_sleeping (view_of clock g)) P /\
      (forall k, queue_of g' k = queue_of g k ++ withheld_part (vw_sleeping (view_of clock g)) k P).
Proof. exact reply_table. Qed.

(* the same read off the transport log, one inbound line in each task flavour.  asyncio:
   handle_line runs logic at once and sends the reply *)
Theorem C05_reply_table_asyncio :
  forall orc clock v g l m,
    cfgv v g -> Inv orc g -> accepted orc g l m ->
    wakes_up v (view_of clock g) m = false -> cf_async (g_cf g) = true ->
    let P := prescribed v (view_of clock g) m in
    let g' := recv orc clock g l in
    sends (g_log g') = sends (g_log g) ++ emitted_part (vsleep g) P /\ g_jobs g' = g_jobs g /\
    forall k, queue_of g' k = queue_of g k ++ withheld_part (vsleep g) k P.
Proof. exact recv_async_reply_table. Qed.

(* threaded: the line waits in the job queue; the pump iteration that runs it sends the reply at
   once, and the commands produced inside the call (ns) join the job queue as send jobs *)
Theorem C05_reply_table_threaded :
  forall orc clock v g l rest m,
    cfgv v g -> Inv orc g -> cf_async (g_cf g) = false ->
    g_jobs g = JLogic l :: rest ->
    accepted orc (set_jobs g rest) l m -> wakes_up v (view_of clock (set_jobs g rest)) m = false ->
    let P := prescribed v (view_of clock (set_jobs g rest)) m in
    let g' := pump orc clock g in
    exists ns r, ns ++ olist r = emitted_part (vsleep g) P /\
      sends (g_log g') = sends (g_log g) ++ olist r /\ g_jobs g' = rest ++ map JSend ns /\
      forall k, queue_of g' k = queue_of g k ++ withheld_part (vsleep g) k P.
Proof. exact pump_reply_table. Qed.

(* "exactly one presentation request and nothing else": the table never prescribes two commands *)
Theorem C05_at_most_one_command : forall v vw m, (List.length (prescribed v vw m) <= 1)%nat.
Proof. exact prescribed_length. Qed.

(* ---------------------------------------------------------------- 2. no_spurious_output *)
(* a line that does not decode, or does not validate for the configured version: same state
   (nothing sent, nothing queued, nothing withheld), no reply *)
Theorem C05_no_spurious_output_rejected :
  forall orc clock g l,
    (decode l = None \/ exists m, decode l = Some m /\ gvalidate orc g m = false) ->
    logic orc clock g l = Ok (g, None).
Proof. exact rejected_is_noop. Qed.

(* an accepted message for which the table prescribes nothing *)
Theorem C05_no_spurious_output_silent :
  forall orc clock v g l m g' r,
    cfgv v g -> Inv orc g -> accepted orc g l m ->
    wakes_up v (view_of clock g) m = false ->
    prescribed v (view_of clock g) m = [] ->
    logic orc clock g l = Ok (g', r) ->
    r = None /\ sends (g_log g') = sends (g_log g) /\ g_jobs g' = g_jobs g /\
    forall k, queue_of g' k = queue_of g k.
Proof. exact silent_outside_table. Qed.

(* ---------------------------------------------------------------- 3. emitted_canonical_valid *)
(* the invariant on stored data (Inv5): node ids in 0..255; every reported value was accepted as
   a set message of its node/child/sub-type and is carriable; every pending desired value is
   carriable (that it validates is Inv of C01); every withheld string, every queued send job and
   every string in the transport log is the encoding of a carriable message that validates;
   firmware data are bytes.  It holds in every reachable state (op_wire: controller calls with
   carriable values and C01's firmware images; set_child_value's node id is arbitrary). *)
Theorem C05_invariant_reachable :
  forall orc clock v cf ops,
    cf_tab cf = tab_of v -> cf_ge20 cf = ge20 v -> Forall op_wire ops ->
    let g := run orc clock (gw_init cf) ops in Inv5 orc v g /\ Inv orc g /\ cfgv v g.
Proof. exact reachable_Inv5. Qed.

(* one dispatcher call keeps it, and its reply string is such an encoding (all handlers,
   including the wake-up flush) *)
Theorem C05_logic_keeps_invariant :
  forall orc clock v g l g' r,
    cfgv v g -> Inv orc g -> Inv5 orc v g -> logic orc clock g l = Ok (g', r) ->
    Inv5 orc v g' /\ forall s, r = Some s -> good orc v s.
Proof. exact logic5. Qed.

(* what op_wire demands of a history's controller calls: only that set_child_value is given a
   value the wire format can carry and update_fw an image as in C01 - nothing about node ids *)
Theorem C05_op_wire_reading : forall o,
  op_wire o <-> match o with
                | SetChild _ _ _ x _ _ => carriable x
                | UpdateFw _ _ _ b => image_ok b
                | _ => True
                end.
Proof. exact op_wire_reading. Qed.

(* Over ALL histories from the initial state, both flavours, any inbound text, controller calls
   with carriable values and ANY node / child id (op_wire): every string ever handed to the
   transport, every queued send job and every withheld string is canonical, decodes to the message
   it encodes, which validates for the configured version and carries a node id in 0..255
   (withheld: the id of the node in whose queue it waits).  Full statement: is_sensor asks only a
   node id in range(BROADCAST_ID + 1) to present itself (finding D20, fixed in the library; the
   former _partial needed 0 <= node id <= 255 for set_child_value on a >= 2.0 gateway and the
   former _refuted exhibited "300;255;3;0;19;\n"). *)
Theorem C05_emitted_canonical_valid :
  forall orc clock cf ops,
    cfg_ok cf -> Forall op_wire ops ->
    let g := run orc clock (gw_init cf) ops in
    (forall l, In (ESend l) (g_log g) -> line_ok orc g l) /\
    (forall l, In (JSend l) (g_jobs g) -> line_ok orc g l) /\
    (forall k nd l, get_node g k = Some nd -> In l (n_queue nd) ->
       line_ok orc g l /\ exists m, decode l = Some m /\ m_node m = k).
Proof. exact emitted_canonical_valid. Qed.

(* the building blocks: each prescribed kind of reply validates for every version that sends it *)
Theorem C05_replies_validate :
  forall orc v n, 0 <= n <= 255 ->
    (v_ge20 v = true -> goodmsg orc v (presentation_request n) /\ goodmsg orc v (discover_request 255)) /\
    goodmsg orc v (reboot_order n) /\
    (forall b : bool, goodmsg orc v (mkMsg n 255 3 0 6 (s2p (if b then "M" else "I")%string))) /\
    (forall clock, goodmsg orc v (mkMsg n 255 3 0 1 (print clock))) /\
    (forall c i, 1 <= i <= 254 -> goodmsg orc v (mkMsg n c 3 0 4 (print i))).
Proof. exact replies_validate. Qed.

(* validation depends on the ack flag only through "ack is 0 or 1": a value accepted in a set
   message is accepted in the reply to a request, whatever the request's ack flag *)
Theorem C05_validate_ack_independent :
  forall orc v n c ty a a' s p, vld orc v (mkMsg n c ty a s p) = true -> (a' = 0 \/ a' = 1) ->
    vld orc v (mkMsg n c ty a' s p) = true.
Proof. exact vld_ack. Qed.

(* ---------------------------------------------------------------- 4. reply_addressing *)
(* the table: every prescribed command goes to the sender of the inbound message, except the
   discover request (broadcast) *)
Theorem C05_prescribed_addressing :
  forall v vw m x, In x (prescribed v vw m) ->
    m_node x = m_node m \/
    (x = discover_request (m_child m) /\ m_type m = 3 /\ internal_action v (m_sub m) = Discover).
Proof. exact prescribed_addressing. Qed.

(* a presentation request goes to the sender, on >= 2.0 only, and only when the sender or the
   child concerned is not known *)
Theorem C05_presentation_request_addressing :
  forall v vw m x, In x (prescribed v vw m) -> m_type x = 3 -> m_sub x = 19 ->
    x = presentation_request (m_node m) /\ v_ge20 v = true /\
    (known vw (m_node m) = false \/ vw_child vw (m_node m) (m_child m) = false).
Proof. exact prescribed_presentation_request. Qed.

(* the machine: every string one call emits or withholds encodes a prescribed message addressed
   to the sender (withheld: in the sender's queue), or is the broadcast discover request *)
Theorem C05_reply_addressing :
  forall orc clock v g l m g' r,
    cfgv v g -> Inv orc g -> accepted orc g l m ->
    wakes_up v (view_of clock g) m = false ->
    logic orc clock g l = Ok (g', r) ->
    exists ns,
      (if cf_async (g_cf g)
       then sends (g_log g') = sends (g_log g) ++ ns /\ g_jobs g' = g_jobs g
       else sends (g_log g') = sends (g_log g) /\ g_jobs g' = g_jobs g ++ map JSend ns) /\
      (forall s, In s (ns ++ olist r) ->
         exists x, s = encode x /\ In x (prescribed v (view_of clock g) m) /\
                   (m_node x = m_node m \/ (x = discover_request (m_child m) /\ m_node x = 255))) /\
      (forall k, exists q, queue_of g' k = queue_of g k ++ q /\
         forall s, In s q ->
           exists x, s = encode x /\ In x (prescribed v (view_of clock g) m) /\ m_node x = k /\
                     (k = m_node m \/ (x = discover_request (m_child m) /\ k = 255))).
Proof. exact reply_addressing. Qed.

(* the controller call set_child_value: the commands it emits or withholds (closed form
   set_child_commands: a presentation request to sid when node or child is unknown on >= 2.0
   and sid is a node id, 0..255;
   nothing while the node sleeps - the value is stored as desired state; else the validated set
   command with the caller's message type / ack) all carry the node id given by the caller *)
Theorem C05_set_child_value_addressing :
  forall orc clock v g sid cid vt x mt a g',
    cfgv v g -> Inv orc g ->
    set_child_value orc g sid cid vt x mt a = Ok g' ->
    let N := set_child_commands clock v g sid cid vt x mt a in
    (if cf_async (g_cf g)
     then sends (g_log g') = sends (g_log g) ++ emitted_part (vsleep g) N /\ g_jobs g' = g_jobs g
     else sends (g_log g') = sends (g_log g) /\ g_jobs g' = g_jobs g ++ map JSend (emitted_part (vsleep g) N)) /\
    (forall k, queue_of g' k = queue_of g k ++ withheld_part (vsleep g) k N) /\
    (forall y, In y N -> m_node y = sid).
Proof. exact set_child_value_addressing. Qed.

(* ---------------------------------------------------------------- non-vacuity *)
Example C05_ex_req_answered :
  let g := run no_oracles 0 (gw_init cf22) hist1 in
  new_sends g (step no_oracles 0 g (Recv (s2p "1;0;2;1;2;"))) = [s2p "1;0;1;1;2;1" ++ [nl]] /\
  prescribed V22 (view_of 0 g) (mkMsg 1 0 2 1 2 []) = [mkMsg 1 0 1 1 2 (s2p "1")].
Proof. exact ex_req_answered. Qed.

Example C05_ex_req_no_value :
  let g := run no_oracles 0 (gw_init cf22) hist1 in
  new_sends g (step no_oracles 0 g (Recv (s2p "1;0;2;0;3;"))) = [] /\
  prescribed V22 (view_of 0 g) (mkMsg 1 0 2 0 3 []) = [].
Proof. exact ex_req_no_value. Qed.

Example C05_ex_unknown_child_22 :
  let g := run no_oracles 0 (gw_init cf22) hist1 in
  new_sends g (step no_oracles 0 g (Recv (s2p "1;7;2;0;2;"))) = [s2p "1;255;3;0;19;" ++ [nl]] /\
  prescribed V22 (view_of 0 g) (mkMsg 1 7 2 0 2 []) = [presentation_request 1].
Proof. exact ex_unknown_child_22. Qed.

Example C05_ex_unknown_child_15 :
  let g := run no_oracles 0 (gw_init cf15) hist1 in
  new_sends g (step no_oracles 0 g (Recv (s2p "1;7;2;0;2;"))) = [] /\
  prescribed V15 (view_of 0 g) (mkMsg 1 7 2 0 2 []) = [].
Proof. exact ex_unknown_child_15. Qed.

Example C05_ex_internal_replies :
  let g := run no_oracles 1700000000 (gw_init cf22) hist1 in
  new_sends g (run no_oracles 1700000000 g
                 [Recv (s2p "1;255;3;0;6;0"); Recv (s2p "1;255;3;1;1;"); Recv (s2p "255;255;3;0;3;");
                  Recv (s2p "0;255;3;0;14;Gateway startup complete.")]) =
  [s2p "1;255;3;0;6;M" ++ [nl]; s2p "1;255;3;0;1;1700000000" ++ [nl]; s2p "255;255;3;0;4;2" ++ [nl];
   s2p "255;255;3;0;20;" ++ [nl]].
Proof. exact ex_internal_replies. Qed.

Example C05_ex_threaded_nested :
  let g := run no_oracles 0 (gw_init cf22t) [Recv (s2p "9;3;1;0;2;1"); Pump] in
  g_jobs g = [JSend (s2p "9;255;3;0;19;" ++ [nl])] /\ sends (g_log g) = [] /\
  sends (g_log (step no_oracles 0 g Pump)) = [s2p "9;255;3;0;19;" ++ [nl]].
Proof. exact ex_threaded_nested. Qed.

Example C05_ex_withheld :
  let g := run no_oracles 0 (gw_init cf22) (hist1 ++ [Recv (s2p "1;255;3;0;32;500")]) in
  let g' := step no_oracles 0 g (Recv (s2p "1;0;2;0;2;")) in
  vsleep g 1 = true /\ new_sends g g' = [] /\ queue_of g' 1 = queue_of g 1 ++ [s2p "1;0;1;0;2;1" ++ [nl]].
Proof. exact ex_withheld. Qed.

Example C05_ex_reply_table_premises :
  let g := run no_oracles 0 (gw_init cf22) hist1 in
  cfgv V22 g /\ accepted no_oracles g (s2p "1;0;2;1;2;") (mkMsg 1 0 2 1 2 []) /\
  wakes_up V22 (view_of 0 g) (mkMsg 1 0 2 1 2 []) = false /\ g_sensors g <> [].
Proof. exact ex_reply_table_premises. Qed.

(* corner cases worth knowing (consistent with the table, see notes/C05-proofs.md) *)
Example C05_ex_discover_withheld :
  let g := run no_oracles 0 (gw_init cf22)
             [Recv (s2p "255;255;0;0;3;x"); Recv (s2p "255;0;0;0;3;relay"); Recv (s2p "255;255;3;0;32;500")] in
  let g' := step no_oracles 0 g (Recv (s2p "0;255;3;0;14;ready")) in
  vsleep g 255 = true /\ new_sends g g' = [] /\ queue_of g' 255 = [s2p "255;255;3;0;20;" ++ [nl]].
Proof. exact ex_discover_withheld. Qed.

Example C05_ex_id_response_copies_child :
  sends (g_log (run no_oracles 0 (gw_init cf22) [Recv (s2p "255;-3;3;1;3;")])) = [s2p "255;-3;3;0;4;1" ++ [nl]].
Proof. exact ex_id_response_copies_child. Qed.

(* the former witness of C05_emitted_canonical_valid_refuted: set_child_value(300, 0, 2, "1") on a
   2.2 gateway (asyncio and threaded) satisfies op_wire and now changes nothing: no command is
   sent, queued or withheld *)
Example C05_ex_set_child_out_of_range_silent :
  let ops := [SetChild 300 0 (VtInt 2) (PS (s2p "1")) None None] in
  Forall op_wire ops /\
  run no_oracles 0 (gw_init cf22) ops = gw_init cf22 /\
  run no_oracles 0 (gw_init cf22t) ops = gw_init cf22t.
Proof. exact ex_set_child_out_of_range_silent. Qed.

(* an unknown node with a valid id is still asked to present itself *)
Example C05_ex_set_child_unknown_in_range :
  sends (g_log (run no_oracles 0 (gw_init cf22) [SetChild 200 0 (VtInt 2) (PS (s2p "1")) None None])) =
  [s2p "200;255;3;0;19;" ++ [nl]].
Proof. exact ex_set_child_unknown_in_range. Qed.

Print Assumptions C05_configurations.
Print Assumptions C05_type_resolution.
Print Assumptions C05_internal_resolution.
Print Assumptions C05_stream_resolution.
Print Assumptions C05_route_closed.
Print Assumptions C05_reply_table.
Print Assumptions C05_reply_table_asyncio.
Print Assumptions C05_reply_table_threaded.
Print Assumptions C05_at_most_one_command.
Print Assumptions C05_no_spurious_output_rejected.
Print Assumptions C05_no_spurious_output_silent.
Print Assumptions C05_invariant_reachable.
Print Assumptions C05_logic_keeps_invariant.
Print Assumptions C05_op_wire_reading.
Print Assumptions C05_emitted_canonical_valid.
Print Assumptions C05_replies_validate.
Print Assumptions C05_validate_ack_independent.
Print Assumptions C05_prescribed_addressing.
Print Assumptions C05_presentation_request_addressing.
Print Assumptions C05_reply_addressing.
Print Assumptions C05_set_child_value_addressing.
