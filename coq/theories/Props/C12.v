(* C12 - saving replaces the persistence file atomically.  Statements only.
   Model: Spec/AbstractFs.v (file system, crash semantics, assumptions), Model/FsSave.v (interpreter of
   the GENERATED programs Gen/SaveTrace.v, scenarios crash_scn / fault_scn, specifications crash_spec /
   fault_spec), Model/FsCode.v (code f = the programs of format f, damage_of f = measured decoder
   failure classes). *)
From Coq Require Import List Bool Arith NArith.
From PMS Require Import Base.PyStr Spec.AbstractFs Model.FsSave Model.FsCode Proofs.FsProofs.
Import ListNotations.
Local Open Scope nat_scope.

(* For both formats f, every type of saved states and all states old / new / next / stale ones, every
   prior configuration c (no file, or a good main file with or without a stale backup and / or a stale
   temp file, each of them good, partial or empty), every number w >= 1 of writes, every crash point
   (before call j of statement i; positions that do not exist = after the last call), every number
   nlost of most recent directory operations that did not reach the disk, every loss of unsynced data
   (all / part / none), whatever class ep / ee of the measured ones the decoder raises on a partial /
   empty file: start-up loads exactly new, or exactly old (nothing if there was no file); the disk is
   again a legal prior configuration; the next save (any w2 >= 1) runs to completion and a start-up
   after it loads exactly next. *)
Theorem C12_crash_atomic :
  forall (f : fmt) (St : Type) (old new next sb stt : St) (c : cfg) (w i j nlost : nat) (l : loss)
         (ep ee : cls) (w2 : nat),
    cfg_valid c = true -> 1 <= w -> 1 <= w2 -> In ep (damage_of f) -> In ee (damage_of f) ->
    crash_spec c old new next (crash_scn (code f) c old new next sb stt w i j nlost l ep ee w2).
Proof. exact crash_atomic. Qed.

(* Same quantifiers with "call j of statement i raises OSError" (open, any write, flush, fsync, close,
   either rename, remove; also isfile / access): the exception leaves save_sensors (the with block
   closes the file, the handler restores need_save); need_save is clear only if the new file is
   completely and durably in place; a start-up at this point loads exactly old or new; the next save by
   the same process succeeds and round-trips. *)
Theorem C12_fault_atomic :
  forall (f : fmt) (St : Type) (old new next sb stt : St) (c : cfg) (w i j : nat) (ep ee : cls) (w2 : nat),
    cfg_valid c = true -> 1 <= w -> 1 <= w2 -> In ep (damage_of f) -> In ee (damage_of f) ->
    fault_spec c old new next (fault_scn (code f) c old new next sb stt w i j ep ee w2).
Proof. exact fault_atomic. Qed.

(* the five configurations named by the property are covered *)
Theorem C12_five_configurations : forall c, In c five_cfgs -> cfg_valid c = true.
Proof. exact five_cfgs_valid. Qed.

(* sensitivity: without os.fsync, or with the two renames swapped, the statement is false *)
Theorem C12_fsync_needed :
  ~ crash_spec c_main_only TOld TNew TNext
      (crash_scn (with_save (code Json) (drop_fsync (save_prog_of Json)))
                 c_main_only TOld TNew TNext TSb TSt 1 99 0 0 LoseAll e_json e_json 1).
Proof. exact fsync_needed. Qed.

Theorem C12_order_needed :
  exists i j nlost l,
  ~ crash_spec c_main_only TOld TNew TNext
      (crash_scn (with_save (code Json) (swap_renames (save_prog_of Json)))
                 c_main_only TOld TNew TNext TSb TSt 1 i j nlost l e_json e_json 1).
Proof. exact order_needed. Qed.

(* ASSUMPTION made explicit: on a file system where an arbitrary SUBSET of the directory operations may
   be lost (instead of a suffix) the protocol of save_sensors is not atomic: complete save, crash,
   only the second rename lost -> no file at all.  Reported as an assumption, not a finding. *)
Theorem C12_atomic_save_unordered_metadata_refuted :
  exists (keep : nat -> bool) (l : loss),
  ~ crash_spec c_main_only TOld TNew TNext
      (crash_scn_gen (code Json) c_main_only TOld TNew TNext TSb TSt 1 None (crash_fs keep l) e_json e_json 1).
Proof. exact unordered_metadata_refuted. Qed.

(* non-vacuity: both outcomes occur (old with the complete new temp file left beside it; new with the
   old state still in the backup), and losing the last directory operation turns new into old *)
Example C12_example_old : exists i,
  let o := crash_scn (code Json) c_main_only TOld TNew TNext TSb TSt 3 i 0 0 LoseAll e_json e_json 1 in
  co_loaded o = LOk [TOld] /\ co_cfg o = Some (mkCfg true None (Some KGood)).
Proof. exact crash_example_old. Qed.
Example C12_example_new : exists i,
  let o := crash_scn (code Json) c_main_only TOld TNew TNext TSb TSt 3 i 0 0 LoseAll e_json e_json 1 in
  co_loaded o = LOk [TNew] /\ co_cfg o = Some (mkCfg true (Some KGood) None).
Proof. exact crash_example_new. Qed.
Example C12_example_lost_rename : exists i,
  co_loaded (crash_scn (code Json) c_main_only TOld TNew TNext TSb TSt 3 i 0 0 LoseAll e_json e_json 1) = LOk [TNew] /\
  co_loaded (crash_scn (code Json) c_main_only TOld TNew TNext TSb TSt 3 i 0 1 LoseAll e_json e_json 1) = LOk [TOld].
Proof. exact crash_example_lost_rename. Qed.
Example C12_example_premises : cfg_valid c_main_only = true /\ In e_json (damage_of Json).
Proof. split; [reflexivity | left; reflexivity]. Qed.

Print Assumptions C12_crash_atomic.
Print Assumptions C12_fault_atomic.
Print Assumptions C12_five_configurations.
Print Assumptions C12_fsync_needed.
Print Assumptions C12_order_needed.
Print Assumptions C12_atomic_save_unordered_metadata_refuted.
