(* C12 - saving replaces the persistence file atomically.  Statements only.
   Model: Spec/AbstractFs.v (file system, crash semantics, assumptions), Model/FsSave.v (interpreter of
   the GENERATED programs Gen/SaveTrace.v, scenarios crash_scn / fault_scn, specifications crash_spec /
   fault_spec), Model/FsCode.v (code f = the programs of format f, damage_of f = measured decoder
   failure classes). *)
From Coq Require Import List Bool Arith NArith.
From PMS Require Import Base.PyStr Spec.AbstractFs Model.FsSave Model.FsCode Proofs.FsProofs.
Import ListNotations.
Local Open Scope nat_scope.

(* For both formats f, every type of saved states and all states old / new / next / stale ones, every
   prior configuration c (no file, or a good main file with or without a stale backup and / or a stale
   temp file, each of them good, partial or empty), every number w >= 1 of writes, every crash point
   (before call j of statement i; positions that do not exist = after the last call), every number
   nlost of most recent directory operations that did not reach the disk, every loss of unsynced data
   (all / part / none), whatever class ep / ee of the measured ones the decoder raises on a partial /
   empty file: start-up loads exactly new, or exactly old (nothing if there was no file); the disk is
   again a legal prior configuration; the next save (any w2 >= 1) runs to completion and a start-up
   after it loads exactly next. *)
Theorem C12_crash_atomic :
  forall (f : fmt) (St : Type) (old new next sb stt : St) (c : cfg) (w i j nlost : nat) (l : loss)
         (ep ee : cls) (w2 : nat),
    cfg_valid c = true -> 1 <= w -> 1 <= w2 -> In ep (damage_of f) -> In ee (damage_of f) ->
    crash_spec c old new next (crash_scn (code f) c old new next sb stt w i j nlost l ep ee w2).
Proof. exact crash_atomic. Qed.

(* Same quantifiers with "call j of statement i raises OSError" (open, any write, flush, fsync, close,
   either rename, remove; also isfile / access): the exception leaves save_sensors (the with block
   closes the file, the handler restores need_save); need_save is clear only if the new file is
   completely and durably in place; a start-up at this point loads exactly old or new; the next save by
   the same process succeeds and round-trips. *)
Theorem C12_fault_atomic :
  forall (f : fmt) (St : Type) (old new next sb stt : St) (c : cfg) (w i j : nat) (ep ee : cls) (w2 : nat),
    cfg_valid c = true -> 1 <= w -> 1 <= w2 -> In ep (damage_of f) -> In ee (damage_of f) ->
    fault_spec c old new next (fault_scn (code f) c old new next sb stt w i j ep ee w2).
Proof. exact fault_atomic. Qed.

(* the five configurations named by the property are covered *)
Theorem C12_five_configurations : forall c, In c five_cfgs -> cfg_valid c = true.
Proof. exact five_cfgs_valid. Qed.

(* sensitivity: without os.fsync, or with the two renames swapped, the statement is false *)
Theorem C12_fsync_needed :
  ~ crash_spec c_main_only TOld TNew TNext
      (crash_scn (with_save (code Json) (drop_fsync (save_prog_of Json)))
                 c_main_only TOld TNew TNext TSb TSt 1 99 0 0 LoseAll e_json e_json 1).
Proof. exact fsync_needed. Qed.

Theorem C12_order_needed :
  exists i j nlost l,
  ~ crash_spec c_main_only TOld TNew TNext
      (crash_scn (with_save (code Json) (swap_renames (save_prog_of Json)))
                 c_main_only TOld TNew TNext TSb TSt 1 i j nlost l e_json e_json 1).
Proof. exact order_needed. Qed.

(* ASSUMPTION made explicit: on a file system where an arbitrary SUBSET of the directory operations may
   be lost (instead of a suffix) the protocol of save_sensors is not atomic: complete save, crash,
   only the second rename lost -> no file at all.  Reported as an assumption, not a finding. *)
Theorem C12_atomic_save_unordered_metadata_refuted :
  exists (keep : nat -> bool) (l : loss),
  ~ crash_spec c_main_only TOld TNew TNext
      (crash_scn_gen (code Json) c_main_only TOld TNew TNext TSb TSt 1 None (crash_fs keep l) e_json e_json 1).
Proof. exact unordered_metadata_refuted. Qed.

(* non-vacuity: both outcomes occur (old with the complete new temp file left beside it; new with the
   old state still in the backup), and losing the last directory operation turns new into old *)
Example C12_example_old : exists i,
  let o := crash_scn (code Json) c_main_only TOld TNew TNext TSb TSt 3 i 0 0 LoseAll e_json e_json 1 in
  co_loaded o = LOk [TOld] /\ co_cfg o = Some (mkCfg true None (Some KGood)).
Proof. exact crash_example_old. Qed.
Example C12_example_new : exists i,
  let o := crash_scn (code Json) c_main_only TOld TNew TNext TSb TSt 3 i 0 0 LoseAll e_json e_json 1 in
  co_loaded o = LOk [TNew] /\ co_cfg o = Some (mkCfg true (Some KGood) None).
Proof. exact crash_example_new. Qed.
Example C12_example_lost_rename : exists i,
  co_loaded (crash_scn (code Json) c_main_only TOld TNew TNext TSb TSt 3 i 0 0 LoseAll e_json e_json 1) = LOk [TNew] /\
  co_loaded (crash_scn (code Json) c_main_only TOld TNew TNext TSb TSt 3 i 0 1 LoseAll e_json e_json 1) = LOk [TOld].
Proof. exact crash_example_lost_rename. Qed.
Example C12_example_premises : cfg_valid c_main_only = true /\ In e_json (damage_of Json).
Proof. split; [reflexivity | left; reflexivity]. Qed.

(* ---- D23: the scheduled save still being written when stop() makes the final save ----
   Model: Model/FsConc.v (two threads inside save_sensors over one file system: thread-local file object and
   `exists`, shared files and need_save; one preemption of the scheduled save) on top of the interpreter of the
   GENERATED programs (Gen/SaveTrace.v, Model/FsSave.v).  Tie: harness/impl/slowsave.py (real threads, the same
   three pause points). *)
From PMS Require Model.FsConc Proofs.FsConcProofs.

(* pause/resume mean what they say: save_sensors preempted before call j of statement i and resumed at once IS
   save_sensors (all programs, states, positions) *)
Theorem C12_save_preempted_and_resumed_is_save :
  forall (St : Type) w (new : St) prog i j st,
    FsSave.exec w new None prog st =
    match FsConc.pause w new i j prog st with
    | (stp, FsSave.Crashed) => FsConc.resume w new i j prog stp
    | r => r
    end.
Proof. exact (@FsConcProofs.save_split). Qed.

(* WITHOUT mutual exclusion of saves (the code before fix c9a1a32) the property is false: for both formats there is
   a schedule - the scheduled save preempted right before file_handle.flush(), a message, stop()'s final save run
   completely, the scheduled save resumed - after which stop()'s save has ended normally, the scheduled one has
   raised, there is no main file, and a start-up does not load the state held at stop *)
Theorem C12_stop_during_scheduled_save_unlocked_refuted :
  forall f : FsCode.fmt, exists i j,
    nth_error (FsCode.save_prog_of f) i = Some (AbstractFs.mkI AbstractFs.IFlush false true true) /\
    FsConc.cc_paused (FsConcProofs.d23_obs f i j) = true /\
    FsConc.cc_status2 (FsConcProofs.d23_obs f i j) = FsSave.Done /\
    FsConc.cc_status1 (FsConcProofs.d23_obs f i j) = FsSave.Raised /\
    AbstractFs.fs_isfile (FsConc.cc_fs (FsConcProofs.d23_obs f i j)) AbstractFs.Main = false /\
    FsConc.cc_loaded (FsConcProofs.d23_obs f i j) <> FsSave.LOk [FsProofs.TNext].
Proof. exact FsConcProofs.unlocked_concurrent_save_refuted. Qed.

(* WITH the lock (saves exclude each other: the scheduled save completely, the message, then stop()'s save): for
   both formats, every type of states, every prior configuration, all numbers of writes and measured decoder
   classes - stop()'s save runs to completion, leaves need_save clear and a start-up loads exactly the state held
   at stop *)
Theorem C12_stop_during_scheduled_save_locked :
  forall (f : FsCode.fmt) (St : Type) (old new1 new2 sb stt : St) (c : FsSave.cfg) (w : nat)
         (ep ee : AbstractFs.cls) (w2 : nat),
    FsSave.cfg_valid c = true -> 1 <= w -> 1 <= w2 ->
    In ep (FsCode.damage_of f) -> In ee (FsCode.damage_of f) ->
    FsSave.fo_status (FsConc.conc_locked (FsCode.code f) c old new1 new2 sb stt w ep ee w2) <> FsSave.Crashed /\
    FsSave.again_spec new2 (FsSave.fo_again (FsConc.conc_locked (FsCode.code f) c old new1 new2 sb stt w ep ee w2)).
Proof. exact FsConcProofs.locked_saves_persist_last. Qed.

(* the other two pause points of the harness family lose nothing even without the lock (as observed) *)
Example C12_unlocked_other_pause_points :
  forall f : FsCode.fmt,
    FsConc.cc_loaded (FsConcProofs.d23_obs f 7 0) = FsSave.LOk [FsProofs.TNext] /\
    FsConc.cc_loaded (FsConcProofs.d23_obs f 9 0) = FsSave.LOk [FsProofs.TNext].
Proof. exact FsConcProofs.unlocked_other_pause_points. Qed.


Print Assumptions C12_crash_atomic.
Print Assumptions C12_fault_atomic.
Print Assumptions C12_five_configurations.
Print Assumptions C12_fsync_needed.
Print Assumptions C12_order_needed.
Print Assumptions C12_atomic_save_unordered_metadata_refuted.
Print Assumptions C12_save_preempted_and_resumed_is_save.
Print Assumptions C12_stop_during_scheduled_save_unlocked_refuted.
Print Assumptions C12_stop_during_scheduled_save_locked.
