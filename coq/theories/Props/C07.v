(* C07 - nothing is sent to a sleeping node outside its wake window.  Statements only.
   Machine: Model/Gateway.v over the GENERATED tables and registry; oracles and clock universally
   quantified; all five configurations (cfg_ok); both task flavours (cf_async true / false).
   A node SLEEPS (is_smart_sleep_node) when its desired-state dict n_new is non-empty: from the
   first wake-up announcement processed while it has a child.  Proofs: Proofs/Sleep*.v. *)
From Coq Require Import List NArith ZArith Bool String.
From PMS Require Import Base.PyStr Base.Exn Model.Codec Model.TableTypes Gen.Tables Model.Validate
  Model.Oracles Model.Hex Model.Ota Model.Gateway Spec.SerialApi Proofs.ValidateProofs Proofs.GwInv
  Proofs.SleepDefs Proofs.SleepFlush Proofs.SleepTrans Proofs.SleepLife Proofs.SleepProofs
  Proofs.SleepExamples.
Import ListNotations.
Open Scope string_scope.
Open Scope list_scope.
Open Scope Z_scope.

(* ------------------------------------------------------------------ vocabulary *)
(* node id / command of a line as the receiver reads them (first / third ";" field): defined for
   the encoding of EVERY message, whatever its payload *)
Theorem C07_line_header : forall m, line_node (encode m) = Some (m_node m) /\ line_type (encode m) = Some (m_type m).
Proof. exact line_header. Qed.

(* which lines are wake-up announcements (the dispatcher reaches handle_heartbeat_response /
   handle_pre_sleep_notification): internal command (3), sub-type 22 in 2.0 / 2.1, 32 in 2.2, none
   in 1.4 / 1.5 - a finite fact about the generated registry *)
Theorem C07_wake_announcements :
  forall v m, wake_msg (tab_of v) m =
              match v with
              | V20 | V21 => (m_type m =? 3) && (m_sub m =? 22)
              | V22 => (m_type m =? 3) && (m_sub m =? 32)
              | _ => false
              end.
Proof. exact wake_announcements. Qed.

(* the invariants the theorems below assume hold in every reachable state: Inv (C01), QInv (every
   withheld string is the encoding of a message addressed to the node whose queue holds it), CInv
   (children are keyed by their own id) *)
Theorem C07_reachable_invariants :
  forall orc clock cf ops, cfg_ok cf -> Forall op_ok ops ->
    let g := run orc clock (gw_init cf) ops in Inv orc g /\ QInv g /\ CInv g /\ g_cf g = cf.
Proof. exact reachable_sleep_inv. Qed.

(* ------------------------------------------------------------------ 1. routing *)
(* a non-stream, non-presentation message for a known sleeping node is not returned: its
   encoding is appended at the END of that node's queue, nothing else changes *)
Theorem C07_route_withholds :
  forall orc g m nd, Inv orc g ->
    m_type m <> vt_presentation (tab g) -> m_type m <> vt_stream (tab g) ->
    get_node g (m_node m) = Some nd -> sleeping nd = true ->
    route g m = (enqueue g nd (encode m), None) /\
    let g' := enqueue g nd (encode m) in
    get_node g' (m_node m) = Some (with_queue nd (n_queue nd ++ [encode m])) /\
    (forall k, k <> m_node m -> get_node g' k = get_node g k) /\
    map fst (g_sensors g') = map fst (g_sensors g) /\
    g_cf g' = g_cf g /\ g_ota g' = g_ota g /\ g_metric g' = g_metric g /\ g_jobs g' = g_jobs g /\
    g_dirty g' = g_dirty g /\ g_log g' = g_log g.
Proof. exact route_withholds. Qed.

(* unknown node, node that does not sleep, or stream message: returned, state untouched *)
Theorem C07_route_passes :
  forall g m, m_type m <> vt_presentation (tab g) ->
    (get_node g (m_node m) = None \/ (exists nd, get_node g (m_node m) = Some nd /\ sleeping nd = false) \/
     m_type m = vt_stream (tab g)) ->
    route g m = (g, Some m).
Proof. exact route_passes. Qed.

(* (a reply of presentation type - handle_presentation returns its own message - is never sent) *)
Theorem C07_route_drops_presentation :
  forall g m, m_type m = vt_presentation (tab g) -> route g m = (g, None).
Proof. exact route_drops_presentation. Qed.

(* traffic for other nodes is never delayed: routing changes no node except the addressee, and
   the addressee only when it sleeps *)
Theorem C07_others_not_delayed :
  forall orc g m k nd, Inv orc g -> get_node g k = Some nd ->
    exists nd', get_node (fst (route g m)) k = Some nd' /\
      (nd' = nd \/ (k = m_node m /\ sleeping nd = true /\ nd' = with_queue nd (n_queue nd ++ [encode m]) /\
                    snd (route g m) = None)).
Proof. exact others_not_delayed. Qed.

(* ------------------------------------------------------------------ 2. one processed line *)
(* every string the dispatcher emits while processing line l - sent at once (asyncio: log delta d),
   queued as a send job (threaded: job delta j), or returned as the reply - that is addressed to
   a node n sleeping BEFORE the call is of stream type, or l is a wake-up announcement of n *)
Theorem C07_logic_sends_to_sleeping_only_on_wake :
  forall orc clock g l g' reply,
    cfg_ok (g_cf g) -> Inv orc g -> QInv g -> logic orc clock g l = Ok (g', reply) ->
    exists d j, g_log g' = g_log g ++ d /\ g_jobs g' = g_jobs g ++ j /\
      (cf_async (g_cf g) = true -> j = []) /\
      (forall x, In x j -> exists s, x = JSend s) /\
      forall s, (In (ESend s) d \/ In (JSend s) j \/ reply = Some s) ->
        forall n nd, line_node s = Some n -> get_node g n = Some nd -> sleeping nd = true ->
          line_type s = Some (vt_stream (tab g)) \/ is_wake_line orc g l n.
Proof. exact logic_sends_to_sleeping_only_on_wake. Qed.

(* ------------------------------------------------------------------ 3. every step of every history *)
(* any history from the initial state (any arrival order of lines, pump iterations, controller
   calls), any next step o, both flavours: a string the step hands to the transport is a send job
   queued by an EARLIER step (threaded pump), or obeys the rule w.r.t. the state before the step;
   a job the step queues is the arriving line (threaded) or a send that obeys the rule *)
Theorem C07_step_sends_to_sleeping_only_on_wake :
  forall orc clock cf ops o, cfg_ok cf -> Forall op_ok ops -> op_ok o ->
    let g := run orc clock (gw_init cf) ops in
    let g' := step orc clock g o in
    exists d j, g_log g' = g_log g ++ d /\ g_jobs g' = jobs_base g o ++ j /\
      (forall s, In (ESend s) d ->
         queued_send g o s \/
         forall n nd, line_node s = Some n -> get_node g n = Some nd -> sleeping nd = true ->
           line_type s = Some (vt_stream (tab g)) \/
           exists l, processed g o = Some l /\ is_wake_line orc g l n) /\
      (forall x, In x j ->
         queued_line g o x \/
         exists s, x = JSend s /\
           forall n nd, line_node s = Some n -> get_node g n = Some nd -> sleeping nd = true ->
             line_type s = Some (vt_stream (tab g)) \/
             exists l, processed g o = Some l /\ is_wake_line orc g l n).
Proof. exact reachable_step_sends_to_sleeping_only_on_wake. Qed.

(* threaded flavour, whole histories: with the erasable ghost that records, for each queued job,
   the state g0 and cause of the step that queued it (run_ghost erases to run), every send job
   waiting in the queue obeyed the rule w.r.t. g0 - so what the pump later hands to the transport
   for a node that slept when the job was queued is a stream response or part of the burst
   queued by that node's wake-up announcement *)
Theorem C07_queued_sends_have_allowed_origin :
  forall orc clock cf ops, cfg_ok cf -> Forall op_ok ops ->
    let gs := run_ghost orc clock (gw_init cf, []) ops in
    fst gs = run orc clock (gw_init cf) ops /\
    Forall2 (fun x og => match x with
                         | JSend s => forall n nd, line_node s = Some n -> get_node (fst og) n = Some nd ->
                                        sleeping nd = true ->
                                        line_type s = Some (vt_stream (tab (fst og))) \/ snd og = CWake n
                         | JLogic _ => True
                         end) (g_jobs (fst gs)) (snd gs).
Proof. exact queued_sends_have_allowed_origin. Qed.

(* the controller call on a sleeping node queues nothing, logs nothing, sends nothing *)
Theorem C07_set_child_value_sleeping_silent :
  forall orc g sid cid vt v mt a nd g',
    get_node g sid = Some nd -> zhas cid (n_children nd) = true -> sleeping nd = true ->
    set_child_value orc g sid cid vt v mt a = Ok g' ->
    g_log g' = g_log g /\ g_jobs g' = g_jobs g /\ g_ota g' = g_ota g /\ g_cf g' = g_cf g /\
    g_dirty g' = g_dirty g /\ g_metric g' = g_metric g /\
    exists vti dv, vt_int vt = Some vti /\ zassoc cid (n_new nd) = Some dv /\
                   gw_accepts orc g (n_id nd) cid vti v = true /\ node_accepts orc nd cid vti v = true /\
                   g' = put_node g (store_desired nd cid vti v dv).
Proof. exact set_child_value_sleeping_silent. Qed.

(* ------------------------------------------------------------------ 4. release only on wake *)
(* in every step every hold queue is prefix-extended, except in the step that processes that
   node's own wake-up announcement *)
Theorem C07_release_only_on_wake :
  forall orc clock g o k nd,
    cfg_ok (g_cf g) -> Inv orc g -> QInv g -> op_ok o -> get_node g k = Some nd ->
    exists nd', get_node (step orc clock g o) k = Some nd' /\
      ((exists ext, n_queue nd' = n_queue nd ++ ext) \/
       (exists l, processed g o = Some l /\ is_wake_line orc g l k)).
Proof. exact release_only_on_wake. Qed.

Theorem C07_logic_release_only_on_wake :
  forall orc clock g l g' reply k nd,
    cfg_ok (g_cf g) -> Inv orc g -> QInv g -> logic orc clock g l = Ok (g', reply) ->
    get_node g k = Some nd ->
    exists nd', get_node g' k = Some nd' /\
      ((exists ext, n_queue nd' = n_queue nd ++ ext) \/ is_wake_line orc g l k).
Proof. exact logic_release_only_on_wake. Qed.

(* a node never stops sleeping, and starts only in the step that processes its own announcement *)
Theorem C07_sleeping_changes_only_on_wake :
  forall orc clock g o k nd,
    cfg_ok (g_cf g) -> Inv orc g -> QInv g -> op_ok o -> get_node g k = Some nd ->
    exists nd', get_node (step orc clock g o) k = Some nd' /\
      (sleeping nd = true -> sleeping nd' = true) /\
      (sleeping nd' = sleeping nd \/ exists l, processed g o = Some l /\ is_wake_line orc g l k).
Proof. exact sleeping_changes_only_on_wake. Qed.

(* ------------------------------------------------------------------ non-vacuity *)
(* configurations and histories: Proofs/SleepExamples.v (2.2 gateway; node 1 presented with one
   child, one report, then a pre-sleep notification: it sleeps; node 2 presented and awake) *)
(* asyncio flavour: the reply to a request of the sleeping node 1 is withheld, the reply to node 2
   leaves at once although node 1 has traffic pending, and node 1's reply leaves at its wake-up *)
Example C07_example_async :
  let g := run ex_orc 0 (gw_init ex_cfA) ex_setup in
  ex_sleeps g 1 = Some true /\ ex_sleeps g 2 = Some false /\ g_log g = [] /\
  (let g' := step ex_orc 0 g (ex_R "1;1;2;0;2;") in
   g_log g' = [] /\ ex_queue g' 1 = Some [ex_line "1;1;1;0;2;0"]) /\
  (let g' := run ex_orc 0 g [ex_R "1;1;2;0;2;"; ex_R "2;1;2;0;2;"] in
   g_log g' = [ESend (ex_line "2;1;1;0;2;1")] /\ ex_queue g' 1 = Some [ex_line "1;1;1;0;2;0"]) /\
  (let g' := run ex_orc 0 g [ex_R "1;1;2;0;2;"; ex_wake1] in
   g_log g' = [ESend (ex_line "1;1;1;0;2;0")] /\ ex_queue g' 1 = Some []).
Proof. vm_compute. repeat split; reflexivity. Qed.

(* threaded flavour: the wake-up queues the burst as send jobs, the next pump iteration sends it *)
Example C07_example_threaded :
  let g := run ex_orc 0 (gw_init ex_cfT) (ex_pumped ex_setup) in
  ex_sleeps g 1 = Some true /\ g_log g = [] /\ g_jobs g = [] /\
  (let g' := run ex_orc 0 g [ex_R "1;1;2;0;2;"; Pump; ex_wake1; Pump] in
   g_log g' = [] /\ g_jobs g' = [JSend (ex_line "1;1;1;0;2;0")] /\ ex_queue g' 1 = Some []) /\
  (let g' := run ex_orc 0 g [ex_R "1;1;2;0;2;"; Pump; ex_wake1; Pump; Pump] in
   g_log g' = [ESend (ex_line "1;1;1;0;2;0")] /\ g_jobs g' = []).
Proof. vm_compute. repeat split; reflexivity. Qed.

(* 2.1: the heartbeat response is the announcement *)
Example C07_example_21 :
  let g := run ex_orc 0 (gw_init ex_cf21)
               [ex_R "1;255;0;0;17;2.1"; ex_R "1;1;0;0;3;"; ex_R "1;1;1;0;2;0"; ex_R "1;255;3;0;22;77";
                ex_R "1;1;2;0;2;"] in
  ex_sleeps g 1 = Some true /\ g_log g = [] /\ ex_queue g 1 = Some [ex_line "1;1;1;0;2;0"].
Proof. vm_compute. repeat split; reflexivity. Qed.

(* the premises of the theorems are satisfiable: the announcement line of the example is one *)
Example C07_example_is_wake_line :
  let g := run ex_orc 0 (gw_init ex_cfA) ex_setup in
  is_wake_line ex_orc g (s2p "1;255;3;0;32;500") 1 /\ cfg_ok (g_cf g).
Proof.
  split.
  - exists (mkMsg 1 255 3 0 32 (s2p "500")). vm_compute. repeat split; reflexivity.
  - exists V22. split; reflexivity.
Qed.

Print Assumptions C07_line_header.
Print Assumptions C07_wake_announcements.
Print Assumptions C07_reachable_invariants.
Print Assumptions C07_route_withholds.
Print Assumptions C07_route_passes.
Print Assumptions C07_route_drops_presentation.
Print Assumptions C07_others_not_delayed.
Print Assumptions C07_logic_sends_to_sleeping_only_on_wake.
Print Assumptions C07_step_sends_to_sleeping_only_on_wake.
Print Assumptions C07_queued_sends_have_allowed_origin.
Print Assumptions C07_set_child_value_sleeping_silent.
Print Assumptions C07_release_only_on_wake.
Print Assumptions C07_logic_release_only_on_wake.
Print Assumptions C07_sleeping_changes_only_on_wake.
