(* C13 - start-up survives damaged persistence files.  Statements only.
   Model: Model/FsSave.v (load_sensors / safe_load interpret the GENERATED Gen/SaveTrace.v: load_prog,
   safe_load_prog with the two caught tuples; class table from the live MROs).  damage_of f is MEASURED
   on every run (Gen/DamageClasses.v): the classes the real decoder raised on every truncation and the
   zero-fill of real files.  That no OTHER class can occur on damaged bytes is not proved (json / pickle
   are C code): it is the premise class_ok. *)
From Coq Require Import List Bool Arith NArith String.
From PMS Require Import Base.PyStr Spec.AbstractFs Model.FsSave Model.FsCode Gen.SaveTrace Gen.DamageClasses
     Proofs.FsProofs.
Import ListNotations.
Local Open Scope nat_scope.

(* For both formats and every main / backup / temp file that is missing, good, or damaged such that the
   decoder raises one of the measured classes: safe_load_sensors returns normally and the calls
   self._sensors.update(...) it made are exactly [main's state] if main is good, else [the backup's]
   if that is good, else none - never two (a merge).  (next only witnesses that St is inhabited.) *)
Theorem C13_safe_load_total :
  forall (f : fmt) (St : Type) (next : St) (m b t : fclass St) (ep ee : cls),
    class_ok (damage_of f) m -> class_ok (damage_of f) b -> class_ok (damage_of f) t ->
    In ep (damage_of f) -> In ee (damage_of f) ->
    snd (loadf (code f) ep ee (mk_disk m b t)) = LOk (expected_load m b).
Proof. exact safe_load_total. Qed.

(* ... and the directory it leaves lets the next save (any number of writes) run to completion, after
   which a start-up loads exactly what was saved *)
Theorem C13_after_load_consistent :
  forall (f : fmt) (St : Type) (next : St) (m b t : fclass St) (ep ee : cls) (w : nat),
    class_ok (damage_of f) m -> class_ok (damage_of f) b -> class_ok (damage_of f) t ->
    In ep (damage_of f) -> In ee (damage_of f) -> 1 <= w ->
    again_spec next (save_again (code f) ep ee w next (fresh (fst (loadf (code f) ep ee (mk_disk m b t))))).
Proof. exact after_load_consistent. Qed.

(* side condition on the generated data: every measured class is caught by both handlers, and no
   damaged file decoded without an exception *)
Theorem C13_damage_classes_caught :
  forall f e, In e (damage_of f) ->
    catches mro_tab (sl_h1 safe_load_prog) e = true /\ catches mro_tab (sl_h2 safe_load_prog) e = true.
Proof. exact damage_caught. Qed.

Theorem C13_damage_detected : damage_undetected_json = 0%N /\ damage_undetected_pickle = 0%N.
Proof. exact damage_detected. Qed.

(* the premise is needed: a class outside the caught tuples escapes start-up *)
Example C13_uncaught_class_escapes :
  snd (loadf (code Pickle) e_json e_json (mk_disk (FBad (s2p "KeyError"%string)) (FGood TSb) FMissing))
  = LRaise (s2p "KeyError"%string).
Proof. exact uncaught_class_escapes. Qed.

(* non-vacuity: damaged main, intact backup -> the backup's state *)
Example C13_example_backup :
  snd (loadf (code Pickle) e_json e_json
         (mk_disk (FBad (s2p "_pickle.UnpicklingError"%string)) (FGood TSb) FMissing)) = LOk [TSb].
Proof. exact load_example_backup. Qed.

Print Assumptions C13_safe_load_total.
Print Assumptions C13_after_load_consistent.
Print Assumptions C13_damage_classes_caught.
Print Assumptions C13_damage_detected.
