(* C03 - inbound validation conforms to the per-version serial API.  Statements only. *)
From Coq Require Import List NArith ZArith Bool String.
From PMS Require Import Base.PyStr Model.Codec Model.Rules Model.TableTypes Gen.Tables
  Model.Validate Spec.SerialApi Proofs.ValidateProofs.
Import ListNotations.
Open Scope Z_scope.

(* For each of the five versions, every header in Z^5, every payload, every behaviour of the
   two oracles (awesomeversion's verdict in is_version, CPython float()): Message.validate over
   the tables GENERATED from const_*.py accepts exactly when the hand-written serial API spec does. *)
Theorem C03_validate_conforms :
  forall (orc_version : pstr -> bool) (orc_float : pstr -> fres) (v : ver) (m : msg),
    validate orc_version orc_float (tab_of v) m =
    spec_accepts orc_version orc_float v (m_node m) (m_child m) (m_type m) (m_ack m) (m_sub m) (m_payload m).
Proof. exact validate_conforms. Qed.

(* the set of defined sub-types only grows with the version *)
Theorem C03_subtypes_monotone :
  forall v t s, zmem s (subtypes (tab_of v) t) = true -> zmem s (subtypes (tab_of (ver_next v)) t) = true.
Proof. exact subtypes_monotone. Qed.

(* every defined sub-type has an explicit payload rule (no reliance on the "" default) *)
Theorem C03_every_subtype_has_rule :
  forall v t s, zmem s (subtypes (tab_of v) t) = true -> has_rule (tab_of v) t s = true.
Proof. exact every_subtype_has_rule. Qed.

(* every presentation type has a child-value schema: get_schema cannot raise KeyError *)
Theorem C03_child_schema_total :
  forall v p, zmem p (subtypes (tab_of v) (vt_presentation (tab_of v))) = true ->
    exists sch, child_schema (tab_of v) p = Some sch.
Proof. exact child_schema_total. Qed.

(* no generated validator applies a combinator to a value kind it cannot take *)
Theorem C03_tables_well_kinded : forall v, kinds_ok (tab_of v) = true.
Proof. exact tables_well_kinded. Qed.

(* the hand-modelled validator functions have the AST fingerprints the model was written against *)
Theorem C03_validator_functions_unchanged :
  fn_hashes = [(s2p "FGps", s2p "9ecc978b1525c8ed"); (s2p "FHex", s2p "9e4105613a820f9c");
               (s2p "FRgb", s2p "1d36f795cba6d63d"); (s2p "FRgbw", s2p "f19d72d3d74541eb")].
Proof. exact validator_functions_unchanged. Qed.

(* non-vacuity: concrete accept / reject decisions of the generated tables *)
Example C03_example_accept :
  validate (fun _ => true) (fun _ => FErr) tab_22 (mkMsg 1 1 1 0 22 (s2p "Auto")) = true /\
  validate (fun _ => true) (fun _ => FErr) tab_14 (mkMsg 1 1 1 0 22 (s2p "Auto")) = false /\
  validate (fun _ => true) (fun _ => FErr) tab_22 (mkMsg 1 255 3 0 32 (s2p " 5_00 ")) = true /\
  validate (fun _ => true) (fun _ => FErr) tab_21 (mkMsg 1 255 3 0 32 (s2p "500")) = false /\
  validate (fun _ => true) (fun _ => FErr) tab_20 (mkMsg 1 255 1 0 2 (s2p "1")) = false.
Proof. vm_compute. repeat split; reflexivity. Qed.

Print Assumptions C03_validate_conforms.
Print Assumptions C03_subtypes_monotone.
Print Assumptions C03_every_subtype_has_rule.
Print Assumptions C03_child_schema_total.
Print Assumptions C03_tables_well_kinded.
Print Assumptions C03_validator_functions_unchanged.
