(* C03 - inbound validation conforms to the per-version serial API.  Statements only. *)
From Coq Require Import List NArith ZArith Bool String.
From PMS Require Import Base.PyStr Base.Version Model.Codec Model.Rules Model.TableTypes Gen.Tables
  Model.Validate Model.Oracles Spec.SerialApi Proofs.ValidateProofs Proofs.VersionProofs Proofs.VersionCore.
Import ListNotations.
Open Scope Z_scope.

(* For each of the five versions, every header in Z^5, every payload, every behaviour of the
   two oracles (awesomeversion's verdict in is_version, CPython float()): Message.validate over
   the tables GENERATED from const_*.py accepts exactly when the hand-written serial API spec does. *)
Theorem C03_validate_conforms :
  forall (orc_version : pstr -> bool) (orc_float : pstr -> fres) (v : ver) (m : msg),
    validate orc_version orc_float (tab_of v) m =
    spec_accepts orc_version orc_float v (m_node m) (m_child m) (m_type m) (m_ack m) (m_sub m) (m_payload m).
Proof. exact validate_conforms. Qed.

(* the set of defined sub-types only grows with the version *)
Theorem C03_subtypes_monotone :
  forall v t s, zmem s (subtypes (tab_of v) t) = true -> zmem s (subtypes (tab_of (ver_next v)) t) = true.
Proof. exact subtypes_monotone. Qed.

(* every defined sub-type has an explicit payload rule (no reliance on the "" default) *)
Theorem C03_every_subtype_has_rule :
  forall v t s, zmem s (subtypes (tab_of v) t) = true -> has_rule (tab_of v) t s = true.
Proof. exact every_subtype_has_rule. Qed.

(* every presentation type has a child-value schema: get_schema cannot raise KeyError *)
Theorem C03_child_schema_total :
  forall v p, zmem p (subtypes (tab_of v) (vt_presentation (tab_of v))) = true ->
    exists sch, child_schema (tab_of v) p = Some sch.
Proof. exact child_schema_total. Qed.

(* no generated validator applies a combinator to a value kind it cannot take *)
Theorem C03_tables_well_kinded : forall v, kinds_ok (tab_of v) = true.
Proof. exact tables_well_kinded. Qed.

(* the hand-modelled validator functions have the AST fingerprints the model was written against *)
Theorem C03_validator_functions_unchanged :
  fn_hashes = [(s2p "FGps", s2p "9ecc978b1525c8ed"); (s2p "FHex", s2p "9e4105613a820f9c");
               (s2p "FRgb", s2p "1d36f795cba6d63d"); (s2p "FRgbw", s2p "f19d72d3d74541eb")].
Proof. exact validator_functions_unchanged. Qed.

(* ---- "a version >= 1.4", numerically.  The machine's version verdict (Model/Oracles.v,
   orc_version) is computed by the exact awesomeversion model of Base/Version.v on dotted
   numeric payloads  [0-9]+(\.[0-9]+)*  and looked up in the oracle table only for other strings.

   For every version table, every header that is otherwise valid for a node presentation and
   every dotted numeric payload, whatever the oracle tables contain: the message validates
   iff the payload is numerically >= 1.4 - num_ge compares the lists of section values left to
   right, a missing section counting as 0; it does not mention awesomeversion's algorithm. *)
Theorem C03_node_presentation_version_numeric :
  forall (orc : oracles) (v : ver) (n c a s : Z) (p : pstr),
    0 <= n <= 255 -> 0 <= c <= 255 -> a = 0 \/ a = 1 ->
    s = 17 \/ s = 18 ->                      (* S_ARDUINO_NODE / S_ARDUINO_REPEATER_NODE *)
    dotted_numeric p = true ->
    (validate (orc_version orc) (orc_float orc) (tab_of v) (mkMsg n c c_presentation a s p) = true
     <-> num_ge (sections p) [1%N; 4%N] = true).
Proof. exact node_presentation_version_numeric_iff. Qed.

(* the modelled awesomeversion test of is_version, `not AwesomeVersion("1.4") > AwesomeVersion(p)`,
   is that numeric comparison (for every string p) *)
Theorem C03_version_test_is_numeric :
  forall p, negb (av_gt_num (s2p "1.4") p) = num_ge (sections p) [1%N; 4%N].
Proof. exact ver_ge14_num. Qed.

(* all messages: validation over the generated tables with the machine's oracles equals the
   hand-written spec whose version class is the numeric rule on dotted numeric payloads
   (version_rule, Spec/SerialApi.v) and the oracle's verdict only on other strings *)
Theorem C03_validate_conforms_numeric :
  forall (orc : oracles) (v : ver) (m : msg),
    validate (orc_version orc) (orc_float orc) (tab_of v) m =
    spec_accepts (version_rule (orc_version orc)) (orc_float orc) v
                 (m_node m) (m_child m) (m_type m) (m_ack m) (m_sub m) (m_payload m).
Proof. exact validate_conforms_numeric. Qed.

(* non-vacuity: concrete accept / reject decisions of the generated tables *)
Example C03_example_accept :
  validate (fun _ => true) (fun _ => FErr) tab_22 (mkMsg 1 1 1 0 22 (s2p "Auto")) = true /\
  validate (fun _ => true) (fun _ => FErr) tab_14 (mkMsg 1 1 1 0 22 (s2p "Auto")) = false /\
  validate (fun _ => true) (fun _ => FErr) tab_22 (mkMsg 1 255 3 0 32 (s2p " 5_00 ")) = true /\
  validate (fun _ => true) (fun _ => FErr) tab_21 (mkMsg 1 255 3 0 32 (s2p "500")) = false /\
  validate (fun _ => true) (fun _ => FErr) tab_20 (mkMsg 1 255 1 0 2 (s2p "1")) = false.
Proof. vm_compute. repeat split; reflexivity. Qed.

(* numeric versions: the boundary spellings, decided with EMPTY oracle tables and with tables
   that claim the opposite *)
Definition C03_vmsg (p : string) : msg := mkMsg 1 255 c_presentation 0 17 (s2p p).
Definition C03_lying (b : bool) : oracles :=
  mkOracles (map (fun p => (s2p p, (b, 3%nat)))
                 ["1.4"; "1.4.0"; "1.04"; "2"; "10.0"; "1.3.9"; "1.3"; "0.9"; "1"]%string) [].
Example C03_numeric_versions_accepted :
  map (fun p => validate (orc_version no_oracles) (orc_float no_oracles) tab_22 (C03_vmsg p))
      ["1.4"; "1.4.0"; "1.04"; "2"; "10.0"]%string = [true; true; true; true; true] /\
  map (fun p => validate (orc_version (C03_lying false)) (orc_float no_oracles) tab_14 (C03_vmsg p))
      ["1.4"; "1.4.0"; "1.04"; "2"; "10.0"]%string = [true; true; true; true; true] /\
  map (fun p => dotted_numeric (s2p p) && num_ge (sections (s2p p)) [1%N; 4%N])
      ["1.4"; "1.4.0"; "1.04"; "2"; "10.0"]%string = [true; true; true; true; true].
Proof. vm_compute. repeat split; reflexivity. Qed.
Example C03_numeric_versions_rejected :
  map (fun p => validate (orc_version no_oracles) (orc_float no_oracles) tab_22 (C03_vmsg p))
      ["1.3.9"; "1.3"; "0.9"; "1"]%string = [false; false; false; false] /\
  map (fun p => validate (orc_version (C03_lying true)) (orc_float no_oracles) tab_14 (C03_vmsg p))
      ["1.3.9"; "1.3"; "0.9"; "1"]%string = [false; false; false; false] /\
  map (fun p => dotted_numeric (s2p p) && negb (num_ge (sections (s2p p)) [1%N; 4%N]))
      ["1.3.9"; "1.3"; "0.9"; "1"]%string = [true; true; true; true].
Proof. vm_compute. repeat split; reflexivity. Qed.
(* strings that are not dotted numeric still follow the oracle table *)
Example C03_non_numeric_follows_oracle :
  let o := mkOracles [(s2p "2.0.0-beta", (true, 2%nat)); (s2p "latest", (false, 0%nat))] [] in
  dotted_numeric (s2p "2.0.0-beta") = false /\
  validate (orc_version o) (orc_float o) tab_22 (C03_vmsg "2.0.0-beta") = true /\
  validate (orc_version o) (orc_float o) tab_22 (C03_vmsg "latest") = false /\
  validate (orc_version no_oracles) (orc_float no_oracles) tab_22 (C03_vmsg "2.0.0-beta") = false.
Proof. vm_compute. repeat split; reflexivity. Qed.

Print Assumptions C03_validate_conforms.
Print Assumptions C03_subtypes_monotone.
Print Assumptions C03_every_subtype_has_rule.
Print Assumptions C03_child_schema_total.
Print Assumptions C03_tables_well_kinded.
Print Assumptions C03_validator_functions_unchanged.
Print Assumptions C03_node_presentation_version_numeric.
Print Assumptions C03_version_test_is_numeric.
Print Assumptions C03_validate_conforms_numeric.
