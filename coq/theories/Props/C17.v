(* C17 - MQTT topics and commands map one-to-one.  Statements only. *)
From Coq Require Import String.
From Coq Require Import List NArith ZArith Bool.
From PMS Require Import Base.PyStr Base.PyInt Base.Exn Model.Codec Model.Mqtt Spec.MqttSpec
  Proofs.CodecProofs Proofs.MqttProofs.
Import ListNotations.
Open Scope N_scope.

(* ---- 1. publish, then receive under the same prefix ---- *)

(* parse_message_to_mqtt: a line that decodes is published under /node/child/type/ack/subtype
   with its payload and qos = ack; any other line raises ValueError and nothing else *)
Theorem C17_publish_shape : forall l : pstr,
  (exists m, decode l = Some m /\ to_mqtt l = Ok (topic_of m, m_payload m, m_ack m)) \/
  (decode l = None /\ to_mqtt l = Raise ValueError).
Proof. exact to_mqtt_total. Qed.

(* for EVERY prefix string (empty, nested, digit-only levels, leading/trailing '/') and every
   line that Message.decode accepts with ack 0 or 1 (any integer header, any payload the
   codec can carry - by C02 exactly those without ';' and trailing white space):
   what is published comes back as the canonical command without its newline; qos > 0
   exactly when ack = 1; a canonical command comes back byte for byte *)
Theorem C17_mqtt_roundtrip : forall (pfx l : pstr) (m : msg),
  decode l = Some m -> (m_ack m = 0 \/ m_ack m = 1)%Z ->
  exists topic payload qos,
    to_mqtt l = Ok (topic, payload, qos) /\
    from_mqtt pfx (pfx ++ topic) payload qos = Ok (Some (line_of m)) /\
    ((0 < qos)%Z <-> m_ack m = 1%Z) /\
    (canonical l -> l = line_of m ++ [nl]).
Proof. exact roundtrip. Qed.

(* the same in the property's words: every canonical command (integer header, ack 0/1,
   payload the codec can carry), every prefix *)
Theorem C17_mqtt_roundtrip_canonical : forall (pfx : pstr) (m : msg),
  wire_ok (m_payload m) = true -> (m_ack m = 0 \/ m_ack m = 1)%Z ->
  encode m = line_of m ++ [nl] /\
  to_mqtt (encode m) = Ok (topic_of m, m_payload m, m_ack m) /\
  from_mqtt pfx (pfx ++ topic_of m) (m_payload m) (m_ack m) = Ok (Some (line_of m)) /\
  ((0 < m_ack m)%Z <-> m_ack m = 1%Z).
Proof. exact roundtrip_canonical. Qed.

(* delivery with an arbitrary qos and payload (and an arbitrary integer ack in the published
   command): the received command has ack = 1 if qos > 0 else 0 and the delivered payload *)
Theorem C17_mqtt_roundtrip_any_qos : forall (pfx l : pstr) (m : msg) (p : pstr) (q : Z),
  decode l = Some m ->
  to_mqtt l = Ok (topic_of m, m_payload m, m_ack m) /\
  from_mqtt pfx (pfx ++ topic_of m) p q = Ok (Some (line_of (delivered m q p))).
Proof. exact roundtrip_any. Qed.

(* non-vacuity: prefix that looks like message levels, payload with inner blanks and '/' *)
Example C17_roundtrip_example :
  let pfx := s2p "1/2/1/0/2" in
  let l := s2p "7;3;1;1;2;hi /there" ++ [nl] in
  match to_mqtt l with
  | Ok (t, p, q) => t = s2p "/7/3/1/1/2" /\ q = 1%Z /\
                    from_mqtt pfx (pfx ++ t) p q = Ok (Some (s2p "7;3;1;1;2;hi /there"))
  | Raise _ => False
  end.
Proof. vm_compute. repeat split. Qed.

(* an ack other than 0/1 (no validated message has one) is published as that qos and comes
   back as ack 1: the premise of C17_mqtt_roundtrip is needed *)
Example C17_ack_out_of_range :
  let l := s2p "1;2;1;2;3;x" ++ [nl] in
  match to_mqtt l with
  | Ok (t, p, q) => q = 2%Z /\ from_mqtt [] t p q = Ok (Some (s2p "1;2;1;1;3;x"))
  | Raise _ => False
  end.
Proof. vm_compute. repeat split. Qed.

(* ---- 2. acceptance ---- *)

(* a topic is accepted exactly when it is the configured prefix followed by five levels *)
Theorem C17_mqtt_accept_iff : forall (pfx t p : pstr) (q : Z),
  (exists line, from_mqtt pfx t p q = Ok (Some line)) <->
  (exists l1 l2 l3 l4 l5, level l1 /\ level l2 /\ level l3 /\ level l4 /\ level l5 /\
     t = pfx ++ s2p "/" ++ l1 ++ s2p "/" ++ l2 ++ s2p "/" ++ l3 ++ s2p "/" ++ l4 ++ s2p "/" ++ l5).
Proof. exact accept_iff. Qed.

(* ... and then the command is the five levels with the fourth replaced by the qos flag,
   followed by the payload *)
Theorem C17_mqtt_accept_value : forall (pfx l1 l2 l3 l4 l5 p : pstr) (q : Z),
  level l1 -> level l2 -> level l3 -> level l4 -> level l5 ->
  from_mqtt pfx (pfx ++ s2p "/" ++ l1 ++ s2p "/" ++ l2 ++ s2p "/" ++ l3 ++ s2p "/" ++ l4 ++ s2p "/" ++ l5) p q
  = Ok (Some (l1 ++ s2p ";" ++ l2 ++ s2p ";" ++ l3 ++ s2p ";" ++ ack_str q ++ s2p ";" ++ l5 ++ s2p ";" ++ p)).
Proof. exact accept_value. Qed.

(* receiving never raises, whatever the topic *)
Theorem C17_from_mqtt_never_raises : forall (pfx t p : pstr) (q : Z),
  exists o, from_mqtt pfx t p q = Ok o.
Proof. exact from_mqtt_total. Qed.

(* the three D16 witnesses and prefixes with empty levels *)
Example C17_accept_examples :
  from_mqtt (s2p "1/2/1/0/2") (s2p "1/2/1/0/2/1/2/1/0/2") (s2p "p") 0 = Ok (Some (s2p "1;2;1;0;2;p")) /\
  from_mqtt (s2p "a") (s2p "a/1/2/1/0/2/x/1/2/1/0/2") [] 0 = Ok None /\
  from_mqtt [] (s2p "x") [] 0 = Ok None /\
  from_mqtt [] (s2p "/1/2/1/0/2") [] 2 = Ok (Some (s2p "1;2;1;1;2;")) /\
  from_mqtt (s2p "a/") (s2p "a//1/2/1/0/2") [] 0 = Ok (Some (s2p "1;2;1;0;2;")) /\
  from_mqtt (s2p "a/") (s2p "a/1/2/1/0/2") [] 0 = Ok None /\
  from_mqtt (s2p "/") (s2p "//1/2/1/0/2") [] 0 = Ok (Some (s2p "1;2;1;0;2;")).
Proof. vm_compute. repeat split. Qed.

(* ---- 3. subscriptions ---- *)

(* persistence enabled: after connect (init_topics on the restored state st0) and any history
   of presentations / node additions, for every behaviour of the subscribe callback, the
   subscribe callback was called for the presentation and internal wildcards and for the
   set, req and stream topics of every child in the network - restored or presented *)
Theorem C17_subscriptions_cover :
  forall (sub : nat -> pstr -> Z -> res unit) (pfx : pstr) (st0 : net) (ops : list op) (s : mstate),
  start sub pfx true st0 ops = Ok s ->
  subscribed (ms_subs s) (presentation_topic pfx) /\
  subscribed (ms_subs s) (internal_topic pfx) /\
  (forall n c, has_child st0 n c -> has_child (ms_net s) n c) /\
  (forall n c, has_child (ms_net s) n c -> child_covered pfx (ms_subs s) n c).
Proof. exact cover_pers. Qed.

(* persistence disabled: init_topics returns after the two wildcards, so children that were
   already in gateway.sensors when it ran (st0) are not subscribed by it; every child
   presented afterwards is covered.  On a freshly constructed gateway st0 = [] *)
Theorem C17_subscriptions_cover_no_persistence :
  forall (sub : nat -> pstr -> Z -> res unit) (pfx : pstr) (st0 : net) (ops : list op) (s : mstate),
  start sub pfx false st0 ops = Ok s ->
  subscribed (ms_subs s) (presentation_topic pfx) /\
  subscribed (ms_subs s) (internal_topic pfx) /\
  (forall n c, has_child st0 n c -> has_child (ms_net s) n c) /\
  (forall n c, has_child (ms_net s) n c -> has_child st0 n c \/ child_covered pfx (ms_subs s) n c).
Proof. exact cover_nopers. Qed.

(* exactly the two wildcards, whatever is in the network *)
Theorem C17_init_topics_without_persistence :
  forall (sub : nat -> pstr -> Z -> res unit) (pfx : pstr) (st : net) (k : nat) (l : list (pstr * Z)),
  init_topics sub pfx false st k = Ok l ->
  map fst l = [presentation_topic pfx; internal_topic pfx].
Proof. exact init_no_persistence. Qed.

(* the covered set is not vacuous: a child presented to a known node is in the network
   afterwards (and was known before or is covered now) *)
Theorem C17_presented_child_is_known :
  forall (sub : nat -> pstr -> Z -> res unit) (pfx : pstr) (s : mstate) (n c : Z),
  has_node (ms_net s) n = true -> c <> 255%Z ->
  exists s', step sub pfx s (Present n c) = Ok s' /\ has_child (ms_net s') n c /\
             (has_child (ms_net s) n c \/ child_covered pfx (ms_subs s') n c).
Proof. exact present_known. Qed.

Example C17_subscriptions_example :
  let sub := fun (k : nat) (_ : pstr) (_ : Z) => if Nat.eqb k 3 then Raise OSError else Ok tt in
  match start sub (s2p "in/1") true [(7, [0; 3])%Z] [Present 1 255; Present 1 4; Present 1 4; Present 9 1; AddNode 2; Present 2 0]%Z with
  | Ok s => ms_net s = [(7, [0; 3]); (1, [4]); (2, [0])]%Z /\
            map fst (ms_subs s) = map s2p
              ["in/1/+/+/0/+/+"; "in/1/+/+/3/+/+"; "in/1/7/0/1/+/+"; "in/1/7/0/2/+/+"; "in/1/7/3/1/+/+";
               "in/1/7/3/2/+/+"; "in/1/7/+/4/+/+"; "in/1/1/4/1/+/+"; "in/1/1/4/2/+/+"; "in/1/1/+/4/+/+";
               "in/1/2/0/1/+/+"; "in/1/2/0/2/+/+"; "in/1/2/+/4/+/+"]%string
  | Raise _ => False
  end.
Proof. vm_compute. repeat split. Qed.

(* the early return: a child known before connect is not subscribed when persistence is off *)
Example C17_no_persistence_example :
  match start (fun _ _ _ => Ok tt) (s2p "p") false [(7, [0])%Z] [] with
  | Ok s => map fst (ms_subs s) = map s2p ["p/+/+/0/+/+"; "p/+/+/3/+/+"]%string
  | Raise _ => False
  end.
Proof. vm_compute. reflexivity. Qed.

(* ---- 4. callbacks cannot stop the pump ---- *)

(* send returns normally for every message (None, empty, unparsable, valid) and every
   behaviour of the publish callback *)
Theorem C17_callbacks_cannot_stop_pump_send :
  forall (pub : pstr -> pstr -> Z -> bool -> res unit) (out_prefix : pstr) (retain : bool)
         (message : option pstr),
  exists r, send pub out_prefix retain message = Ok r.
Proof. exact send_ok. Qed.

(* handle_subscription returns normally for every behaviour of the subscribe callback and
   attempts every topic, provided each prefixed topic has at least two levels *)
Theorem C17_callbacks_cannot_stop_pump_subscribe :
  forall (sub : nat -> pstr -> Z -> res unit) (pfx : pstr) (k : nat) (topics : list pstr),
  Forall (fun t => mem_N 47 (pfx ++ t) = true) topics ->
  exists l, handle_subscription sub pfx k topics = Ok l /\ map fst l = map (app pfx) topics.
Proof. exact hsub_ok_slash. Qed.

(* connect and every history of presentations return normally for every behaviour of the
   subscribe callback *)
Theorem C17_callbacks_cannot_stop_pump_start :
  forall (sub : nat -> pstr -> Z -> res unit) (pfx : pstr) (pers : bool) (st0 : net) (ops : list op),
  exists s, start sub pfx pers st0 ops = Ok s.
Proof. exact start_ok. Qed.

Example C17_callbacks_example :
  send (fun _ _ _ _ => Raise RuntimeError) (s2p "out") true (Some (s2p "1;2;1;1;2;on" ++ [nl]))
    = Ok (Some (s2p "out/1/2/1/1/2", s2p "on", 1%Z, true)) /\
  send (fun _ _ _ _ => Ok tt) (s2p "out") true (Some (s2p "1;2;1;0;2;a;b")) = Ok None /\
  handle_subscription (fun _ _ _ => Raise KeyError) (s2p "in") 0 [s2p "/1/2/1/+/+"; s2p "/1/+/4/+/+"]
    = Ok [(s2p "in/1/2/1/+/+", 0%Z); (s2p "in/1/+/4/+/+", 0%Z)].
Proof. vm_compute. repeat split. Qed.

(* the premise of the subscribe theorem is needed: a topic without any '/' under an
   empty prefix makes topic_levels[-2] raise IndexError (never passed by the library itself) *)
Example C17_subscribe_one_level_topic :
  handle_subscription (fun _ _ _ => Ok tt) [] 0 [s2p "x"] = Raise IndexError.
Proof. vm_compute. reflexivity. Qed.

Print Assumptions C17_publish_shape.
Print Assumptions C17_mqtt_roundtrip.
Print Assumptions C17_mqtt_roundtrip_canonical.
Print Assumptions C17_mqtt_roundtrip_any_qos.
Print Assumptions C17_mqtt_accept_iff.
Print Assumptions C17_mqtt_accept_value.
Print Assumptions C17_from_mqtt_never_raises.
Print Assumptions C17_subscriptions_cover.
Print Assumptions C17_subscriptions_cover_no_persistence.
Print Assumptions C17_init_topics_without_persistence.
Print Assumptions C17_presented_child_is_known.
Print Assumptions C17_callbacks_cannot_stop_pump_send.
Print Assumptions C17_callbacks_cannot_stop_pump_subscribe.
Print Assumptions C17_callbacks_cannot_stop_pump_start.
