(* C01 - the message pump cannot be crashed or tricked by input.  Statements only.
   Machine: Model/Gateway.v (dispatcher, all handlers, OTA session, smart sleep, both task
   flavours) over the GENERATED tables and registry; oracles (awesomeversion, float(), clock) are
   universally quantified. *)
From Coq Require Import List NArith ZArith Bool String.
From PMS Require Import Base.PyStr Base.Exn Model.Codec Model.TableTypes Gen.Tables Model.Validate
  Model.Oracles Model.Hex Model.Ota Model.Gateway Proofs.GwInv Proofs.C01Proofs.
Import ListNotations.

(* decode can fail in one way only (the model of ValueError): it is total into option *)
Theorem C01_decode_only_valueerror : forall l : pstr, decode l = None \/ exists m, decode l = Some m.
Proof. intro l. destruct (decode l) as [m|]; [right; exists m; reflexivity|left; reflexivity]. Qed.

(* a line that does not decode, or does not validate for the configured version, has no effect
   at all: same state (sensors, queues, OTA stores, dirty flag, job queue), no reply, no event *)
Theorem C01_rejected_is_noop :
  forall orc clock g l,
    (decode l = None \/ exists m, decode l = Some m /\ gvalidate orc g m = false) ->
    logic orc clock g l = Ok (g, None).
Proof. exact rejected_is_noop. Qed.

(* For every one of the five configurations, every oracle, every history of inbound lines (ANY
   text), pump iterations and controller calls (set_child_value with any value type / value /
   kwargs, update_fw with images whose block count fits 16 bits, set metric) in both task
   flavours: in the state reached, the dispatcher processes ANY next line, and any line still
   queued, without raising. *)
Theorem C01_pump_total :
  forall orc clock cf ops l, cfg_ok cf -> Forall op_ok ops ->
    let g := run orc clock (gw_init cf) ops in
    (exists g' r, logic orc clock g l = Ok (g', r)) /\
    (forall l' rest, g_jobs g = JLogic l' :: rest ->
       exists g' r, logic orc clock (set_jobs g rest) l' = Ok (g', r)).
Proof. exact pump_total. Qed.

(* the invariant that carries it, for every reachable state *)
Theorem C01_reachable_invariant :
  forall orc clock cf ops, cfg_ok cf -> Forall op_ok ops ->
    Inv orc (run orc clock (gw_init cf) ops) /\ g_cf (run orc clock (gw_init cf) ops) = cf.
Proof. intros orc clock cf ops C F. exact (run_ok orc clock ops (gw_init cf) C (Inv_init orc cf) F). Qed.

(* the pump still works afterwards: a config request from a node the gateway does not hold back
   is answered with M or I *)
Theorem C01_liveness_probe :
  forall orc clock g, cfg_ok (g_cf g) -> get_node g 200 = None ->
    logic orc clock g probe = Ok (g, Some (probe_reply (g_metric g))).
Proof. exact liveness_probe. Qed.


(* non-vacuity: the five configurations exist; a malformed stream request from a known node is
   accepted by validation and ignored by the dispatcher (the D1 scenario) *)
Example C01_cfg_exists : cfg_ok (mkConfig tab_22 true false true false).
Proof. exists Spec.SerialApi.V22. split; reflexivity. Qed.
Example C01_malformed_stream_request_ignored :
  let g := run no_oracles 0 (gw_init (mkConfig tab_22 true true false false))
               [Recv (s2p "1;255;0;0;3;x") ] in
  get_node g 1 <> None /\
  g_log (step no_oracles 0 g (Recv (s2p "1;255;4;0;2;zz"))) = g_log g.
Proof. vm_compute. split; [discriminate|reflexivity]. Qed.

Print Assumptions C01_decode_only_valueerror.
Print Assumptions C01_rejected_is_noop.
Print Assumptions C01_pump_total.
Print Assumptions C01_reachable_invariant.
Print Assumptions C01_liveness_probe.
