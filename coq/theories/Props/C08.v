(* C08 - withheld traffic reaches the sleeping node exactly once, in order.  Statements only.
   Machine: Model/Gateway.v over the GENERATED tables and registry; oracles and clock universally
   quantified; all five configurations (cfg_ok); both task flavours.  Proofs: Proofs/Sleep*.v.
   Invariants Inv / QInv / CInv hold in every reachable state (C08_reachable_invariants). *)
From Coq Require Import List NArith ZArith Bool String.
From PMS Require Import Base.PyStr Base.PyInt Base.Exn Model.Codec Model.TableTypes Gen.Tables Model.Validate
  Model.Oracles Model.Hex Model.Ota Model.Gateway Spec.SerialApi Proofs.ValidateProofs Proofs.GwInv
  Proofs.SleepDefs Proofs.SleepFlush Proofs.SleepTrans Proofs.SleepLife Proofs.SleepProofs
  Proofs.SleepExamples.
Import ListNotations.
Open Scope string_scope.
Open Scope list_scope.
Open Scope Z_scope.

Theorem C08_reachable_invariants :
  forall orc clock cf ops, cfg_ok cf -> Forall op_ok ops ->
    let g := run orc clock (gw_init cf) ops in Inv orc g /\ QInv g /\ CInv g /\ g_cf g = cf.
Proof. exact reachable_sleep_inv. Qed.

(* ------------------------------------------------------------------ 1. the flush *)
(* the strings of a flush: the withheld strings oldest first, then the set commands
   desired_sets = encode of desired_msgs; membership in desired_msgs, both directions: a child (in
   insertion order), a value type the node HAS REPORTED for it (in insertion order), a pending
   desired value v: the message  node;child;set;0;value type;str(v) *)
Theorem C08_flush_strings_def :
  forall t nd, flush_strings t nd = n_queue nd ++ map encode (desired_msgs t (init_smart_sleep nd)).
Proof. reflexivity. Qed.

Theorem C08_desired_msgs_def :
  forall t nd, desired_msgs t nd =
    flat_map (fun kc =>
      match zassoc (c_id (snd kc)) (n_new nd) with
      | Some dv =>
          flat_map (fun kv => match zassoc (fst kv) dv with
                              | Some (Some v) => [mkMsg (n_id nd) (c_id (snd kc)) (vt_set t) 0 (fst kv) (py_str v)]
                              | _ => []
                              end) (c_values (snd kc))
      | None => []
      end) (n_children nd).
Proof. reflexivity. Qed.

Theorem C08_desired_msgs_membership :
  forall t nd m, In m (desired_msgs t nd) <->
    exists k ch vt x v, In (k, ch) (n_children nd) /\ In (vt, x) (c_values ch) /\
                        desired nd (c_id ch) vt = Some v /\ m = set_msg_of t (n_id nd) (c_id ch) vt v.
Proof. exact In_desired_msgs. Qed.

(* flush_spec: for a known node in a state satisfying the invariants the flush returns Ok, and
   the state afterwards is `flushed g nd`: the strings are handed to add_job_send in order (log
   delta in the asyncio flavour, job queue suffix in the threaded flavour), the node's queue is
   empty, every child has a slot, desired entries are NOT cleared, nothing else changed *)
Theorem C08_flush_spec :
  forall orc g k nd, Inv orc g -> QInv g -> get_node g k = Some nd ->
    handle_smartsleep orc g nd = Ok (flushed g nd).
Proof. exact flush_spec. Qed.

(* the same as the sequence of calls: the node is stored with its queue emptied, then add_job_send
   is called on each string in order (needs Inv only) *)
Theorem C08_flush_calls :
  forall orc g k nd, Inv orc g -> get_node g k = Some nd ->
    handle_smartsleep orc g nd =
    Ok (fold_left add_job_send (flush_strings (tab g) nd) (put_node g (woken nd))).
Proof. exact handle_smartsleep_closed. Qed.

Theorem C08_flushed_fields :
  forall orc g k nd, Inv orc g -> get_node g k = Some nd ->
    g_cf (flushed g nd) = g_cf g /\ g_ota (flushed g nd) = g_ota g /\ g_metric (flushed g nd) = g_metric g /\
    g_dirty (flushed g nd) = g_dirty g /\
    g_sensors (flushed g nd) = zset k (woken nd) (g_sensors g) /\
    get_node (flushed g nd) k = Some (woken nd) /\
    (forall k', k' <> k -> get_node (flushed g nd) k' = get_node g k') /\
    (if cf_async (g_cf g)
     then g_log (flushed g nd) = g_log g ++ map ESend (flush_strings (tab g) nd) /\ g_jobs (flushed g nd) = g_jobs g
     else g_log (flushed g nd) = g_log g /\ g_jobs (flushed g nd) = g_jobs g ++ map JSend (flush_strings (tab g) nd)).
Proof. exact flushed_fields. Qed.

Theorem C08_woken_fields :
  forall nd,
    n_queue (woken nd) = [] /\ n_new (woken nd) = n_new (init_smart_sleep nd) /\
    n_id (woken nd) = n_id nd /\ n_children (woken nd) = n_children nd /\ n_type (woken nd) = n_type nd /\
    n_sk_name (woken nd) = n_sk_name nd /\ n_sk_ver (woken nd) = n_sk_ver nd /\ n_batt (woken nd) = n_batt nd /\
    n_pver (woken nd) = n_pver nd /\ n_hb (woken nd) = n_hb nd /\ n_reboot (woken nd) = n_reboot nd /\
    (forall c vt, desired (woken nd) c vt = desired nd c vt) /\
    (forall c, zhas c (n_children nd) = true -> zhas c (n_new (woken nd)) = true) /\
    (exists ext, n_new (woken nd) = n_new nd ++ ext /\ Forall (fun e => snd e = []) ext).
Proof. exact woken_fields. Qed.

(* the prefix-emitting flush of the model (what Python does when create_message raises in the
   middle) and the exception-free one: they agree, and under the invariant neither raises *)
Theorem C08_flush_children_rel :
  forall orc g nd chs,
    match flush_children orc g nd chs with
    | Ok l => flush_children_pre orc g nd chs = (l, None)
    | Raise e => exists pre, flush_children_pre orc g nd chs = (pre, Some e)
    end.
Proof. exact flush_children_rel. Qed.

Theorem C08_flush_children_closed :
  forall orc g nd chs,
    Forall (fun cd => dv_ok orc (tab g) (n_id nd) (fst cd) (snd cd)) (n_new nd) ->
    flush_children orc g nd chs = Ok (map encode (children_msgs (tab g) nd chs)) /\
    flush_children_pre orc g nd chs = (map encode (children_msgs (tab g) nd chs), None).
Proof. exact flush_children_closed_both. Qed.

(* a wake-up announcement of a known node, through the dispatcher: never raises, no reply, the
   state is the flushed one (2.0 / 2.1: plus the heartbeat attribute and the alert) ... *)
Theorem C08_wake_logic :
  forall orc clock g l m nd, cfg_ok (g_cf g) -> Inv orc g -> QInv g ->
    decode l = Some m -> gvalidate orc g m = true -> wake_msg (tab g) m = true ->
    get_node g (m_node m) = Some nd ->
    exists h, sub_handler (tab g) (m_type m) (m_sub m) = Some h /\ (h = HHeartbeat \/ h = HPreSleep) /\
              logic orc clock g l = Ok (after_wake h g m nd, None).
Proof. exact wake_logic. Qed.

(* ... and what leaves the gateway in that call is EXACTLY the withheld strings, each once, oldest
   first, followed by the set commands *)
Theorem C08_wake_outputs :
  forall orc h g m nd k, Inv orc g -> get_node g k = Some nd -> (h = HHeartbeat \/ h = HPreSleep) ->
    let g' := after_wake h g m nd in
    (exists d, g_log g' = g_log g ++ d /\
               sends_of d = if cf_async (g_cf g) then flush_strings (tab g) nd else []) /\
    g_jobs g' = g_jobs g ++ (if cf_async (g_cf g) then [] else map JSend (flush_strings (tab g) nd)).
Proof. exact after_wake_outputs. Qed.

(* ------------------------------------------------------------------ 2. life cycle of a desired value *)
(* (a) set_child_value on a known child of a sleeping node, closed form: the value type must be an
   int() spelling, the set message must validate for the GATEWAY's version (else Invalid at call
   time), the child must have a slot (else ValueError), the message must validate for the NODE's
   version (an additional refusal); then Some v is stored under the INTEGER key, nothing else *)
Theorem C08_set_child_value_sleeping :
  forall orc g sid cid vt v mt a nd,
    get_node g sid = Some nd -> zhas cid (n_children nd) = true -> sleeping nd = true ->
    set_child_value orc g sid cid vt v mt a =
    match vt_int vt with
    | None => Raise ValueError
    | Some vti =>
        if gw_accepts orc g (n_id nd) cid vti v then
          match zassoc cid (n_new nd) with
          | None => Raise ValueError
          | Some dv => if node_accepts orc nd cid vti v then Ok (put_node g (store_desired nd cid vti v dv))
                       else Raise VolInvalid
          end
        else Raise VolInvalid
    end.
Proof. exact set_child_value_sleeping. Qed.

Theorem C08_store_desired_facts :
  forall nd cid vti v dv, zassoc cid (n_new nd) = Some dv ->
    let nd' := store_desired nd cid vti v dv in
    desired nd' cid vti = Some v /\
    (forall c vt, (c, vt) <> (cid, vti) -> desired nd' c vt = desired nd c vt) /\
    sleeping nd' = true /\ n_queue nd' = n_queue nd /\ n_children nd' = n_children nd /\ n_id nd' = n_id nd /\
    map fst (n_new nd') = map fst (n_new nd).
Proof. exact store_desired_facts. Qed.

(* value types given as "2" and as 2 are the same key: the whole call behaves identically *)
Theorem C08_vt_key_normalised :
  forall orc g sid cid vt1 vt2 v mt a, vt_int vt1 = vt_int vt2 ->
    set_child_value orc g sid cid vt1 v mt a = set_child_value orc g sid cid vt2 v mt a.
Proof. exact vt_key_normalised. Qed.
Theorem C08_vt_key_str_int : forall z, vt_int (VtStr (print z)) = vt_int (VtInt z).
Proof. exact vt_int_str. Qed.

(* (b) an accepted report (set message from a known child): the node becomes update_child_value,
   whose entry (c, vt) is None (confirmed), no other desired entry is touched, the value is
   recorded as reported *)
Theorem C08_handle_set_known :
  forall g m nd,
    get_node g (m_node m) = Some nd -> zhas (m_child m) (n_children nd) = true ->
    wire_ok (m_payload m) = true -> has_member (vt_internal_members (tab g)) "I_REBOOT" = true ->
    exists reply,
      handle_set g m =
      Ok (alert (put_node g (update_child_value nd (m_child m) (m_sub m) (m_payload m))) m, reply) /\
      (n_reboot nd = false -> reply = None).
Proof. exact handle_set_known. Qed.

Theorem C08_update_child_value_facts :
  forall nd c vt p, zhas c (n_children nd) = true ->
    let nd' := update_child_value nd c vt p in
    desired nd' c vt = None /\
    (forall c' vt', (c', vt') <> (c, vt) -> desired nd' c' vt' = desired nd c' vt') /\
    reported nd' c vt = Some (PS p) /\
    n_queue nd' = n_queue nd /\ n_id nd' = n_id nd /\ sleeping nd' = sleeping nd /\
    map fst (n_new nd') = map fst (n_new nd).
Proof. exact update_child_value_facts. Qed.

(* the same at the level of a step of the machine (arriving line / pumped line) *)
Theorem C08_report_clears_desired :
  forall orc clock g o n c vt nd,
    cfg_ok (g_cf g) -> Inv orc g -> QInv g -> op_ok o ->
    op_cause orc g o = CReport n c vt -> get_node g n = Some nd -> zhas c (n_children nd) = true ->
    exists nd', get_node (step orc clock g o) n = Some nd' /\ desired nd' c vt = None /\
                has_reported nd' c vt /\
                (forall c' vt', (c', vt') <> (c, vt) -> desired nd' c' vt' = desired nd c' vt').
Proof. exact report_clears_desired. Qed.

(* reading of the two causes: a step processes an accepted set message from (n, c, vt) / is the
   controller call for (n, c, int(vt')) *)
Theorem C08_cause_report :
  forall orc g o n c vt, cfg_ok (g_cf g) ->
    (op_cause orc g o = CReport n c vt <->
     exists l m, processed g o = Some l /\ decode l = Some m /\ gvalidate orc g m = true /\
                 m_type m = 1 /\ m_node m = n /\ m_child m = c /\ m_sub m = vt).
Proof. exact op_cause_report. Qed.
Theorem C08_cause_desire :
  forall orc g o n c vt,
    op_cause orc g o = CDesire n c vt <->
    exists vt' v mt a, o = SetChild n c vt' v mt a /\ vt_int vt' = Some vt.
Proof. exact op_cause_desire. Qed.

(* (c) between (a) and the next (b): after an accepted call, in EVERY state reached by a history
   without a report of (n, c, vt) and without a new call for it: the value is still pending,
   requests are answered with it, the wake-up flush succeeds and - provided the node has
   reported that value type - contains the set command *)
Theorem C08_desired_resent_until_reported :
  forall orc clock g n c vt vti v mt a g1 nd ops,
    cfg_ok (g_cf g) -> Inv orc g -> QInv g -> CInv g -> Forall op_ok ops ->
    get_node g n = Some nd -> zhas c (n_children nd) = true -> sleeping nd = true ->
    set_child_value orc g n c vt v mt a = Ok g1 -> vt_int vt = Some vti ->
    quiet orc clock (fun cz => cz = CReport n c vti \/ cz = CDesire n c vti) g1 ops ->
    let g2 := run orc clock g1 ops in
    exists nd2, get_node g2 n = Some nd2 /\ sleeping nd2 = true /\ zhas c (n_children nd2) = true /\
      desired nd2 c vti = Some v /\
      get_desired_value nd2 c vti = Some v /\
      handle_smartsleep orc g2 nd2 = Ok (flushed g2 nd2) /\
      (has_reported nd2 c vti -> In (encode (set_msg_of (tab g) n c vti v)) (flush_strings (tab g2) nd2)).
Proof. exact desired_resent_until_reported. Qed.

(* ... a desired value for a value type the node never reported is NOT sent (the property says
   "has reported before") *)
Theorem C08_unreported_not_sent :
  forall t nd c vt,
    (forall k ch, In (k, ch) (n_children nd) -> c_id ch = c -> zhas vt (c_values ch) = false) ->
    forall m, In m (desired_msgs t (init_smart_sleep nd)) -> ~ (m_child m = c /\ m_sub m = vt).
Proof. exact unreported_not_in_flush. Qed.

(* ... and never after (b): once the entry is None it stays None, and no flush contains a set
   command for (c, vt), in every state reached without a new call for (n, c, vt) *)
Theorem C08_cleared_until_new_desire :
  forall orc clock g n c vt nd ops,
    cfg_ok (g_cf g) -> Inv orc g -> QInv g -> Forall op_ok ops ->
    get_node g n = Some nd -> desired nd c vt = None ->
    quiet orc clock (fun cz => cz = CDesire n c vt) g ops ->
    let g2 := run orc clock g ops in
    exists nd2, get_node g2 n = Some nd2 /\ desired nd2 c vt = None /\
      handle_smartsleep orc g2 nd2 = Ok (flushed g2 nd2) /\
      forall m, In m (desired_msgs (tab g2) (init_smart_sleep nd2)) -> ~ (m_child m = c /\ m_sub m = vt).
Proof. exact cleared_until_new_desire. Qed.

(* every set command of a flush IS a pending desired value *)
Theorem C08_flush_sets_are_desired :
  forall t nd m, In m (desired_msgs t (init_smart_sleep nd)) ->
    exists v, desired nd (m_child m) (m_sub m) = Some v /\ m = set_msg_of t (n_id nd) (m_child m) (m_sub m) v.
Proof. exact flush_sets_are_desired. Qed.

(* (d) value requests: Sensor.get_desired_value is total; the desired value while one is pending,
   else the reported value, else nothing *)
Theorem C08_get_desired_value_closed :
  forall nd c vt,
    get_desired_value nd c vt =
    match zassoc c (n_children nd) with
    | None => None
    | Some ch => match desired nd c vt with Some v => Some v | None => zassoc vt (c_values ch) end
    end.
Proof. exact get_desired_value_closed. Qed.

Theorem C08_handle_req_known :
  forall g m nd,
    get_node g (m_node m) = Some nd -> zhas (m_child m) (n_children nd) = true -> wire_ok (m_payload m) = true ->
    handle_req g m = Ok (g, option_map (req_reply (tab g) m) (get_desired_value nd (m_child m) (m_sub m))).
Proof. exact handle_req_known. Qed.

(* through the dispatcher, for a SLEEPING node: the reply is withheld (appended to the queue) *)
Theorem C08_req_logic_sleeping :
  forall orc clock g l m nd, cfg_ok (g_cf g) ->
    decode l = Some m -> gvalidate orc g m = true -> m_type m = 2 ->
    get_node g (m_node m) = Some nd -> zhas (m_child m) (n_children nd) = true -> sleeping nd = true ->
    logic orc clock g l =
    Ok (match get_desired_value nd (m_child m) (m_sub m) with
        | Some v => enqueue g nd (encode (req_reply (tab g) m v))
        | None => g
        end, None).
Proof. exact req_logic_sleeping. Qed.

(* ------------------------------------------------------------------ 3. accepted implies deliverable *)
(* after any accepted set_child_value and any later history, the flush of every node returns Ok
   (with the closed form above) and every line is processed without raising; nothing is assumed
   about the node's own protocol version n_pver (equal / older / never presented: it only enters
   through node_accepts, an additional refusal at call time) *)
Theorem C08_accepted_implies_deliverable :
  forall orc clock g sid cid vt v mt a g1 ops,
    cfg_ok (g_cf g) -> Inv orc g -> QInv g -> Forall op_ok ops ->
    set_child_value orc g sid cid vt v mt a = Ok g1 ->
    let g2 := run orc clock g1 ops in
    (forall k nd, get_node g2 k = Some nd -> handle_smartsleep orc g2 nd = Ok (flushed g2 nd)) /\
    (forall l, exists g3 r, logic orc clock g2 l = Ok (g3, r)).
Proof. exact accepted_implies_deliverable. Qed.

(* a value that is not valid for the gateway's version is refused at call time: Invalid, state
   unchanged (the step only records the exception) *)
Theorem C08_refused_at_call_time :
  forall orc clock g sid cid vt vti v mt a nd,
    get_node g sid = Some nd -> zhas cid (n_children nd) = true -> sleeping nd = true ->
    vt_int vt = Some vti -> gw_accepts orc g (n_id nd) cid vti v = false ->
    set_child_value orc g sid cid vt v mt a = Raise VolInvalid /\
    step orc clock g (SetChild sid cid vt v mt a) = emit g (ERaise VolInvalid).
Proof. exact refused_at_call_time. Qed.

(* ------------------------------------------------------------------ 4. late children *)
(* a child presented to a known node (sleeping or not) is appended; the desired state is untouched:
   a child presented after the first wake-up has no slot *)
Theorem C08_presentation_late_child :
  forall orc g m nd, m_child m <> system_child_id ->
    get_node g (m_node m) = Some nd -> zhas (m_child m) (n_children nd) = false ->
    handle_presentation orc g m =
    Ok (alert (put_node g (with_children nd (n_children nd ++ [(m_child m, mkChild (m_child m) (m_sub m) (m_payload m) [])]))) m,
        Some m).
Proof. exact presentation_late_child. Qed.

(* requests for it are answered from the reported values (no KeyError) *)
Theorem C08_late_child_req :
  forall nd c vt, zassoc c (n_new nd) = None -> get_desired_value nd c vt = reported nd c vt.
Proof. exact late_child_req. Qed.

(* the controller call for it is refused at call time (ValueError when the value itself is valid) *)
Theorem C08_late_child_set_refused :
  forall orc g sid cid vt v mt a nd,
    get_node g sid = Some nd -> zhas cid (n_children nd) = true -> sleeping nd = true ->
    zassoc cid (n_new nd) = None ->
    exists e, set_child_value orc g sid cid vt v mt a = Raise e /\
              (forall vti, vt_int vt = Some vti -> gw_accepts orc g (n_id nd) cid vti v = true -> e = ValueError).
Proof. exact late_child_set_refused. Qed.

(* at the next wake-up it gets its (empty) slot; existing slots keep place and content *)
Theorem C08_late_child_gets_slot :
  forall nd c, zhas c (n_children nd) = true -> zassoc c (n_new nd) = None ->
    zassoc c (n_new (woken nd)) = Some [] /\
    (forall c' dv, zassoc c' (n_new nd) = Some dv -> zassoc c' (n_new (woken nd)) = Some dv).
Proof. exact late_child_gets_slot. Qed.

(* ------------------------------------------------------------------ non-vacuity *)
(* configurations and histories: Proofs/SleepExamples.v (2.2 gateway; ex_h1: node 1 and child 1
   presented, value type 2 reported, first wake-up "1;255;3;0;32;500": node 1 sleeps) *)
(* the life cycle: nothing at the first wake-up; the call is silent; the set command appears at
   EVERY wake-up until the node reports the value type; none afterwards *)
Example C08_example_lifecycle :
  let run' := run ex_orc 0 (gw_init ex_cfA) in
  g_log (run' ex_h1) = [] /\ sleeping (ex_node (run' ex_h1) 1) = true /\
  g_log (run' (ex_h1 ++ [ex_set (VtInt 2) "1"])) = [] /\
  desired (ex_node (run' (ex_h1 ++ [ex_set (VtInt 2) "1"])) 1) 1 2 = Some (PS (s2p "1")) /\
  g_log (run' (ex_h1 ++ [ex_set (VtInt 2) "1"; ex_wake1])) = [ESend (ex_line "1;1;1;0;2;1")] /\
  g_log (run' (ex_h1 ++ [ex_set (VtInt 2) "1"; ex_wake1; ex_wake1])) =
    [ESend (ex_line "1;1;1;0;2;1"); ESend (ex_line "1;1;1;0;2;1")] /\
  g_log (run' (ex_h1 ++ [ex_set (VtInt 2) "1"; ex_wake1; ex_R "1;1;1;0;2;1"; ex_wake1])) =
    [ESend (ex_line "1;1;1;0;2;1")] /\
  desired (ex_node (run' (ex_h1 ++ [ex_set (VtInt 2) "1"; ex_wake1; ex_R "1;1;1;0;2;1"])) 1) 1 2 = None.
Proof. vm_compute. repeat split; reflexivity. Qed.

(* the value type given as the string "2" behaves the same *)
Example C08_example_vt_str :
  run ex_orc 0 (gw_init ex_cfA) (ex_h1 ++ [ex_set (VtStr (s2p "2")) "1"; ex_wake1]) =
  run ex_orc 0 (gw_init ex_cfA) (ex_h1 ++ [ex_set (VtInt 2) "1"; ex_wake1]).
Proof. vm_compute. reflexivity. Qed.

(* withheld replies leave oldest first, before the set commands; a request is answered with the
   pending desired value *)
Example C08_example_order :
  g_log (run ex_orc 0 (gw_init ex_cfA)
           (ex_h1 ++ [ex_R "1;1;2;0;2;"; ex_set (VtInt 2) "1"; ex_R "1;1;2;0;2;"; ex_wake1])) =
  [ESend (ex_line "1;1;1;0;2;0"); ESend (ex_line "1;1;1;0;2;1"); ESend (ex_line "1;1;1;0;2;1")].
Proof. vm_compute. reflexivity. Qed.

(* threaded flavour: the burst is queued in that order *)
Example C08_example_threaded :
  let g := run ex_orc 0 (gw_init ex_cfT)
             (ex_pumped (ex_h1 ++ [ex_R "1;1;2;0;2;"; ex_set (VtInt 2) "1"]) ++ [ex_wake1; Pump]) in
  g_jobs g = [JSend (ex_line "1;1;1;0;2;0"); JSend (ex_line "1;1;1;0;2;1")] /\ g_log g = [].
Proof. vm_compute. split; reflexivity. Qed.

(* a desired value for a value type the node never reported (3) is stored but not sent *)
Example C08_example_unreported :
  let g := run ex_orc 0 (gw_init ex_cfA) (ex_h1 ++ [ex_set (VtInt 3) "50"; ex_wake1]) in
  g_log g = [] /\ desired (ex_node g 1) 1 3 = Some (PS (s2p "50")).
Proof. vm_compute. split; reflexivity. Qed.

(* refused at call time (the D4 scenario): a node that presented protocol 1.4 on a 2.2 gateway,
   value type 22: "1" is valid for 1.4 (V_HEATER_SW) but not for 2.2 (V_HVAC_SPEED): Invalid at the
   call, nothing stored; "Auto" is valid for the gateway but not for the node: refused as well *)
Example C08_example_refused :
  let g := run ex_orc 0 (gw_init ex_cfA) [ex_R "1;255;0;0;17;1.4"; ex_R "1;1;0;0;3;"; ex_wake1] in
  sleeping (ex_node g 1) = true /\
  set_child_value ex_orc g 1 1 (VtInt 22) (PS (s2p "1")) None None = Raise VolInvalid /\
  set_child_value ex_orc g 1 1 (VtInt 22) (PS (s2p "Auto")) None None = Raise VolInvalid /\
  set_child_value ex_orc g 1 1 (VtStr (s2p "x")) (PS (s2p "1")) None None = Raise ValueError /\
  g_sensors (step ex_orc 0 g (SetChild 1 1 (VtInt 22) (PS (s2p "1")) None None)) = g_sensors g.
Proof. vm_compute. repeat split; reflexivity. Qed.

(* a late child: presented after the first wake-up; request answered from the reported value, the
   call refused with ValueError, a slot after the next wake-up, then the call is accepted *)
Example C08_example_late_child :
  let late := ex_h1 ++ [ex_R "1;2;0;0;3;"; ex_R "1;2;1;0;2;1"] in
  let g := run ex_orc 0 (gw_init ex_cfA) late in
  zassoc 2 (n_new (ex_node g 1)) = None /\
  ex_node (step ex_orc 0 g (ex_R "1;2;2;0;2;")) 1 =
    with_queue (ex_node g 1) [ex_line "1;2;1;0;2;1"] /\
  set_child_value ex_orc g 1 2 (VtInt 2) (PS (s2p "0")) None None = Raise ValueError /\
  (let g' := step ex_orc 0 g ex_wake1 in
   zassoc 2 (n_new (ex_node g' 1)) = Some [] /\
   is_ok (set_child_value ex_orc g' 1 2 (VtInt 2) (PS (s2p "0")) None None) = true).
Proof. vm_compute. repeat split; reflexivity. Qed.

(* observation (consistent with the property text, "has reported before"): a desired value for a
   value type the node has never reported is accepted, never sent, and the node's FIRST report of
   that type clears it - it is never delivered *)
Example C08_example_unreported_never_delivered :
  let g := run ex_orc 0 (gw_init ex_cfA)
               (ex_h1 ++ [ex_set (VtInt 3) "50"; ex_wake1; ex_R "1;1;1;0;3;10"; ex_wake1]) in
  g_log g = [] /\ desired (ex_node g 1) 1 3 = None /\ reported (ex_node g 1) 1 3 = Some (PS (s2p "10")).
Proof. vm_compute. repeat split; reflexivity. Qed.

(* the premises of C08_desired_resent_until_reported are satisfiable by a non-trivial history:
   after the accepted call, a wake-up, a value request and a report of ANOTHER value type (3) *)
Example C08_example_premises :
  let g := run ex_orc 0 (gw_init ex_cfA) ex_h1 in
  let ops := [ex_wake1; ex_R "1;1;2;0;2;"; ex_R "1;1;1;0;3;7"] in
  cfg_ok (g_cf g) /\ sleeping (ex_node g 1) = true /\ zhas 1 (n_children (ex_node g 1)) = true /\
  get_node g 1 = Some (ex_node g 1) /\
  exists g1, set_child_value ex_orc g 1 1 (VtInt 2) (PS (s2p "1")) None None = Ok g1 /\
             quiet ex_orc 0 (fun cz => cz = CReport 1 1 2 \/ cz = CDesire 1 1 2) g1 ops /\
             has_reported (ex_node (run ex_orc 0 g1 ops) 1) 1 2.
Proof.
  split; [exists V22; split; reflexivity|]. split; [vm_compute; reflexivity|]. split; [vm_compute; reflexivity|].
  split; [vm_compute; reflexivity|]. eexists. split; [vm_compute; reflexivity|]. split.
  - vm_compute. repeat split; intros [H|H]; discriminate H.
  - eexists. split; vm_compute; reflexivity.
Qed.


Print Assumptions C08_reachable_invariants.
Print Assumptions C08_flush_strings_def.
Print Assumptions C08_desired_msgs_def.
Print Assumptions C08_desired_msgs_membership.
Print Assumptions C08_flush_spec.
Print Assumptions C08_flush_calls.
Print Assumptions C08_flushed_fields.
Print Assumptions C08_woken_fields.
Print Assumptions C08_flush_children_rel.
Print Assumptions C08_flush_children_closed.
Print Assumptions C08_wake_logic.
Print Assumptions C08_wake_outputs.
Print Assumptions C08_set_child_value_sleeping.
Print Assumptions C08_store_desired_facts.
Print Assumptions C08_vt_key_normalised.
Print Assumptions C08_vt_key_str_int.
Print Assumptions C08_handle_set_known.
Print Assumptions C08_update_child_value_facts.
Print Assumptions C08_report_clears_desired.
Print Assumptions C08_cause_report.
Print Assumptions C08_cause_desire.
Print Assumptions C08_desired_resent_until_reported.
Print Assumptions C08_unreported_not_sent.
Print Assumptions C08_cleared_until_new_desire.
Print Assumptions C08_flush_sets_are_desired.
Print Assumptions C08_get_desired_value_closed.
Print Assumptions C08_handle_req_known.
Print Assumptions C08_req_logic_sleeping.
Print Assumptions C08_accepted_implies_deliverable.
Print Assumptions C08_refused_at_call_time.
Print Assumptions C08_presentation_late_child.
Print Assumptions C08_late_child_req.
Print Assumptions C08_late_child_set_refused.
Print Assumptions C08_late_child_gets_slot.
