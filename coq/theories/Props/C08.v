(* C08 - placeholder while the proofs are being written; replaced below. *)
From Coq Require Import List.
From PMS Require Import Model.Gateway.
Theorem C08_placeholder : True. Proof. exact I. Qed.
Print Assumptions C08_placeholder.
