(* C20 - connections are supervised and the callbacks are exact.  Statements only.
   Vocabulary: Spec/SupSpec.v; models: Model/Supervise.v (four event automata),
   Model/Watchdog.v (check_connection on arbitrary schedules). *)
From Coq Require Import List ZArith Bool.
From PMS Require Import Gen.SupConsts Model.Watchdog Model.Supervise Spec.SupSpec
  Proofs.SuperviseProofs Proofs.WatchdogProofs.
Import ListNotations.
Open Scope Z_scope.

(* every state reachable from start() by any event sequence satisfies the invariant *)
Theorem C20_reachable_inv : forall fl p es, Inv fl (final fl p init es).
Proof. exact reachable_inv. Qed.

(* one step: on_conn_made fires exactly when a link comes up, on_conn_lost exactly when one
   goes down, with the exc argument of SupSpec.loss_exc (None for disconnect()/stop());
   no other callback *)
Theorem C20_callbacks_step : forall fl p s e, 0 <= p_rt p -> Inv fl s ->
  cbs (snd (step fl p s e)) = cb_expected (conn s) (conn (fst (step fl p s e))) (loss_exc fl e).
Proof. exact callbacks_step. Qed.

(* made_once / lost_once over every event sequence, all four flavours *)
Theorem C20_made_once : forall fl p es, 0 <= p_rt p ->
  length (filter is_made (outputs fl p init es)) = links_made fl p init es.
Proof. exact made_once_init. Qed.

Theorem C20_lost_once : forall fl p es, 0 <= p_rt p ->
  length (filter is_lost (outputs fl p init es)) = links_lost fl p init es.
Proof. exact lost_once_init. Qed.

Theorem C20_callbacks_alternate : forall fl p es, 0 <= p_rt p ->
  alternate false (cbs (outputs fl p init es)) = true.
Proof. exact callbacks_alternate_init. Qed.

Theorem C20_lost_exc : forall fl p s e x, 0 <= p_rt p -> Inv fl s ->
  In (LostCb x) (snd (step fl p s e)) -> x = loss_exc fl e.
Proof. exact lost_exc. Qed.

(* reconnect_follows_loss.  Full statement: every loss that is not caused by
   disconnect()/stop() leaves a dial pending, attempted at that very instant.
   It holds for the threaded flavours ... *)
Theorem C20_reconnect_follows_loss_sync : forall fl p s e, is_async fl = false -> Inv fl s ->
  conn s = true -> conn (fst (step fl p s e)) = false -> user_event e = false ->
  ct (fst (step fl p s e)) = CDialing /\ In (Attempt (now (fst (step fl p s e)))) (snd (step fl p s e)).
Proof. exact reconnect_follows_loss_sync. Qed.

(* ... and for asyncio except for an orderly close by the peer *)
Theorem C20_reconnect_follows_loss_async_partial : forall fl p s e, Inv fl s ->
  conn s = true -> conn (fst (step fl p s e)) = false -> user_event e = false ->
  (is_async fl = true -> e <> PeerClose) ->
  ct (fst (step fl p s e)) = CDialing /\ In (Attempt (now (fst (step fl p s e)))) (snd (step fl p s e)).
Proof. exact reconnect_follows_loss. Qed.

(* D13: asyncio flavours, connect then orderly close by the peer: on_conn_lost(None) is the
   only output, and whatever happens afterwards nothing is ever output again - no
   attempt, no callback (for TCP the watchdog timer is cancelled too) *)
Theorem C20_reconnect_follows_loss_async_refuted : forall fl p es, is_async fl = true -> 0 <= p_rt p ->
  let s1 := fst (step fl p init AttemptOk) in
  conn s1 = true /\ conn (fst (step fl p s1 PeerClose)) = false /\
  snd (step fl p s1 PeerClose) = [LostCb false] /\
  outputs fl p (fst (step fl p s1 PeerClose)) es = [].
Proof. exact peer_close_dead. Qed.

(* retry: a failed dial sleeps reconnect_timeout ... *)
Theorem C20_retry_after_fail : forall fl p s, ct s = CDialing ->
  step fl p s AttemptFail = (set_ct s (CSleeping (now s + p_rt p)), [Sleep (p_rt p)]).
Proof. exact retry_after_fail. Qed.

(* ... and, unless the user intervenes, the next attempt is made exactly when the sleep
   ends (and not before), whatever else happens meanwhile *)
Theorem C20_retry_timing : forall fl p u es s, Inv fl s -> ct s = CSleeping u -> now s < u ->
  guard_ok fl s -> no_user es = true ->
  if u <=? now s + total_ticks es
  then first_attempt (outputs fl p s es) = Some u
  else outputs fl p s es = [] /\ ct (final fl p s es) = CSleeping u
       /\ now (final fl p s es) = now s + total_ticks es.
Proof. exact retry_timing. Qed.

(* quiet_after_stop.  Threaded flavours: after stop() nothing but the dial loop's last
   sleep: no callback, attempt, write, close *)
Theorem C20_quiet_after_stop_sync : forall fl p s es, is_async fl = false -> Inv fl s ->
  quiet (outputs fl p (fst (step fl p s Stop)) es) = true.
Proof. exact quiet_after_stop_sync. Qed.

(* asyncio flavours, the same statement at the same strength: any state satisfying the
   invariant - in particular stop() while `await gateway.start()` is still in its first
   connect loop, which is not transport.connect_task and cannot be cancelled by stop():
   since the D21 repair that loop tests transport.protocol like the threaded ones, so the
   dial in flight may fail and sleep once more, and then the loop ends *)
Theorem C20_quiet_after_stop_async : forall fl p s es, is_async fl = true -> Inv fl s ->
  quiet (outputs fl p (fst (step fl p s Stop)) es) = true.
Proof. exact quiet_after_stop_async_full. Qed.

(* all four flavours, exact form: whatever follows stop(), the outputs are nothing at all or
   the single sleep of the dial that was in flight when stop() was called *)
Theorem C20_after_stop_at_most_one_sleep : forall fl p s es, Inv fl s ->
  outputs fl p (fst (step fl p s Stop)) es = [] \/
  outputs fl p (fst (step fl p s Stop)) es = [Sleep (p_rt p)].
Proof. exact after_stop_at_most_one_sleep. Qed.

(* asyncio, once a first link has been established (any later dial loop is
   transport.connect_task, which stop() cancels): not even that sleep *)
Theorem C20_no_output_after_stop_async_connected : forall fl p es0 es1 es2, is_async fl = true ->
  conn (final fl p init es0) = true ->
  outputs fl p (fst (step fl p (final fl p init (es0 ++ es1)) Stop)) es2 = [].
Proof. exact quiet_after_stop_async_connected. Qed.

(* HISTORY (finding D21, repaired in the repo).  With the header the asyncio connect loops
   had before the repair (`while True:`, step_unfixed = the same transcription with the
   loop-test flags false) stop() during the first connect loop did not end it: the pending
   dial fails, and reconnect_timeout later the loop dials again.  On the current code the
   same history gives the one sleep and an ended loop. *)
Theorem C20_quiet_after_stop_async_unfixed_refuted : forall fl p, is_async fl = true -> 0 < p_rt p ->
  outputs_unfixed fl p (fst (step_unfixed fl p init Stop)) [AttemptFail; Tick (p_rt p)]
  = [Sleep (p_rt p); Attempt (p_rt p)].
Proof. exact stop_initial_dial_unfixed_refuted. Qed.

Theorem C20_stop_ends_first_connect_loop : forall fl p, is_async fl = true -> 0 < p_rt p ->
  outputs fl p (fst (step fl p init Stop)) [AttemptFail; Tick (p_rt p)] = [Sleep (p_rt p)]
  /\ ct (final fl p (fst (step fl p init Stop)) [AttemptFail; Tick (p_rt p)]) = CIdle.
Proof. exact stop_initial_dial_ends. Qed.

(* the watchdog inside the automata is Watchdog.wd_check; a drop closes, reports and
   re-dials at the same instant *)
Theorem C20_watchdog_sync_tick : forall p s dt, Inv SyncTcp s -> conn s = true -> 0 < dt ->
  let t := now s + dt in
  match wd_check (p_rt p) (check s) (disc s) t with
  | WdDrop => conn (fst (step SyncTcp p s (Tick dt))) = false
              /\ ct (fst (step SyncTcp p s (Tick dt))) = CDialing
              /\ snd (step SyncTcp p s (Tick dt)) = [Close; LostCb true; Attempt t]
  | WdProbe => conn (fst (step SyncTcp p s (Tick dt))) = true
              /\ snd (step SyncTcp p s (Tick dt)) = [Write]
  | WdIdle => conn (fst (step SyncTcp p s (Tick dt))) = true
              /\ snd (step SyncTcp p s (Tick dt)) = []
  end.
Proof. exact stcp_tick. Qed.

Theorem C20_watchdog_async_timer : forall p s w dt, Inv AsyncTcp s -> timer s = Some w -> 0 < dt ->
  now s <= w -> w <= now s + dt ->
  match wd_check (p_rt p) (check s) (disc s) w with
  | WdDrop => conn (fst (step AsyncTcp p s (Tick dt))) = false
              /\ ct (fst (step AsyncTcp p s (Tick dt))) = CDialing
              /\ snd (step AsyncTcp p s (Tick dt)) = [Close; LostCb false; Attempt w]
  | WdProbe => conn (fst (step AsyncTcp p s (Tick dt))) = true
              /\ snd (step AsyncTcp p s (Tick dt)) = [Write]
              /\ timer (fst (step AsyncTcp p s (Tick dt))) = Some (w + p_rt p + p_slack p)
  | WdIdle => conn (fst (step AsyncTcp p s (Tick dt))) = true
              /\ snd (step AsyncTcp p s (Tick dt)) = []
              /\ timer (fst (step AsyncTcp p s (Tick dt))) = Some (w + p_rt p + p_slack p)
  end.
Proof. exact atcp_timer. Qed.

(* watchdog_timely_safe: polls at most delta apart, every probe's answer processed within
   reconnect_timeout - delta of the probe: never dropped (any schedule, any length) *)
Theorem C20_watchdog_timely_safe : forall rt delta c es, 0 <= delta <= rt ->
  timely rt (rt - delta) delta (wd_init c) c c es = true -> dropped rt c es = false.
Proof. exact timely_safe. Qed.

(* D14: without the margin the statement is false: polls 20 apart, rt = 100, first answer at
   once, second answer exactly rt after its probe: dropped at the poll of that instant *)
Theorem C20_watchdog_boundary_refuted : exists rt delta c es,
  0 < delta <= rt /\ timely rt rt delta (wd_init c) c c es = true /\ dropped rt c es = true.
Proof. exact boundary_refuted. Qed.

(* watchdog_silent_dropped: last answer at T = w_disc w, then only polls, at most delta
   apart: the first drop falls in (T + 2 rt, T + 2 rt + delta], and there is none while the
   polls stay within T + 2 rt *)
Theorem C20_watchdog_silent_dropped : forall rt delta ps w last, dense delta last ps = true ->
  last <= w_disc w + 2 * rt ->
  match first_drop rt w ps with
  | Some t => w_disc w + 2 * rt < t <= w_disc w + 2 * rt + delta
  | None => forallb (fun t => t <=? w_disc w + 2 * rt) ps = true
  end.
Proof. exact silent_dropped. Qed.

(* the asyncio chain call_later(rt + slack), 0 < slack < rt: answers that arrive before the
   next firing (in particular within rt) are always in time - no margin needed *)
Theorem C20_watchdog_async_timely_safe : forall rt slack c es, 0 < slack < rt ->
  periodic (rt + slack) c c es = true -> answered_each rt (wd_init c) false es = true ->
  dropped rt c es = false.
Proof. exact async_timely_safe. Qed.

(* its polls are rt + slack apart, so silence is detected in (T + 2 rt, T + 3 rt + slack] *)
Theorem C20_watchdog_async_silent_dropped : forall rt slack k w last, 0 <= rt + slack ->
  last <= w_disc w + 2 * rt ->
  match first_drop rt w (chain (rt + slack) last k) with
  | Some t => w_disc w + 2 * rt < t <= w_disc w + 2 * rt + (rt + slack)
  | None => forallb (fun t => t <=? w_disc w + 2 * rt) (chain (rt + slack) last k) = true
  end.
Proof. exact async_silent_dropped. Qed.

(* --- non-vacuity *)
(* a run with two links, a read error, a failed dial, a retry and a deliberate disconnect *)
Example C20_example_run :
  outputs AsyncTcp p0 init [AttemptOk; ReadError; AttemptFail; Tick 512; AttemptOk; UserDisconnect]
  = [MadeCb; LostCb true; Attempt 0; Sleep 512; Attempt 512; MadeCb; Close; LostCb false].
Proof. vm_compute. reflexivity. Qed.

Example C20_example_links :
  links_made SyncTcp p0 init [AttemptOk; PeerReset; AttemptOk; Tick 2000] = 2%nat
  /\ links_lost SyncTcp p0 init [AttemptOk; PeerReset; AttemptOk; Tick 2000] = 2%nat.
Proof. vm_compute. split; reflexivity. Qed.

(* premises of reconnect_follows_loss / retry_timing / quiet_after_stop are reachable *)
Example C20_example_loss :
  let s := final SyncSerial p0 init [AttemptOk] in
  conn s = true /\ conn (fst (step SyncSerial p0 s WriteError)) = false
  /\ snd (step SyncSerial p0 s WriteError) = [LostCb false; Close; Attempt 0].
Proof. vm_compute. repeat split; reflexivity. Qed.

Example C20_example_sleeping :
  let s := final AsyncSerial p0 init [AttemptFail] in
  ct s = CSleeping 512 /\ now s < 512 /\ guard_ok AsyncSerial s
  /\ no_user [Send; Tick 300; ReadError; Tick 300] = true
  /\ first_attempt (outputs AsyncSerial p0 s [Send; Tick 300; ReadError; Tick 300]) = Some 512.
Proof. vm_compute. repeat split; reflexivity. Qed.

Example C20_example_stop :
  conn (final AsyncTcp p0 init [AttemptOk]) = true
  /\ snd (step AsyncTcp p0 (final AsyncTcp p0 init ([AttemptOk] ++ [ReadError; AttemptFail])) Stop) = [].
Proof. vm_compute. split; reflexivity. Qed.

(* stop() during the first connect loop (init satisfies the invariant; the loop is not
   cancellable): the dial in flight fails, sleeps, and nothing follows - also when the
   clock runs on and further events arrive; a dial that succeeds instead dies silently *)
Example C20_example_stop_first_loop :
  ct init = CDialing /\ cancellable init = false
  /\ outputs AsyncSerial p0 (fst (step AsyncSerial p0 init Stop)) [AttemptFail; Tick 512; Tick 512; AttemptOk; Send; Tick 2000]
     = [Sleep 512]
  /\ outputs AsyncTcp p0 (fst (step AsyncTcp p0 init Stop)) [Tick 300; AttemptOk; Tick 2000; Send] = []
  /\ outputs SyncTcp p0 (fst (step SyncTcp p0 init Stop)) [AttemptFail; Tick 512; Tick 512] = [Sleep 512].
Proof. vm_compute. repeat split; reflexivity. Qed.

(* ... and a user disconnect() while a reconnect loop (connect_task) sleeps ends that loop too *)
Example C20_example_disconnect_ends_loop :
  outputs AsyncTcp p0 init [AttemptOk; ReadError; AttemptFail; UserDisconnect; Tick 512; Tick 512]
  = [MadeCb; LostCb true; Attempt 0; Sleep 512].
Proof. vm_compute. reflexivity. Qed.

(* a timely schedule with two probes, the second answered exactly rt - delta late *)
Example C20_example_timely :
  let es := map WPoll [20; 40; 60; 80; 100; 120] ++ [WAnswer 120]
            ++ map WPoll [140; 160; 180; 200; 220; 240; 260; 280; 300; 320] ++ [WAnswer 320; WPoll 340] in
  timely 100 (100 - 20) 20 (wd_init 0) 0 0 es = true
  /\ length (filter (fun o => match o with WdProbe => true | _ => false end) (wd_run 100 (wd_init 0) es)) = 2%nat.
Proof. vm_compute. split; reflexivity. Qed.

(* silence from the connect on, threaded polls 21 ticks apart, rt = 512 *)
Example C20_example_silent :
  first_drop 512 (wd_init 0) (chain 21 0 60) = Some 1029.
Proof. vm_compute. reflexivity. Qed.

(* the asyncio chain with every probe answered exactly rt later *)
Example C20_example_async_chain :
  let es := [WPoll 615; WAnswer 1127; WPoll 1230; WAnswer 1742; WPoll 1845; WAnswer 2357] in
  periodic (512 + 103) 0 0 es = true /\ answered_each 512 (wd_init 0) false es = true
  /\ wd_run 512 (wd_init 0) es = [WdProbe; WdIdle; WdProbe; WdIdle; WdProbe; WdIdle].
Proof. vm_compute. repeat split; reflexivity. Qed.

Print Assumptions C20_reachable_inv.
Print Assumptions C20_callbacks_step.
Print Assumptions C20_made_once.
Print Assumptions C20_lost_once.
Print Assumptions C20_callbacks_alternate.
Print Assumptions C20_lost_exc.
Print Assumptions C20_reconnect_follows_loss_sync.
Print Assumptions C20_reconnect_follows_loss_async_partial.
Print Assumptions C20_reconnect_follows_loss_async_refuted.
Print Assumptions C20_retry_after_fail.
Print Assumptions C20_retry_timing.
Print Assumptions C20_quiet_after_stop_sync.
Print Assumptions C20_quiet_after_stop_async.
Print Assumptions C20_after_stop_at_most_one_sleep.
Print Assumptions C20_no_output_after_stop_async_connected.
Print Assumptions C20_quiet_after_stop_async_unfixed_refuted.
Print Assumptions C20_stop_ends_first_connect_loop.
Print Assumptions C20_watchdog_sync_tick.
Print Assumptions C20_watchdog_async_timer.
Print Assumptions C20_watchdog_timely_safe.
Print Assumptions C20_watchdog_boundary_refuted.
Print Assumptions C20_watchdog_silent_dropped.
Print Assumptions C20_watchdog_async_timely_safe.
Print Assumptions C20_watchdog_async_silent_dropped.
