(* C04 - network state mirrors what the nodes reported; callbacks are exact.  Statements only.
   Spec: Spec/TreeMeaning.v (kind_of, meaning, alerting, meaning_line, alerted_line: hand-written,
   trees only).  Machine: Model/Gateway.v over the GENERATED tables and handler registry.
   Oracles (awesomeversion, float(), clock) universally quantified.
   cfg_is v cf: cf is the configuration of protocol version v (five of them).
   Inv: the global invariant of C01 (holds in every reachable state: C01_reachable_invariant). *)
From Coq Require Import List NArith ZArith Bool String.
From PMS Require Import Base.PyStr Base.PyInt Base.Exn Model.Codec Model.TableTypes Gen.Tables Model.Validate
  Model.Oracles Model.Hex Model.Ota Model.Gateway Spec.SerialApi Proofs.ValidateProofs Proofs.GwInv
  Spec.TreeMeaning Proofs.TreeProofs Proofs.TreeHistory Proofs.DirtyProofs Proofs.IdProofs
  Proofs.TreeCorollaries Base.Version Proofs.VersionCore.
Import ListNotations.
Open Scope Z_scope.

(* which handler the generated registry resolves, per version, for every valid sub-type of
   internal (3) and stream (4) messages, against the hand-written classification *)
Theorem C04_registry_resolution :
  forall v s,
    (between 0 (max_sub v 3) s = true -> okind (sub_handler (tab_of v) 3 s) = internal_kind v s) /\
    (between 0 (max_sub v 4) s = true -> stream_ok (sub_handler (tab_of v) 4 s) s = true) /\
    vt_max_node (tab_of v) = 254.
Proof.
  intros v s. split; [apply registry_internal|]. split; [apply registry_stream|apply registry_max_node].
Qed.

(* C04.2: one dispatcher call, all five configurations, all oracles, every state with the
   invariant, every line: the WHOLE tree afterwards is the meaning of the line *)
Theorem C04_logic_tree_meaning :
  forall orc clock v g l g' r, cfg_is v (g_cf g) -> Inv orc g ->
    logic orc clock g l = Ok (g', r) ->
    proj (g_sensors g') =
    meaning_line (safe_version orc) (gvalidate orc g) v (proj (g_sensors g)) l.
Proof. exact logic_tree_meaning. Qed.

(* histories, asyncio flavour *)
Theorem C04_tree_async :
  forall orc clock v cf ls, cfg_is v cf -> cf_async cf = true ->
    proj (g_sensors (run orc clock (gw_init cf) (map Recv ls))) = fold_left (mlv orc v) ls [].
Proof. exact tree_async. Qed.

Theorem C04_tree_async_ops :
  forall orc clock v cf ops, cfg_is v cf -> Forall op_ok ops -> cf_async cf = true ->
    proj (g_sensors (run orc clock (gw_init cf) ops)) = fold_left (mlv orc v) (recv_lines ops) [].
Proof. exact tree_async_ops. Qed.

(* histories, both flavours, ANY placement of pump iterations and controller calls: processing
   the still-queued lines (FIFO) from the current tree gives the meaning of all received lines *)
Theorem C04_tree_is_fold_of_meaning :
  forall orc clock v cf ops, cfg_is v cf -> Forall op_ok ops ->
    let g := run orc clock (gw_init cf) ops in
    fold_left (mlv orc v) (pending g) (proj (g_sensors g)) = fold_left (mlv orc v) (recv_lines ops) [].
Proof. exact tree_is_fold_of_meaning. Qed.

Theorem C04_tree_threaded_drained :
  forall orc clock v cf ops, cfg_is v cf -> Forall op_ok ops ->
    pending (run orc clock (gw_init cf) ops) = [] ->
    proj (g_sensors (run orc clock (gw_init cf) ops)) = fold_left (mlv orc v) (recv_lines ops) [].
Proof. exact tree_threaded_drained. Qed.

(* frame: controller calls and queued send jobs do not touch the tree (nor the dirty flag) *)
Theorem C04_controller_ops_frame :
  forall orc clock g o, Inv orc g ->
    match o with Recv _ | Pump => False | _ => True end ->
    proj (g_sensors (step orc clock g o)) = proj (g_sensors g) /\
    g_dirty (step orc clock g o) = g_dirty g.
Proof. exact controller_ops_frame. Qed.

Theorem C04_send_job_frame :
  forall orc clock g l rest, g_jobs g = JSend l :: rest ->
    proj (g_sensors (pump orc clock g)) = proj (g_sensors g) /\ g_dirty (pump orc clock g) = g_dirty g.
Proof. exact send_job_frame. Qed.

(* corollaries of the meaning function *)
Theorem C04_child_frame :
  forall sv k t m n c,
    child_of (meaning sv k t m) n c =
    if is_child_pres k && (n =? m_node m) && (c =? m_child m) && known t n && negb (known_child t n c)
    then Some (mkPChild (m_child m) (m_sub m) (m_payload m) [])
    else if is_set k && (n =? m_node m) && (c =? m_child m)
    then option_map (fun ch => mkPChild (pc_id ch) (pc_type ch) (pc_desc ch)
                                        (zset (m_sub m) (PS (m_payload m)) (pc_values ch)))
                    (child_of t n c)
    else child_of t n c.
Proof. exact child_frame. Qed.

Theorem C04_value_is_last_reported :
  forall sv k t m n c s,
    value_of (meaning sv k t m) n c s =
    if is_set k && (n =? m_node m) && (c =? m_child m) && (s =? m_sub m) && known_child t n c
    then Some (PS (m_payload m)) else value_of t n c s.
Proof. exact value_frame. Qed.

Theorem C04_first_presentation_wins :
  forall orc v ls t n c ch, child_of t n c = Some ch ->
    exists ch', child_of (fold_left (mlv orc v) ls t) n c = Some ch' /\
                pc_id ch' = pc_id ch /\ pc_type ch' = pc_type ch /\ pc_desc ch' = pc_desc ch.
Proof. exact fold_first_presentation. Qed.

Theorem C04_second_presentation_ignored :
  forall sv t m, known_child t (m_node m) (m_child m) = true -> meaning sv KChildPres t m = t.
Proof. exact second_presentation_ignored. Qed.

Theorem C04_unknown_target_ignored :
  forall sv t m,
    (known t (m_node m) = false -> meaning sv KChildPres t m = t) /\
    (known_child t (m_node m) (m_child m) = false -> meaning sv KSet t m = t).
Proof. exact unknown_target_ignored. Qed.

Theorem C04_nodes_only_by_presentation_or_id :
  forall orc clock v g l g' r k, cfg_is v (g_cf g) -> Inv orc g ->
    logic orc clock g l = Ok (g', r) ->
    zhas k (g_sensors g') = true -> zhas k (g_sensors g) = false ->
    exists m, decode l = Some m /\ gvalidate orc g m = true /\
              ((m_type m = 0 /\ m_child m = 255 /\ k = m_node m) \/
               (m_type m = 3 /\ m_sub m = 3 /\ k = tnext (proj (g_sensors g)) /\ k <= 254)).
Proof. exact nodes_only_by_presentation_or_id. Qed.

(* C04.3: the callback events appended by one dispatcher call: none, or exactly one, carrying the
   decoded inbound message and the tree AFTER the update; one iff the line is accepted and
   `alerting` (and a callback is configured) *)
Theorem C04_callback_exact :
  forall orc clock v g l g' r, cfg_is v (g_cf g) -> Inv orc g ->
    logic orc clock g l = Ok (g', r) ->
    exists ext, g_log g' = g_log g ++ ext /\
      cbs ext = match alerted_line (gvalidate orc g) v (proj (g_sensors g)) l with
                | Some m => if cf_callback (g_cf g) then [ECallback m (proj (g_sensors g'))] else []
                | None => []
                end.
Proof. exact callback_exact. Qed.

Theorem C04_alerted_line_spec :
  forall acc v t l m, alerted_line acc v t l = Some m <->
    decode l = Some m /\ acc m = true /\ alerting v t m = true.
Proof. exact alerted_line_spec. Qed.

Theorem C04_callback_never_twice :
  forall orc clock v g l g' r, cfg_is v (g_cf g) -> Inv orc g ->
    logic orc clock g l = Ok (g', r) ->
    exists ext, g_log g' = g_log g ++ ext /\ (List.length (cbs ext) <= 1)%nat /\
                (cf_callback (g_cf g) = false -> cbs ext = []).
Proof. exact callback_never_twice. Qed.

(* exactly once for every accepted STATE-CHANGING message *)
Theorem C04_changed_alerts :
  forall orc clock v g l g' r, cfg_is v (g_cf g) -> Inv orc g ->
    logic orc clock g l = Ok (g', r) -> proj (g_sensors g') <> proj (g_sensors g) ->
    exists m ext, decode l = Some m /\ gvalidate orc g m = true /\
                  alerting v (proj (g_sensors g)) m = true /\
                  g_log g' = g_log g ++ ext /\
                  cbs ext = (if cf_callback (g_cf g) then [ECallback m (proj (g_sensors g'))] else []).
Proof. exact changed_alerts. Qed.

Theorem C04_changed_implies_alerting :
  forall sv k t m, meaning sv k t m <> t -> alerting_k k t m = true.
Proof. exact changed_implies_alerting. Qed.

(* ... the converse is false (honest reading): gateway-ready, stream requests of known nodes and
   a repeated identical value alert although the tree does not change *)
Theorem C04_alerting_without_change :
  forall sv t m,
    meaning sv KGatewayReady t m = t /\ alerting_k KGatewayReady t m = true /\
    meaning sv KStreamReq t m = t /\ alerting_k KStreamReq t m = known t (m_node m) /\
    (known_child t (m_node m) (m_child m) = true ->
     value_of t (m_node m) (m_child m) (m_sub m) = Some (PS (m_payload m)) ->
     meaning sv KSet t m = t /\ alerting_k KSet t m = true).
Proof. exact alerting_without_change. Qed.

(* the callback log of a whole history (both flavours, once no line is queued): one event per
   alerting accepted line, in order, each with the tree after that line *)
Theorem C04_callbacks_history :
  forall orc clock v cf ops, cfg_is v cf -> Forall op_ok ops ->
    pending (run orc clock (gw_init cf) ops) = [] ->
    cbs (g_log (run orc clock (gw_init cf) ops)) =
    snd (fold_left (astep orc v (cf_callback cf)) (recv_lines ops) ([], [])).
Proof. exact callbacks_drained. Qed.

(* a raising callback: Gateway.alert is the only place the callback is invoked (C04_callback_exact
   accounts for every callback event), it catches everything, and its model is this total
   function: there is no outcome of the callback on which anything could depend *)
Theorem C04_callback_raise_irrelevant :
  forall g m,
    g_cf (alert g m) = g_cf g /\ g_sensors (alert g m) = g_sensors g /\ g_ota (alert g m) = g_ota g /\
    g_metric (alert g m) = g_metric g /\ g_jobs (alert g m) = g_jobs g /\
    g_dirty (alert g m) = (cf_persist (g_cf g) || g_dirty g) /\
    g_log (alert g m) = g_log g ++ (if cf_callback (g_cf g) then [ECallback m (proj (g_sensors g))] else []).
Proof. exact callback_raise_irrelevant. Qed.

(* C04.4 *)
Theorem C04_setters_fallback :
  forall orc p,
    (battery_of p = match parse p with
                    | Some z => if (0 <=? z) && (z <=? 100) then z else 0
                    | None => 0
                    end) /\
    0 <= battery_of p <= 100 /\
    (heartbeat_of p = match parse p with Some z => z | None => 0 end) /\
    (safe_version orc p = if orc_version orc p then p else s2p "1.4") /\
    (forall z, 0 <= z <= 100 -> battery_of (print z) = z) /\
    (forall z, heartbeat_of (print z) = z).
Proof. exact setters_fallback. Qed.

(* C04.4, numeric versions.  On a dotted numeric payload  [0-9]+(\.[0-9]+)*  the version held
   for a node does not depend on the oracle tables: it is the payload itself when that is
   numerically >= 1.4 (num_ge: section values compared left to right, a missing section
   counting as 0), else the safe fallback "1.4"; and a node holding a dotted numeric version is
   served with the table of the greatest supported version not numerically above it. *)
Theorem C04_version_held_numeric :
  forall orc,
    (forall p, dotted_numeric p = true ->
       safe_version orc p = if num_ge (sections p) [1%N; 4%N] then p else s2p "1.4") /\
    (forall nd, dotted_numeric (n_pver nd) = true ->
       node_tab orc nd = tab_of (floor_ver (sections (n_pver nd)))).
Proof. exact (fun orc => conj (safe_version_numeric orc) (node_tab_numeric orc)). Qed.

(* floor_ver l is the greatest of 1.4, 1.5, 2.0, 2.1, 2.2 that l is numerically at least;
   1.4 when l is below all of them *)
Theorem C04_floor_ver_is_floor :
  forall l,
    (num_ge l [1%N; 4%N] = true ->
       num_ge l (ver_sections (floor_ver l)) = true /\
       forall v, num_ge l (ver_sections v) = true -> (ver_index v <= ver_index (floor_ver l))%nat) /\
    (num_ge l [1%N; 4%N] = false -> floor_ver l = V14).
Proof. exact floor_ver_spec. Qed.

Example C04_version_held_examples :
  map (fun p => safe_version no_oracles (s2p p)) ["1.4.0"; "2.1.3"; "02.2"; "1.3.9"; "1"; "3"]%string
  = map s2p ["1.4.0"; "2.1.3"; "02.2"; "1.4"; "1.4"; "3"]%string /\
  map (fun p => floor_ver (sections (s2p p))) ["1.4.0"; "1.9"; "2"; "2.1.3"; "02.2"; "2.10"; "1.3.9"; "3"]%string
  = [V14; V15; V20; V21; V22; V22; V14; V22].
Proof. vm_compute. split; reflexivity. Qed.

(* non-vacuity *)
Example C04_cfg_exists : cfg_is V22 (mkConfig tab_22 true true true true) /\
                         cfg_is V14 (mkConfig tab_14 false false true false).
Proof. repeat split. Qed.

(* a history: node, child, value, second presentation (ignored), newer value, battery, a value
   for an unknown node (ignored), gateway ready (alerts, no change) *)
Definition C04_h : list pstr :=
  [s2p "1;255;0;0;3;x"; s2p "1;4;0;0;6;temp"; s2p "1;4;1;0;0;21.5"; s2p "1;4;0;0;7;hum";
   s2p "1;4;1;0;0;22"; s2p "1;255;3;0;0;77"; s2p "2;4;1;0;0;5"; s2p "0;255;3;0;14;ready"].

Example C04_history_tree :
  let cf := mkConfig tab_22 true true true true in
  let g := run no_oracles 0 (gw_init cf) (map Recv C04_h) in
  proj (g_sensors g) =
    [(1, mkPNode 1 [(4, mkPChild 4 6 (s2p "temp") [(0, PS (s2p "22"))])] (Some 3) None None 77 (s2p "1.4") 0)] /\
  List.length (cbs (g_log g)) = 6%nat /\
  fold_left (mlv no_oracles V22) C04_h [] = proj (g_sensors g).
Proof. vm_compute. repeat split. Qed.

(* threaded flavour, lines queued and pumped later, with a controller call in between *)
Example C04_history_threaded :
  let cf := mkConfig tab_20 true false true false in
  let ops := [Recv (s2p "1;255;0;0;3;x"); Recv (s2p "1;4;0;0;6;temp"); Pump; SetMetric false;
              Recv (s2p "1;4;1;0;0;21.5"); Pump; Pump] in
  let g := run no_oracles 0 (gw_init cf) ops in
  pending g = [] /\
  proj (g_sensors g) =
    [(1, mkPNode 1 [(4, mkPChild 4 6 (s2p "temp") [(0, PS (s2p "21.5"))])] (Some 3) None None 0 (s2p "1.4") 0)].
Proof. vm_compute. split; reflexivity. Qed.

Print Assumptions C04_registry_resolution.
Print Assumptions C04_logic_tree_meaning.
Print Assumptions C04_tree_async.
Print Assumptions C04_tree_async_ops.
Print Assumptions C04_tree_is_fold_of_meaning.
Print Assumptions C04_tree_threaded_drained.
Print Assumptions C04_controller_ops_frame.
Print Assumptions C04_send_job_frame.
Print Assumptions C04_child_frame.
Print Assumptions C04_value_is_last_reported.
Print Assumptions C04_first_presentation_wins.
Print Assumptions C04_second_presentation_ignored.
Print Assumptions C04_unknown_target_ignored.
Print Assumptions C04_nodes_only_by_presentation_or_id.
Print Assumptions C04_callback_exact.
Print Assumptions C04_alerted_line_spec.
Print Assumptions C04_callback_never_twice.
Print Assumptions C04_changed_alerts.
Print Assumptions C04_changed_implies_alerting.
Print Assumptions C04_alerting_without_change.
Print Assumptions C04_callbacks_history.
Print Assumptions C04_callback_raise_irrelevant.
Print Assumptions C04_setters_fallback.
Print Assumptions C04_version_held_numeric.
Print Assumptions C04_floor_ver_is_floor.
