(* C15 - periodic saving heals itself.  Statements only.

   The machine is Model/SaveSched.v run with [gen_cfg], the shape of
   save_sensors / schedule_save / save_on_schedule / stop read from the working
   tree on every run (Gen/SchedAst.v).  All theorems quantify over both gateway
   flavours [fl], over every dict-iteration policy that is exact on an unchanged
   dict (json and pickle are instances, C15_policies), over every initial tree and
   file, and over every finite sequence of events: timer fires (with or without
   write permission), sub-steps with or without an I/O fault, inbound messages at
   any point, stop.  [reachable c fl pol s] := s = run c fl pol (init t0 f0) evs. *)
From Coq Require Import List ZArith Bool Arith.
From PMS Require Import Model.SaveSched Gen.SchedAst Proofs.SaveSchedProofs Proofs.SaveSchedGenProofs.
Import ListNotations.

(* the code's current shape has the mechanisms the proofs need: flag cleared before
   serialising, handler restores it, both schedules catch OSError and RuntimeError and
   fall through to the re-arm, stop cancels and saves *)
Theorem C15_generated_shape_good : good gen_cfg = true.
Proof. exact gen_good. Qed.

Theorem C15_policies : forall f, policy_ok (pol_of f).
Proof. exact pol_of_ok. Qed.

(* 1. a save that raises - at any sub-step, OSError or RuntimeError - keeps need_save
      True, does not touch the files in that step, and a load still returns what it
      returned when the save began; only a failing removal of the backup leaves the
      complete new snapshot instead *)
Theorem C15_failed_save_keeps_old_file :
  forall fl pol, policy_ok pol ->
  forall s e cls r, reachable gen_cfg fl pol s ->
    snd (step gen_cfg fl pol s e) = OEnded false false (Some cls) r ->
    let s' := fst (step gen_cfg fl pol s e) in
    s_dirty s' = true /\ s_fs s' = s_fs s /\ s_tree s' = s_tree s /\ s_saving s' = None /\
    exists v, s_saving s = Some v /\
              (load (s_fs s') = v_load0 v \/ (v_todo v = [SRemBak] /\ load (s_fs s') = Some (v_snap v))).
Proof. exact c15_failed_save. Qed.

(* the ghost field v_load0 of theorem 1 is the load result at the begin of the save *)
Theorem C15_load0_is_load_at_begin :
  forall fl pol s e v, reachable gen_cfg fl pol s -> s_saving s = None ->
    s_saving (fst (step gen_cfg fl pol s e)) = Some v -> v_load0 v = load (s_fs s).
Proof. exact c15_load0_at_begin. Qed.

Theorem C15_load0_kept :
  forall fl pol, policy_ok pol ->
  forall s e v v', reachable gen_cfg fl pol s -> s_saving s = Some v ->
    s_saving (fst (step gen_cfg fl pol s e)) = Some v' -> v_load0 v' = v_load0 v.
Proof. exact c15_load0_kept. Qed.

(* 2. the schedule never dies: unless stopped, either the next run is armed or a
      scheduled save is in progress; after stop nothing is armed *)
Theorem C15_schedule_survives_failure :
  forall fl pol, policy_ok pol ->
  forall s, reachable gen_cfg fl pol s ->
    if s_stopped s
    then s_armed s = false /\ (forall v, s_saving s = Some v -> v_owner v = OFinal)
    else (s_armed s = true /\ s_saving s = None)
         \/ (s_armed s = false /\ exists v, s_saving s = Some v /\ v_owner v = OSched).
Proof. exact c15_schedule_survives. Qed.

(* ... and every event that ends a scheduled save, however it ends, arms the next one *)
Theorem C15_every_fire_rearms :
  forall fl pol, policy_ok pol ->
  forall s e sk dn fc r, reachable gen_cfg fl pol s ->
    snd (step gen_cfg fl pol s e) = OEnded sk dn fc r ->
    s_stopped (fst (step gen_cfg fl pol s e)) = false ->
    s_armed (fst (step gen_cfg fl pol s e)) = true /\ s_saving (fst (step gen_cfg fl pol s e)) = None.
Proof. exact c15_every_fire_rearms. Qed.

(* 3. healing: from any reachable idle unsaved state - whatever failed before - a
      fault-free undisturbed scheduled save persists the current state *)
Theorem C15_next_success_persists_current :
  forall fl pol, policy_ok pol ->
  forall s, reachable gen_cfg fl pol s ->
    s_saving s = None -> s_armed s = true -> s_dirty s = true ->
    let s' := run gen_cfg fl pol s
                  (EFire false :: repeat (EStep FNone) (save_len (s_tree s) (is_some (f_main (s_fs s))))) in
    s_saving s' = None /\ s_dirty s' = false /\ load (s_fs s') = Some (s_tree s)
    /\ s_tree s' = s_tree s /\ s_armed s' = true /\ s_stopped s' = s_stopped s.
Proof. exact c15_next_success. Qed.

(* with messages in between: a save that returns has put a complete snapshot in
   place, and it equals the tree whenever need_save is False afterwards *)
Theorem C15_returning_save_persists_snapshot :
  forall fl pol, policy_ok pol ->
  forall s e v, reachable gen_cfg fl pol s -> s_saving s = Some v ->
    snd (step gen_cfg fl pol s e) = OEnded false false None false ->
    let s' := fst (step gen_cfg fl pol s e) in
    load (s_fs s') = Some (v_snap v) /\ s_dirty s' = s_dirty s /\ s_saving s' = None
    /\ (s_dirty s' = false -> v_snap v = s_tree s').
Proof. exact c15_ok_save. Qed.

(* 4. no lost update (what D10 violated): whenever no save is running and the state
      is marked saved, the file holds exactly the current state *)
Theorem C15_no_lost_update :
  forall fl pol, policy_ok pol ->
  forall s, reachable gen_cfg fl pol s ->
    s_saving s = None -> s_dirty s = false -> load (s_fs s) = Some (s_tree s).
Proof. exact c15_no_lost_update. Qed.

(* 5. stop at an idle point with a fault-free final save loses nothing and leaves
      nothing scheduled *)
Theorem C15_stop_persists :
  forall fl pol, policy_ok pol ->
  forall s, reachable gen_cfg fl pol s ->
    s_saving s = None -> s_stopped s = false ->
    let s' := run gen_cfg fl pol s
                  (EStop false :: repeat (EStep FNone) (save_len (s_tree s) (is_some (f_main (s_fs s))))) in
    s_saving s' = None /\ load (s_fs s') = Some (s_tree s) /\ s_tree s' = s_tree s
    /\ s_armed s' = false /\ s_stopped s' = true.
Proof. exact c15_stop_persists. Qed.

(* sensitivity: the two pre-fix shapes violate 4 and 2 (both flavours, both formats) *)
Theorem C15_no_lost_update_unfixed_refuted :
  forall fl f,
    let s := run cfg_d10 fl (pol_of f) (init [] no_file) d10_witness in
    s_saving s = None /\ s_dirty s = false /\ s_stopped s = false
    /\ load (s_fs s) = Some [] /\ s_tree s = [mkNode 1 17 []].
Proof. exact no_lost_update_unfixed_refuted_gen. Qed.

Theorem C15_schedule_survives_unfixed_refuted :
  forall fl f,
    let s := run cfg_d9 fl (pol_of f) (init ex_tree no_file) d9_witness in
    s_stopped s = false /\ s_armed s = false /\ s_saving s = None /\ s_dirty s = true.
Proof. exact schedule_survives_unfixed_refuted_gen. Qed.

(* non-vacuity *)
Example C15_example_heals :
  let s := run cfg_fixed Sync pol_json (init ex_tree no_file) ex_history in
  s_saving s = None /\ s_dirty s = false /\ s_armed s = true
  /\ load (s_fs s) = Some (s_tree s) /\ length (s_tree s) = 2.
Proof. exact ex_history_heals. Qed.

Example C15_example_failed_step :
  let s := run cfg_fixed Async pol_pickle (init ex_tree no_file) [EFire false; EStep FNone] in
  snd (step cfg_fixed Async pol_pickle s (EStep FIO)) = OEnded false false (Some FOSError) true.
Proof. exact ex_failed_step. Qed.

Example C15_example_shapes : good cfg_fixed = true /\ good cfg_d9 = false /\ good cfg_d10 = false.
Proof. exact (conj good_fixed (conj not_good_d9 not_good_d10)). Qed.

Example C15_example_witnesses_under_fixed_shape :
  forall fl f,
    let s := run cfg_fixed fl (pol_of f) (init [] no_file) d10_witness in
    let s2 := run cfg_fixed fl (pol_of f) (init ex_tree no_file) d9_witness in
    (s_saving s = None /\ s_dirty s = true) /\ (s_armed s2 = true /\ s_dirty s2 = true).
Proof. exact witnesses_fixed. Qed.

Print Assumptions C15_generated_shape_good.
Print Assumptions C15_policies.
Print Assumptions C15_failed_save_keeps_old_file.
Print Assumptions C15_load0_is_load_at_begin.
Print Assumptions C15_load0_kept.
Print Assumptions C15_schedule_survives_failure.
Print Assumptions C15_every_fire_rearms.
Print Assumptions C15_next_success_persists_current.
Print Assumptions C15_returning_save_persists_snapshot.
Print Assumptions C15_no_lost_update.
Print Assumptions C15_stop_persists.
Print Assumptions C15_no_lost_update_unfixed_refuted.
Print Assumptions C15_schedule_survives_unfixed_refuted.
