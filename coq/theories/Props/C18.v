(* C18 - documented configuration is accepted and honoured.  Statements only. *)
From Coq Require Import List NArith ZArith Bool String.
From PMS Require Import Base.PyStr Base.Exn Model.ConfigSyntax Model.ConfigVersion Model.Config
  Model.ConfigCheck Spec.ConfigSpec Gen.Signatures
  Proofs.ConfigOrder Proofs.ConfigProofs Proofs.ConfigFinite.
From PMS Require Import Proofs.VersionProofs Proofs.VersionConfigLink.
Import ListNotations.
Open Scope N_scope.

(* For each of the six gateway classes, for the required arguments passed
   positionally or by keyword, and for every vector of choices
   (absent / first / second representative value) over the class's documented
   keyword options - 3^7 vectors per class and style - the constructor chain,
   interpreted over the generated signatures and __init__ summaries, returns
   normally and every selected option is visible where it acts. *)
Theorem C18_documented_options_accepted :
  forall (orc : avop -> pstr -> pstr -> option bool) (cont : pstr -> bool)
         (c : gwclass) (by_keyword : bool) (ch : list choice),
    List.length ch = List.length (documented c) ->
    exists h, construct_case orc cont c by_keyword ch = Ok h
      /\ (forall o v, In (o, v) (selected c ch) -> honoured (look h) c (selected c ch) o v)
      /\ required_visible (look h) c.
Proof. exact documented_options_accepted. Qed.

(* "numeric comparison": sections compared left to right, a missing section
   counts as zero.  It is a total preorder; "2", "2.0", "2.0.0" are equal. *)
Theorem C18_numeric_order :
  (forall a, cmpv a a = Eq)
  /\ (forall a b, cmpv b a = CompOpp (cmpv a b))
  /\ (forall a b, le_num a b \/ le_num b a)
  /\ (forall a b c, le_num a b -> le_num b c -> le_num a c)
  /\ (forall a b c, cmpv a b = Eq -> cmpv a c = cmpv b c)
  /\ cmpv [2] [2; 0] = Eq /\ cmpv [2; 0] [2; 0; 0] = Eq.
Proof.
  exact (conj cmpv_refl (conj cmpv_antisym (conj cmpv_total (conj le_num_trans (conj cmpv_eq_compat
         (conj (proj1 cmpv_trailing_zero) (proj1 (proj2 cmpv_trailing_zero)))))))).
Qed.

(* awesomeversion's < and > on dotted numeric strings (as modelled from its
   source: identical strings are neither, otherwise compare_base_sections) are
   exactly the numeric comparison of the sections *)
Theorem C18_awesomeversion_numeric :
  forall a b : pstr,
    av_lt_num a b = match cmpv (sections a) (sections b) with Lt => true | _ => false end
    /\ av_gt_num a b = match cmpv (sections a) (sections b) with Gt => true | _ => false end.
Proof. exact (fun a b => conj (av_lt_num_spec a b) (av_gt_num_spec a b)). Qed.

(* the floor function of the specification is the property's rule: the highest
   supported version not above v, the 1.4 constants when there is none *)
Theorem C18_floor_rule :
  forall v : list N,
    (exists c, is_floor v c /\ In (c, floor_module v) supported)
    \/ ((forall c, In c (map fst supported) -> ~ le_num c v) /\ floor_module v = fallback_module).
Proof. exact floor_module_spec. Qed.

(* every dotted numeric string - any number of sections, any naturals, leading
   zeros allowed - selects the constants of its floor; safe_is_version keeps it
   iff it is numerically >= 1.4; the ">= 2.0" test of is_sensor agrees with a
   2.x table being selected; a node presenting v gets the same table *)
Theorem C18_version_floor :
  forall (orc : avop -> pstr -> pstr -> option bool) (cont : pstr -> bool) (v : pstr),
    dotted_numeric v = true ->
    get_const orc v = Ok (floor_module (sections v))
    /\ safe_is_version orc cont (VStr v) = Ok (if le_numb [1; 4] (sections v) then v else s2p "1.4")
    /\ gateway_const orc cont (VStr v) = Ok (floor_module (sections v))
    /\ (do s <- safe_is_version orc cont (VStr v); wants_presentation orc s) = Ok (le_numb [2; 0] (sections v))
    /\ le_numb [2; 0] (sections v) = is_2x (floor_module (sections v))
    /\ node_const orc cont (VStr v) = Ok (floor_module (sections v)).
Proof.
  exact (fun orc cont v H =>
    conj (get_const_floor orc v H) (conj (safe_is_version_num orc cont v H)
    (conj (gateway_const_floor orc cont v H) (conj (wants_presentation_num orc cont v H)
    (conj (ge20_iff_2x_table (sections v))
          (eq_trans (node_same_rule orc cont (VStr v)) (gateway_const_floor orc cont v H))))))).
Qed.

(* the core machine (Model/Oracles.v) computes its version verdicts on dotted numeric strings
   with the hand-written functions of Base/Version.v; they agree with this model, which is
   interpreted over the tests / key order / module table GENERATED from the source: is_version
   accepts v iff ver_ge14 v, safe_is_version returns safe_num v, the gateway and a node
   presenting v get the module with index const_index v; the hand-written key list is the
   generated one; and the independent numeric order num_ge is the order le_numb of this spec *)
Theorem C18_core_machine_version_agrees :
  (forall (orc : avop -> pstr -> pstr -> option bool) (cont : pstr -> bool) (v : pstr),
     dotted_numeric v = true ->
     is_version orc cont (VStr v) = (if ver_ge14 v then Ok v else Raise VolInvalid)
     /\ safe_is_version orc cont (VStr v) = Ok (safe_num v)
     /\ gateway_const orc cont (VStr v) = Ok (nth (const_index v) const_modules [])
     /\ node_const orc cont (VStr v) = Ok (nth (const_index v) const_modules []))
  /\ (map fst const_keys_desc = iter_keys
      /\ map (fun ki => Some (nth (snd ki) const_modules [])) const_keys_desc
         = map (fun k => assoc k const_versions) iter_keys
      /\ get_const_default = nth 0 const_modules [] /\ safe_fallback = v_floor)
  /\ (forall a b, num_ge a b = le_numb b a).
Proof.
  exact (conj (fun orc cont v H =>
                 conj (is_version_core orc cont v H) (conj (safe_is_version_core orc cont v H)
                      (gateway_const_core orc cont v H)))
              (conj const_keys_match_generated num_ge_le_numb)).
Qed.

(* whatever a node presents (any value, any verdict of the oracle) is selected
   by the same function as the gateway's own protocol_version *)
Theorem C18_node_same_rule :
  forall (orc : avop -> pstr -> pstr -> option bool) (cont : pstr -> bool) (v : val),
    node_const orc cont v = gateway_const orc cont v.
Proof. exact node_same_rule. Qed.

(* a value whose str() is not dotted numeric: the verdict of is_version's
   comparison is the oracle's (the library's) - for the current code
   AwesomeVersion("1.4") > AwesomeVersion(str(v)).  If it is one of
   awesomeversion's container words ("latest", "dev", "stable", "beta": cont),
   or the library cannot compare it (exception), or finds it older: version
   "1.4" and the 1.4 constants, for the gateway and for a node.  Anything else
   the library accepts is kept as written. *)
Theorem C18_nonnumeric_fallback :
  forall (orc : avop -> pstr -> pstr -> option bool) (cont : pstr -> bool) (v : val),
    dotted_numeric (py_str v) = false ->
    eval_vtest orc is_version_test (py_str v) [] =
      option_map (xorb (vt_neg is_version_test))
        (orc (vt_op is_version_test) (side_val (vt_l is_version_test) (py_str v) [])
             (side_val (vt_r is_version_test) (py_str v) []))
    /\ ((cont (py_str v) = true
         \/ eval_vtest orc is_version_test (py_str v) [] = None
         \/ eval_vtest orc is_version_test (py_str v) [] = Some true) ->
        safe_is_version orc cont v = Ok (s2p "1.4")
        /\ gateway_const orc cont v = Ok fallback_module /\ node_const orc cont v = Ok fallback_module)
    /\ (cont (py_str v) = false -> eval_vtest orc is_version_test (py_str v) [] = Some false ->
        safe_is_version orc cont v = Ok (py_str v)).
Proof.
  exact (fun orc cont v H =>
    conj (is_version_test_oracle orc (py_str v) H)
         (conj (nonnumeric_fallback orc cont v H)
               (fun Hc => nonnumeric_accepted orc cont v
                            (eq_trans (f_equal (andb (negb (dotted_numeric (py_str v)))) Hc)
                                      (andb_false_r _))))).
Qed.

(* HISTORY (finding version/container-word, repaired in the repo by b5ee08d).
   Without the container test (is_version_with false = the code before the fix)
   and with the oracle that answers like awesomeversion on its container word
   "dev", the digit-free string "dev" was kept and get_const gave the 2.2
   constants; with the test (the current code) the same inputs give "1.4". *)
Theorem C18_nonnumeric_fallback_unfixed_refuted :
  exists (orc : avop -> pstr -> pstr -> option bool) (cont : pstr -> bool) (v : val),
    dotted_numeric (py_str v) = false
    /\ forallb (fun c => negb (is_digit c)) (py_str v) = true
    /\ cont (py_str v) = true
    /\ safe_is_version_with orc cont false v = Ok (py_str v)
    /\ get_const orc (py_str v) = Ok (s2p "mysensors.const_22")
    /\ safe_is_version orc cont v = Ok (s2p "1.4").
Proof. exact nonnumeric_fallback_unfixed_refuted. Qed.

(* event_callback and persistence act through Gateway.alert (facts generated from
   its AST): the callback is invoked iff one is configured, and with persistence
   on every alert marks the network as changed - whether or not a callback is
   configured - so the next (scheduled or final) save writes it. *)
Theorem C18_alert_effect :
  forall has_callback dirty : bool,
    alert_model has_callback true dirty = (has_callback, true)
    /\ alert_model has_callback false dirty = (has_callback, dirty).
Proof. exact alert_effect. Qed.

(* the generated tables are the ones the specification was written for, and the
   constructor examples of README.md / mqtt.py / main.py / async_main.py use
   documented keyword options only *)
Theorem C18_generated_matches_spec :
  gen_supported = supported
  /\ get_const_default = fallback_module
  /\ sections safe_fallback = fallback_version
  /\ sections sensor_default_version = fallback_version
  /\ examples_documented = true.
Proof.
  exact (conj gen_supported_is_spec (conj (proj1 defaults_are_spec) (conj (proj1 (proj2 defaults_are_spec))
        (conj (proj2 (proj2 defaults_are_spec)) examples_use_documented_options)))).
Qed.

(* ---- non-vacuity *)
Example C18_ex_floor :
  floor_module [2; 0; 5] = s2p "mysensors.const_20" /\ floor_module [2; 3] = s2p "mysensors.const_22"
  /\ floor_module [2] = s2p "mysensors.const_20" /\ floor_module [1; 3; 9] = s2p "mysensors.const_14"
  /\ floor_module [1; 10] = s2p "mysensors.const_15" /\ floor_module [3; 0] = s2p "mysensors.const_22".
Proof. vm_compute. repeat split. Qed.

Example C18_ex_strings :
  dotted_numeric (s2p "2.0.0") = true /\ sections (s2p "02.00") = [2; 0]
  /\ get_const (fun _ _ _ => None) (s2p "2.0.0") = Ok (s2p "mysensors.const_20")
  /\ safe_is_version (fun _ _ _ => None) (fun _ => false) (VStr (s2p "1.3.9")) = Ok (s2p "1.4")
  /\ safe_is_version (fun _ _ _ => None) (fun _ => false) (VInt 2) = Ok (s2p "2")
  /\ dotted_numeric (py_str VNone) = false
  /\ safe_is_version (fun _ _ _ => None) (fun _ => false) VNone = Ok (s2p "1.4").
Proof. vm_compute. repeat split. Qed.

Example C18_ex_fallback_premise :
  eval_vtest (fun _ _ _ => None) is_version_test (py_str VNone) [] = None
  /\ eval_vtest (fun _ _ _ => Some true) is_version_test (s2p "abc") [] = Some true.
Proof. vm_compute. split; reflexivity. Qed.

Example C18_ex_container_word :
  safe_is_version (fun _ _ _ => Some false) (fun s => pstr_eqb s (s2p "latest")) (VStr (s2p "latest")) = Ok (s2p "1.4")
  /\ safe_is_version (fun _ _ _ => Some false) (fun _ => false) (VStr (s2p "v2.0")) = Ok (s2p "v2.0").
Proof. vm_compute. split; reflexivity. Qed.

Example C18_ex_readme_call :
  exists h, construct_case (fun _ _ _ => None) (fun _ => false) SerialGw false [RepA; RepA; RepA; RepA; RepA; RepA; RepA] = Ok h
    /\ look h (p ["tasks"; "transport"; "timeout"]%string) = Some (VFloat (s2p "2.5"))
    /\ look h (p ["tasks"; "persistence"; "persistence_file"]%string) = Some (VStr (s2p "a.json"))
    /\ look h (p ["const"]%string) = Some (VObj (s2p "mysensors.const_22")).
Proof. exact readme_serial_call. Qed.

Example C18_ex_undocumented_refused :
  construct (fun _ _ _ => None) (fun _ => false) classes (s2p "MQTTGateway") [VObj (s2p "pub"); VObj (s2p "sub")]
    [(s2p "timeout", VFloat (s2p "1.0"))] = Raise TypeError.
Proof. exact undocumented_keyword_refused. Qed.

Print Assumptions C18_documented_options_accepted.
Print Assumptions C18_numeric_order.
Print Assumptions C18_awesomeversion_numeric.
Print Assumptions C18_floor_rule.
Print Assumptions C18_version_floor.
Print Assumptions C18_node_same_rule.
Print Assumptions C18_nonnumeric_fallback.
Print Assumptions C18_nonnumeric_fallback_unfixed_refuted.
Print Assumptions C18_alert_effect.
Print Assumptions C18_generated_matches_spec.
Print Assumptions C18_core_machine_version_agrees.
