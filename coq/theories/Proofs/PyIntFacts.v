From Coq Require Import List NArith ZArith Bool Decimal DecimalZ Lia.
From PMS Require Import Base.PyStr Base.PyInt Gen.UnicodeTables Proofs.PyStrFacts.
Import ListNotations.
Open Scope N_scope.

(* characters str(int) can produce *)
Definition numchars : list N := [45; 48; 49; 50; 51; 52; 53; 54; 55; 56; 57].

Lemma numchar_facts c : In c numchars ->
  intspace c = false /\ isspace c = false /\ c <> 59 /\ c <> 43 /\ c <> 95.
Proof.
  unfold numchars. intro H.
  repeat (destruct H as [<-|H]; [repeat split; try (vm_compute; reflexivity); discriminate|]).
  destruct H.
Qed.

Lemma uint_chars_numchars u : Forall (fun c => In c numchars) (uint_chars u).
Proof.
  induction u; simpl; constructor; try assumption; unfold numchars; simpl; tauto.
Qed.

Lemma print_numchars z : Forall (fun c => In c numchars) (print z).
Proof.
  unfold print. destruct (Z.to_int z).
  - apply uint_chars_numchars.
  - constructor; [unfold numchars; simpl; tauto| apply uint_chars_numchars].
Qed.

Lemma to_int_nonnil z : match Z.to_int z with Pos u | Neg u => u <> Nil end.
Proof.
  destruct z; simpl; try discriminate.
  - pose proof (DecimalPos.Unsigned.to_uint_nonnil p). exact H.
  - pose proof (DecimalPos.Unsigned.to_uint_nonnil p). exact H.
Qed.

Lemma print_nonempty z : print z <> [].
Proof.
  unfold print. pose proof (to_int_nonnil z) as H.
  destruct (Z.to_int z) as [u|u]; [|discriminate].
  destruct u; simpl; try discriminate. congruence.
Qed.

Lemma print_no_semi z : mem_N 59 (print z) = false.
Proof.
  destruct (mem_N 59 (print z)) eqn:E; [|reflexivity].
  apply mem_N_In in E. pose proof (print_numchars z) as F.
  rewrite Forall_forall in F. apply F in E. apply numchar_facts in E. tauto.
Qed.

Lemma digit_of_ascii :
  digit_of 48 = Some 0 /\ digit_of 49 = Some 1 /\ digit_of 50 = Some 2 /\
  digit_of 51 = Some 3 /\ digit_of 52 = Some 4 /\ digit_of 53 = Some 5 /\
  digit_of 54 = Some 6 /\ digit_of 55 = Some 7 /\ digit_of 56 = Some 8 /\
  digit_of 57 = Some 9.
Proof. repeat split; vm_compute; reflexivity. Qed.

Lemma body_digit st c d r : c <> 95 -> digit_of c = Some d ->
  body st (c :: r) = option_map (cons_digit d) (body BDigit r).
Proof.
  intros Hc Hd. simpl. apply N.eqb_neq in Hc. rewrite Hc, Hd. reflexivity.
Qed.

Lemma body_uint_chars st u : (u <> Nil \/ st = BDigit) -> body st (uint_chars u) = Some u.
Proof.
  destruct digit_of_ascii as (H0&H1&H2&H3&H4&H5&H6&H7&H8&H9).
  revert st. induction u; intros st Hst;
    try (cbn [uint_chars]; erewrite body_digit; [|discriminate|eassumption];
         rewrite IHu by (right; reflexivity); reflexivity).
  destruct Hst as [Hst| ->]; [congruence|reflexivity].
Qed.

Lemma strip_numchars s : s <> [] -> Forall (fun c => In c numchars) s -> strip intspace s = s.
Proof.
  intros NE F. unfold strip.
  destruct s as [|c s]; [congruence|].
  assert (Hc : intspace c = false) by (inversion F; subst; apply numchar_facts; assumption).
  rewrite lstrip_id by exact Hc.
  apply rstrip_id. unfold no_trailing.
  destruct (List.rev (c :: s)) as [|x r] eqn:R; [reflexivity|].
  assert (In x (c :: s)) by (apply in_rev; rewrite R; left; reflexivity).
  rewrite Forall_forall in F. apply F in H. apply numchar_facts in H.
  destruct H as [H _]. rewrite H. reflexivity.
Qed.

Lemma sign_split_uint u : u <> Nil -> sign_split (uint_chars u) = (false, uint_chars u).
Proof. destruct u; intro H; reflexivity. Qed.

Theorem parse_print z : parse (print z) = Some z.
Proof.
  unfold parse. rewrite strip_numchars by (apply print_nonempty || apply print_numchars).
  unfold print. pose proof (DecimalZ.of_to z) as OT. pose proof (to_int_nonnil z) as NN.
  destruct (Z.to_int z) as [u|u].
  - rewrite sign_split_uint by exact NN. cbv beta iota.
    rewrite body_uint_chars by (left; exact NN). cbv beta iota. simpl option_map. f_equal. exact OT.
  - change (sign_split (45 :: uint_chars u)) with (true, uint_chars u). cbv beta iota.
    rewrite body_uint_chars by (left; exact NN). cbv beta iota. simpl option_map. f_equal. exact OT.
Qed.
