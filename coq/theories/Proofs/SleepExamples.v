(* Smart sleep: the concrete configurations and histories used by the Examples of Props/C07.v
   and Props/C08.v (definitions only). *)
From Coq Require Import List NArith ZArith Bool String.
From PMS Require Import Base.PyStr Base.Exn Model.Codec Model.TableTypes Gen.Tables Model.Validate
  Model.Oracles Model.Hex Model.Ota Model.Gateway.
Import ListNotations.
Open Scope string_scope.
Open Scope list_scope.
Open Scope Z_scope.

(* awesomeversion accepts "2.2", "2.1", "1.4"; get_const maps them to const_22 / const_21 / const_14 *)
Definition ex_orc := mkOracles [(s2p "2.2", (true, 4%nat)); (s2p "2.1", (true, 3%nat)); (s2p "1.4", (true, 0%nat))] [].
Definition ex_R (s : string) : op := Recv (s2p s).
(* 2.2: I_PRE_SLEEP_NOTIFICATION of node 1 *)
Definition ex_wake1 : op := ex_R "1;255;3;0;32;500".
Definition ex_cfA := mkConfig tab_22 true true false false.     (* 2.2, asyncio flavour *)
Definition ex_cfT := mkConfig tab_22 true false false false.    (* 2.2, threaded flavour *)
Definition ex_cf21 := mkConfig tab_21 true true false false.    (* 2.1, asyncio flavour *)
Definition ex_line (s : string) : pstr := s2p s ++ [nl].
Definition ex_queue (g : gw) (k : Z) := option_map n_queue (get_node g k).
Definition ex_sleeps (g : gw) (k : Z) := option_map sleeping (get_node g k).
Definition ex_node (g : gw) (k : Z) : node := match get_node g k with Some nd => nd | None => new_node 0 end.
Definition ex_set (vt : vtarg) (v : string) : op := SetChild 1 1 vt (PS (s2p v)) None None.
(* every arriving line followed by a pump iteration (threaded flavour) *)
Definition ex_pumped (l : list op) : list op := flat_map (fun o => [o; Pump]) l.

(* node 1 and child 1 presented, value type 2 (V_STATUS) reported, first wake-up: node 1 sleeps *)
Definition ex_h1 : list op := [ex_R "1;255;0;0;17;2.2"; ex_R "1;1;0;0;3;"; ex_R "1;1;1;0;2;0"; ex_wake1].
(* ... and node 2 presented, child 1, value reported: awake *)
Definition ex_setup : list op := ex_h1 ++ [ex_R "2;255;0;0;17;2.2"; ex_R "2;1;0;0;3;"; ex_R "2;1;1;0;2;1"].
