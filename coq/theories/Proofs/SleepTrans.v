(* Smart sleep (C07 / C08): the transition relation `trans` that every handler, the dispatcher,
   every controller call and every step of the machine satisfies.  It records what may be
   emitted (log / job queue deltas), how hold queues, the sleeping flag, desired values and
   reported values of every node may change, relative to the CAUSE of the transition. *)
From Coq Require Import List NArith ZArith Bool String Lia.
From PMS Require Import Base.PyStr Base.PyInt Base.Exn Model.Codec Model.Rules Model.TableTypes
  Gen.Tables Model.Validate Model.Hex Model.Ota Model.Oracles Model.Gateway Spec.SerialApi
  Proofs.PyStrFacts Proofs.PyIntFacts Proofs.CodecProofs Proofs.ValidateProofs Proofs.GwLemmas Proofs.GwInv
  Proofs.SleepDefs.
Import ListNotations.
Open Scope string_scope.
Open Scope list_scope.
Open Scope Z_scope.

(* what a transition is about *)
Inductive cause :=
| CNone
| CWake (n : Z)               (* the wake-up announcement of node n is being processed *)
| CReport (n c vt : Z)        (* a set message (a report) from node n, child c, value type vt *)
| CDesire (n c vt : Z).       (* the controller call set_child_value n c vt *)

Definition node_step (cz : cause) (k : Z) (nd nd' : node) : Prop :=
  n_id nd' = n_id nd /\
  (sleeping nd = true -> sleeping nd' = true) /\
  (Forall (qentry k) (n_queue nd) -> Forall (qentry k) (n_queue nd')) /\
  (cz <> CWake k -> sleeping nd' = sleeping nd /\ exists ext, n_queue nd' = n_queue nd ++ ext) /\
  (forall c vt, cz <> CReport k c vt -> cz <> CDesire k c vt -> desired nd' c vt = desired nd c vt) /\
  (forall c ch, zassoc c (n_children nd) = Some ch ->
     exists ch', zassoc c (n_children nd') = Some ch' /\ c_id ch' = c_id ch /\
                 forall vt, zhas vt (c_values ch) = true -> zhas vt (c_values ch') = true).

Lemma node_step_refl cz k nd : node_step cz k nd nd.
Proof.
  repeat split; auto.
  - exists []. rewrite app_nil_r. reflexivity.
  - intros c ch H. exists ch. auto.
Qed.

Lemma node_step_trans cz k a b c : node_step cz k a b -> node_step cz k b c -> node_step cz k a c.
Proof.
  intros (I1 & S1 & Q1 & W1 & D1 & C1) (I2 & S2 & Q2 & W2 & D2 & C2).
  split; [congruence|]. split; [auto|]. split; [auto|]. split; [|split].
  - intro N. destruct (W1 N) as [E1 [x1 X1]]. destruct (W2 N) as [E2 [x2 X2]].
    split; [congruence|]. exists (x1 ++ x2). rewrite X2, X1, app_assoc. reflexivity.
  - intros ch vt N1 N2. rewrite D2, D1; auto.
  - intros ch0 ch H. destruct (C1 _ _ H) as (ch1 & H1 & E1 & V1).
    destruct (C2 _ _ H1) as (ch2 & H2 & E2 & V2). exists ch2. split; [exact H2|]. split; [congruence|auto].
Qed.

Lemma node_step_mono cz k a b : node_step CNone k a b -> node_step cz k a b.
Proof.
  intros (I1 & S1 & Q1 & W1 & D1 & C1).
  split; [exact I1|]. split; [exact S1|]. split; [exact Q1|]. split; [|split; [|exact C1]].
  - intros _. apply W1. discriminate.
  - intros c vt _ _. apply D1; discriminate.
Qed.

(* a node that keeps desired state, children and queue *)
Lemma node_step_same cz k nd nd' :
  n_id nd' = n_id nd -> n_new nd' = n_new nd -> n_queue nd' = n_queue nd -> n_children nd' = n_children nd ->
  node_step cz k nd nd'.
Proof.
  intros E1 E2 E3 E4. unfold node_step, sleeping, desired. rewrite E1, E2, E3, E4.
  repeat split; auto.
  - exists []. rewrite app_nil_r. reflexivity.
  - intros c ch H. exists ch. auto.
Qed.

Definition nodes_step (cz : cause) (g g' : gw) : Prop :=
  (forall k nd, get_node g k = Some nd -> exists nd', get_node g' k = Some nd' /\ node_step cz k nd nd') /\
  (* a node that appears evolves from the fresh node *)
  (forall k nd', get_node g k = None -> get_node g' k = Some nd' -> node_step cz k (new_node k) nd').

Lemma nodes_step_eq cz g g' : g_sensors g' = g_sensors g -> nodes_step cz g g'.
Proof.
  intro E. unfold nodes_step, get_node. rewrite E. split.
  - intros k nd H. exists nd. split; [exact H|apply node_step_refl].
  - intros k nd' H1 H2. congruence.
Qed.

Lemma nodes_step_trans cz a b c : nodes_step cz a b -> nodes_step cz b c -> nodes_step cz a c.
Proof.
  intros [A1 N1] [A2 N2]. split.
  - intros k nd H. destruct (A1 _ _ H) as (nd1 & H1 & S1). destruct (A2 _ _ H1) as (nd2 & H2 & S2).
    exists nd2. split; [exact H2|]. eapply node_step_trans; eassumption.
  - intros k nd' H1 H3. destruct (get_node b k) as [ndb|] eqn:Hb.
    + pose proof (N1 _ _ H1 Hb) as S1. destruct (A2 _ _ Hb) as (nd2 & H2 & S2).
      rewrite H3 in H2. inversion H2; subst nd2. eapply node_step_trans; eassumption.
    + apply (N2 _ _ Hb H3).
Qed.

Lemma nodes_step_mono cz g g' : nodes_step CNone g g' -> nodes_step cz g g'.
Proof.
  intros [A N]. split.
  - intros k nd H. destruct (A _ _ H) as (nd' & H' & S). exists nd'. split; [exact H'|apply node_step_mono; exact S].
  - intros k nd' H1 H2. apply node_step_mono. eauto.
Qed.
