(* Smart sleep (C07 / C08): the transition relation `trans` that every handler, the dispatcher,
   every controller call and every step of the machine satisfies.  It records what may be
   emitted (log / job queue deltas), how hold queues, the sleeping flag, desired values and
   reported values of every node may change, relative to the CAUSE of the transition. *)
From Coq Require Import List NArith ZArith Bool String Lia.
From PMS Require Import Base.PyStr Base.PyInt Base.Exn Model.Codec Model.Rules Model.TableTypes
  Gen.Tables Model.Validate Model.Hex Model.Ota Model.Oracles Model.Gateway Spec.SerialApi
  Proofs.PyStrFacts Proofs.PyIntFacts Proofs.CodecProofs Proofs.ValidateProofs Proofs.GwLemmas Proofs.GwInv
  Proofs.SleepDefs Proofs.SleepFlush.
Import ListNotations.
Open Scope string_scope.
Open Scope list_scope.
Open Scope Z_scope.

(* what a transition is about *)
Inductive cause :=
| CNone
| CWake (n : Z)               (* the wake-up announcement of node n is being processed *)
| CReport (n c vt : Z)        (* a set message (a report) from node n, child c, value type vt *)
| CDesire (n c vt : Z).       (* the controller call set_child_value n c vt *)

(* desired values: without the controller call for (k, c, vt) a desired value can only persist
   or be cleared; without a report for (k, c, vt) either it persists *)
Definition des_step (cz : cause) (k : Z) (nd nd' : node) : Prop :=
  forall c vt, cz <> CDesire k c vt ->
    (desired nd' c vt = desired nd c vt \/ desired nd' c vt = None) /\
    (cz <> CReport k c vt -> desired nd' c vt = desired nd c vt).

(* the children dict is keyed by child.id *)
Definition kids_ok (nd : node) : Prop := forall c ch, zassoc c (n_children nd) = Some ch -> c_id ch = c.

Definition node_step (cz : cause) (k : Z) (nd nd' : node) : Prop :=
  n_id nd' = n_id nd /\
  (kids_ok nd -> kids_ok nd') /\
  (sleeping nd = true -> sleeping nd' = true) /\
  (Forall (qentry k) (n_queue nd) -> Forall (qentry k) (n_queue nd')) /\
  (cz <> CWake k -> sleeping nd' = sleeping nd /\ exists ext, n_queue nd' = n_queue nd ++ ext) /\
  des_step cz k nd nd' /\
  (forall c ch, zassoc c (n_children nd) = Some ch ->
     exists ch', zassoc c (n_children nd') = Some ch' /\ c_id ch' = c_id ch /\
                 forall vt, zhas vt (c_values ch) = true -> zhas vt (c_values ch') = true).

Lemma des_step_same cz k nd nd' : (forall c vt, desired nd' c vt = desired nd c vt) -> des_step cz k nd nd'.
Proof. intros H c vt _. split; [left; apply H|intros _; apply H]. Qed.

Lemma node_step_refl cz k nd : node_step cz k nd nd.
Proof.
  split; [reflexivity|]. split; [auto|]. split; [auto|]. split; [auto|]. split; [|split].
  - intros _. split; [reflexivity|]. exists []. rewrite app_nil_r. reflexivity.
  - apply des_step_same. reflexivity.
  - intros c ch H. exists ch. auto.
Qed.

Lemma node_step_trans cz k a b c : node_step cz k a b -> node_step cz k b c -> node_step cz k a c.
Proof.
  intros (I1 & K1 & S1 & Q1 & W1 & D1 & C1) (I2 & K2 & S2 & Q2 & W2 & D2 & C2).
  split; [congruence|]. split; [auto|]. split; [auto|]. split; [auto|]. split; [|split].
  - intro N. destruct (W1 N) as [E1 [x1 X1]]. destruct (W2 N) as [E2 [x2 X2]].
    split; [congruence|]. exists (x1 ++ x2). rewrite X2, X1, app_assoc. reflexivity.
  - intros ch vt N. destruct (D1 ch vt N) as [A1 B1]. destruct (D2 ch vt N) as [A2 B2]. split.
    + destruct A2 as [A2|A2]; [rewrite A2; exact A1|right; exact A2].
    + intro N2. rewrite B2, B1; auto.
  - intros ch0 ch H. destruct (C1 _ _ H) as (ch1 & H1 & E1 & V1).
    destruct (C2 _ _ H1) as (ch2 & H2 & E2 & V2). exists ch2. split; [exact H2|]. split; [congruence|auto].
Qed.

Lemma node_step_mono cz k a b : node_step CNone k a b -> node_step cz k a b.
Proof.
  intros (I1 & K1 & S1 & Q1 & W1 & D1 & C1).
  split; [exact I1|]. split; [exact K1|]. split; [exact S1|]. split; [exact Q1|]. split; [|split; [|exact C1]].
  - intros _. apply W1. discriminate.
  - apply des_step_same. intros c vt. apply D1; discriminate.
Qed.

(* a node that keeps desired state, children and queue *)
Lemma node_step_same cz k nd nd' :
  n_id nd' = n_id nd -> n_new nd' = n_new nd -> n_queue nd' = n_queue nd -> n_children nd' = n_children nd ->
  node_step cz k nd nd'.
Proof.
  intros E1 E2 E3 E4. unfold node_step, sleeping, kids_ok. rewrite E1, E2, E3, E4.
  split; [reflexivity|]. split; [auto|]. split; [auto|]. split; [auto|]. split; [|split].
  - intros _. split; [reflexivity|]. exists []. rewrite app_nil_r. reflexivity.
  - apply des_step_same. intros c vt. unfold desired. rewrite E2. reflexivity.
  - intros c ch H. exists ch. auto.
Qed.

Definition nodes_step (cz : cause) (g g' : gw) : Prop :=
  (forall k nd, get_node g k = Some nd -> exists nd', get_node g' k = Some nd' /\ node_step cz k nd nd') /\
  (* a node that appears evolves from the fresh node *)
  (forall k nd', get_node g k = None -> get_node g' k = Some nd' -> node_step cz k (new_node k) nd').

Lemma nodes_step_eq cz g g' : g_sensors g' = g_sensors g -> nodes_step cz g g'.
Proof.
  intro E. unfold nodes_step, get_node. rewrite E. split.
  - intros k nd H. exists nd. split; [exact H|apply node_step_refl].
  - intros k nd' H1 H2. congruence.
Qed.

Lemma nodes_step_trans cz a b c : nodes_step cz a b -> nodes_step cz b c -> nodes_step cz a c.
Proof.
  intros [A1 N1] [A2 N2]. split.
  - intros k nd H. destruct (A1 _ _ H) as (nd1 & H1 & S1). destruct (A2 _ _ H1) as (nd2 & H2 & S2).
    exists nd2. split; [exact H2|]. eapply node_step_trans; eassumption.
  - intros k nd' H1 H3. destruct (get_node b k) as [ndb|] eqn:Hb.
    + pose proof (N1 _ _ H1 Hb) as S1. destruct (A2 _ _ Hb) as (nd2 & H2 & S2).
      rewrite H3 in H2. inversion H2; subst nd2. eapply node_step_trans; eassumption.
    + apply (N2 _ _ Hb H3).
Qed.

Lemma nodes_step_mono cz g g' : nodes_step CNone g g' -> nodes_step cz g g'.
Proof.
  intros [A N]. split.
  - intros k nd H. destruct (A _ _ H) as (nd' & H' & S). exists nd'. split; [exact H'|apply node_step_mono; exact S].
  - intros k nd' H1 H2. apply node_step_mono. eauto.
Qed.

(* ---------------------------------------------------------------- what may be emitted *)
(* a string that may leave the gateway (be handed to add_job_send / returned as the reply) in a
   transition that started in state g0 with cause cz: the encoding of a message that is of
   stream type, or addressed to the node whose wake-up announcement is being processed, or
   addressed to a node that was unknown or not sleeping in g0 *)
Definition allowed (g0 : gw) (cz : cause) (s : pstr) : Prop :=
  exists m, s = encode m /\
    (m_type m = vt_stream (tab g0) \/ cz = CWake (m_node m) \/
     match get_node g0 (m_node m) with Some nd => sleeping nd = false | None => True end).

Definition ev_allowed (g0 : gw) (cz : cause) (e : event) : Prop :=
  match e with ESend s => allowed g0 cz s | _ => True end.
Definition job_allowed (g0 : gw) (cz : cause) (j : job) : Prop :=
  match j with JSend s => allowed g0 cz s | JLogic _ => False end.

Record trans (cz : cause) (g g' : gw) : Prop := mkTrans {
  t_cf : g_cf g' = g_cf g;
  t_log : exists d, g_log g' = g_log g ++ d /\ Forall (ev_allowed g cz) d;
  t_jobs : exists j, g_jobs g' = g_jobs g ++ j /\ Forall (job_allowed g cz) j /\
                     (cf_async (g_cf g) = true -> j = []);
  t_nodes : nodes_step cz g g' }.

Lemma allowed_mono g cz s : allowed g CNone s -> allowed g cz s.
Proof. intros (m & E & [H|[H|H]]); exists m; (split; [exact E|]); [left; exact H|discriminate H|right; right; exact H]. Qed.

Lemma allowed_back cz g g' s : g_cf g' = g_cf g -> nodes_step cz g g' -> allowed g' cz s -> allowed g cz s.
Proof.
  intros C [A N] (m & E & H). exists m. split; [exact E|].
  destruct H as [H|[H|H]]; [left; unfold tab in *; rewrite <- C; exact H|right; left; exact H|].
  destruct (get_node g (m_node m)) as [nd|] eqn:G; [|right; right; exact I].
  destruct (A _ _ G) as (nd' & G' & (_ & _ & S & _)). rewrite G' in H.
  right. right. destruct (sleeping nd); [rewrite S in H by reflexivity; discriminate|reflexivity].
Qed.

Lemma Forall_impl' {A} (P Q : A -> Prop) l : (forall a, P a -> Q a) -> Forall P l -> Forall Q l.
Proof. intros H F. eapply Forall_impl; [exact H|exact F]. Qed.

Lemma trans_refl cz g : trans cz g g.
Proof.
  constructor; [reflexivity| | |apply nodes_step_eq; reflexivity].
  - exists []. rewrite app_nil_r. split; [reflexivity|constructor].
  - exists []. rewrite app_nil_r. split; [reflexivity|]. split; [constructor|reflexivity].
Qed.

Lemma trans_trans cz a b c : trans cz a b -> trans cz b c -> trans cz a c.
Proof.
  intros [C1 (d1 & L1 & F1) (j1 & J1 & G1 & A1) N1] [C2 (d2 & L2 & F2) (j2 & J2 & G2 & A2) N2].
  constructor; [congruence| | |eapply nodes_step_trans; eassumption].
  - exists (d1 ++ d2). rewrite L2, L1, app_assoc. split; [reflexivity|].
    apply Forall_app. split; [exact F1|].
    eapply Forall_impl'; [|exact F2]. intros [s|m t|e]; simpl; auto. apply allowed_back; assumption.
  - exists (j1 ++ j2). rewrite J2, J1, app_assoc. split; [reflexivity|]. split.
    + apply Forall_app. split; [exact G1|].
      eapply Forall_impl'; [|exact G2]. intros [l|s]; simpl; auto. apply allowed_back; assumption.
    + intro X. rewrite A1 by exact X. rewrite A2 by (rewrite C1; exact X). reflexivity.
Qed.

Lemma trans_mono cz g g' : trans CNone g g' -> trans cz g g'.
Proof.
  intros [C (d & L & F) (j & J & G & A) N].
  constructor; [exact C| | |apply nodes_step_mono; exact N].
  - exists d. split; [exact L|]. eapply Forall_impl'; [|exact F]. intros [s|m t|e]; simpl; auto. apply allowed_mono.
  - exists j. split; [exact J|]. split; [|exact A].
    eapply Forall_impl'; [|exact G]. intros [l|s]; simpl; auto. apply allowed_mono.
Qed.

(* a change of the fields that carry no node / output information *)
Lemma trans_fields cz g g' :
  g_cf g' = g_cf g -> g_sensors g' = g_sensors g -> g_jobs g' = g_jobs g -> g_log g' = g_log g -> trans cz g g'.
Proof.
  intros C S J L. constructor; [exact C| | |apply nodes_step_eq; exact S].
  - exists []. rewrite app_nil_r. split; [exact L|constructor].
  - exists []. rewrite app_nil_r. split; [exact J|]. split; [constructor|reflexivity].
Qed.

Lemma trans_emit_other cz g e : (match e with ESend _ => False | _ => True end) -> trans cz g (emit g e).
Proof.
  intro H. constructor; [reflexivity| | |apply nodes_step_eq; reflexivity].
  - exists [e]. split; [reflexivity|]. constructor; [|constructor]. destruct e; simpl; auto. contradiction.
  - exists []. rewrite app_nil_r. split; [reflexivity|]. split; [constructor|reflexivity].
Qed.

Lemma trans_send cz g s : (s <> [] -> allowed g cz s) -> trans cz g (send g s).
Proof.
  intro H. unfold send. destruct s as [|c s]; [apply trans_refl|].
  constructor; [reflexivity| | |apply nodes_step_eq; reflexivity].
  - exists [ESend (c :: s)]. split; [reflexivity|]. constructor; [|constructor]. simpl. apply H. discriminate.
  - exists []. rewrite app_nil_r. split; [reflexivity|]. split; [constructor|reflexivity].
Qed.

Lemma trans_add_job_send cz g s : allowed g cz s -> trans cz g (add_job_send g s).
Proof.
  intro H. unfold add_job_send. destruct (cf_async (g_cf g)) eqn:A; [apply trans_send; intros _; exact H|].
  constructor; [reflexivity| | |apply nodes_step_eq; reflexivity].
  - exists []. rewrite app_nil_r. split; [reflexivity|constructor].
  - exists [JSend s]. split; [reflexivity|]. split; [constructor; [exact H|constructor]|congruence].
Qed.

Lemma trans_alert cz g m : trans cz g (alert g m).
Proof.
  unfold alert. destruct (cf_callback (g_cf g)).
  - eapply trans_trans; [apply (trans_emit_other cz g (ECallback m (proj (g_sensors g)))); exact I|].
    simpl. destruct (cf_persist (g_cf g)); [apply trans_fields; reflexivity|apply trans_refl].
  - destruct (cf_persist (g_cf g)); [apply trans_fields; reflexivity|apply trans_refl].
Qed.

(* replacing the node stored under key k *)
Lemma trans_put_node cz g k nd nd' :
  get_node g k = Some nd -> n_id nd' = k -> node_step cz k nd nd' -> trans cz g (put_node g nd').
Proof.
  intros G E S. constructor; [reflexivity| | |].
  - exists []. rewrite app_nil_r. split; [reflexivity|constructor].
  - exists []. rewrite app_nil_r. split; [reflexivity|]. split; [constructor|reflexivity].
  - unfold nodes_step, get_node, put_node. simpl. rewrite E. split.
    + intros k0 nd0 H. rewrite zassoc_zset. destruct (Z.eqb_spec k0 k) as [->|N].
      * exists nd'. split; [reflexivity|]. unfold get_node in G. congruence.
      * exists nd0. split; [exact H|apply node_step_refl].
    + intros k0 nd0 H1 H2. rewrite zassoc_zset in H2. destruct (Z.eqb_spec k0 k) as [->|N].
      * unfold get_node in G. congruence.
      * congruence.
Qed.

Lemma trans_add_sensor cz g sid : trans cz g (add_sensor g sid).
Proof.
  unfold add_sensor. destruct (zhas sid (g_sensors g)) eqn:Z; [apply trans_refl|].
  constructor; [reflexivity| | |].
  - exists []. rewrite app_nil_r. split; [reflexivity|constructor].
  - exists []. rewrite app_nil_r. split; [reflexivity|]. split; [constructor|reflexivity].
  - unfold nodes_step, get_node. simpl. split.
    + intros k nd H. rewrite zassoc_app, H. exists nd. split; [reflexivity|apply node_step_refl].
    + intros k nd' H1 H2. rewrite zassoc_app, H1 in H2. simpl in H2.
      destruct (Z.eqb_spec k sid) as [->|N]; [|discriminate]. inversion H2. apply node_step_refl.
Qed.

(* ---------------------------------------------------------------- node-level steps *)
Lemma node_step_children cz k nd nd' :
  n_id nd' = n_id nd -> n_new nd' = n_new nd -> n_queue nd' = n_queue nd -> (kids_ok nd -> kids_ok nd') ->
  (forall c ch, zassoc c (n_children nd) = Some ch ->
     exists ch', zassoc c (n_children nd') = Some ch' /\ c_id ch' = c_id ch /\
                 forall vt, zhas vt (c_values ch) = true -> zhas vt (c_values ch') = true) ->
  node_step cz k nd nd'.
Proof.
  intros E1 E2 E3 KO C. unfold node_step, sleeping. rewrite E1, E2, E3.
  split; [reflexivity|]. split; [exact KO|]. split; [auto|]. split; [auto|]. split; [|split; [|exact C]].
  - intros _. split; [reflexivity|]. exists []. rewrite app_nil_r. reflexivity.
  - apply des_step_same. intros c vt. unfold desired. rewrite E2. reflexivity.
Qed.

(* writing one entry of an existing desired-state slot *)
Lemma with_new_slot_step cz k nd c vt x dv :
  zassoc c (n_new nd) = Some dv -> ((cz = CReport k c vt /\ x = None) \/ cz = CDesire k c vt) ->
  node_step cz k nd (with_new nd (zset c (zset vt x dv) (n_new nd))).
Proof.
  intros D CZ. unfold node_step. cbn [with_new n_id n_queue n_children].
  assert (SL : sleeping nd = true).
  { unfold sleeping. destruct (n_new nd); [discriminate D|reflexivity]. }
  assert (SL' : sleeping (with_new nd (zset c (zset vt x dv) (n_new nd))) = true).
  { rewrite sleeping_with_new. pose proof (zset_not_nil c (zset vt x dv) (n_new nd)) as NN.
    destruct (zset c (zset vt x dv) (n_new nd)); [contradiction|reflexivity]. }
  split; [reflexivity|]. split; [auto|]. split; [auto|]. split; [auto|]. split; [|split].
  - intros _. split; [congruence|]. exists []. rewrite app_nil_r. reflexivity.
  - intros c' vt' N2. unfold desired. cbn [with_new n_new]. rewrite zassoc_zset.
    destruct (Z.eqb_spec c' c) as [->|NC]; [|split; [left; reflexivity|reflexivity]].
    rewrite D, zassoc_zset. destruct (Z.eqb_spec vt' vt) as [->|NV]; [|split; [left; reflexivity|reflexivity]].
    destruct CZ as [[-> ->] | ->]; [|contradiction N2; reflexivity].
    (* a report: the entry is cleared *)
    split; [right; reflexivity|intro N1; contradiction N1; reflexivity].
  - intros c0 ch H. exists ch. auto.
Qed.

Lemma update_child_value_step k nd c vt p :
  node_step (CReport k c vt) k nd (update_child_value nd c vt p).
Proof.
  unfold update_child_value. destruct (zassoc c (n_children nd)) as [ch|] eqn:CH; [|apply node_step_refl].
  set (ch' := mkChild (c_id ch) (c_type ch) (c_desc ch) (zset vt (PS p) (c_values ch))).
  assert (S1 : node_step (CReport k c vt) k nd (with_children nd (zset c ch' (n_children nd)))).
  { apply node_step_children; try reflexivity.
    { intros KO c0 ch0. cbn [with_children n_children]. rewrite zassoc_zset.
      destruct (Z.eqb_spec c0 c) as [->|N]; [|apply KO]. intro H. inversion H. unfold ch'. cbn [c_id]. exact (KO _ _ CH). }
    intros c0 ch0 H. cbn [with_children n_children]. rewrite zassoc_zset.
    destruct (Z.eqb_spec c0 c) as [->|N]; [|exists ch0; auto].
    exists ch'. split; [reflexivity|]. rewrite CH in H. inversion H; subst ch0. split; [reflexivity|].
    intros vt0 Z. unfold ch'. cbn [c_values]. rewrite zhas_zset, Z. apply orb_true_r. }
  destruct (zassoc c (n_new nd)) as [dv|] eqn:D; [|exact S1].
  eapply node_step_trans; [exact S1|].
  apply (with_new_slot_step _ k (with_children nd (zset c ch' (n_children nd))) c vt None dv); [exact D|left; split; reflexivity].
Qed.


(* ---------------------------------------------------------------- the handlers *)
Section Handlers.
  Variable orc : oracles.
  Variable clock : Z.

  Lemma node_id_of g k nd : Inv orc g -> get_node g k = Some nd -> n_id nd = k.
  Proof. intros I G. destruct (get_node_ok orc g k nd I G) as [E _]. exact E. Qed.

  (* ---- route ---- *)
  Lemma route_trans g m : Inv orc g ->
    trans CNone g (fst (route g m)) /\
    (forall m', snd (route g m) = Some m' -> m' = m /\ fst (route g m) = g /\ allowed g CNone (encode m)).
  Proof.
    intro I. unfold route.
    destruct (m_type m =? vt_presentation (tab g)); [split; [apply trans_refl|discriminate]|].
    destruct (get_node g (m_node m)) as [nd|] eqn:G.
    - destruct (m_type m =? vt_stream (tab g)) eqn:ST; cbn [orb].
      + split; [apply trans_refl|]. intros m' H; simpl in H; injection H as <-. split; [reflexivity|]. split; [reflexivity|].
        exists m. split; [reflexivity|]. left. apply Z.eqb_eq. exact ST.
      + destruct (sleeping nd) eqn:SL; cbn [negb].
        * split; [|discriminate]. cbn [fst].
          apply (trans_put_node CNone g (m_node m) nd); [exact G|exact (node_id_of g _ _ I G)|].
          unfold node_step. cbn [n_id n_queue n_children]. unfold sleeping. cbn [n_new].
          split; [reflexivity|]. split; [auto|]. split; [auto|]. split; [|split; [|split; [apply des_step_same; reflexivity|]]].
          -- intro F. apply Forall_app. split; [exact F|]. constructor; [|constructor].
             exists m. split; reflexivity.
          -- intros _. split; [reflexivity|]. eexists. reflexivity.
          -- intros c ch H. exists ch. auto.
        * split; [apply trans_refl|]. intros m' H; simpl in H; injection H as <-. split; [reflexivity|]. split; [reflexivity|].
          exists m. split; [reflexivity|]. right. right. rewrite G. exact SL.
    - split; [apply trans_refl|]. intros m' H; simpl in H; injection H as <-. split; [reflexivity|]. split; [reflexivity|].
      exists m. split; [reflexivity|]. right. right. rewrite G. exact Logic.I.
  Qed.
  Lemma route_cf g m : g_cf (fst (route g m)) = g_cf g.
  Proof.
    unfold route. destruct (m_type m =? vt_presentation (tab g)); [reflexivity|].
    destruct (get_node g (m_node m)); [|reflexivity].
    destruct ((m_type m =? vt_stream (tab g)) || negb (sleeping n)); reflexivity.
  Qed.

  (* ---- is_sensor ---- *)
  Lemma is_sensor_trans g sid cid g1 b : Inv orc g -> is_sensor g sid cid = Ok (g1, b) -> trans CNone g g1.
  Proof.
    intros I. unfold is_sensor.
    match goal with |- context [negb ?r && _ && _] => generalize r end. intro ret.
    destruct (negb ret && node_id_ok sid && cf_ge20 (g_cf g)); [|intro H; inversion H; apply trans_refl].
    destruct (sassoc (s2p "I_PRESENTATION") (vt_internal_members (tab g))) as [ip|]; [|discriminate].
    set (m := mkMsg sid system_child_id (vt_internal (tab g)) 0 ip []).
    destruct (route_trans g m I) as [T A]. pose proof (route_cf g m) as C.
    destruct (route g m) as [g0 r]. cbn [fst snd] in *.
    intro H. inversion H; subst g1 b; clear H.
    destruct r as [m'|]; [|exact T].
    destruct (A m' eq_refl) as (-> & -> & AL).
    apply trans_add_job_send. exact AL.
  Qed.

  (* result of a handler: whenever it returns, the state moved by a `trans` *)
  Definition htrans (cz : cause) (g : gw) (r : res (gw * option msg)) : Prop :=
    forall g' rep, r = Ok (g', rep) -> trans cz g g'.

  Lemma htrans_ret cz g g' rep : trans cz g g' -> htrans cz g (Ok (g', rep)).
  Proof. intros T g2 rep2 H. inversion H; subst. exact T. Qed.
  Lemma htrans_mono cz g r : htrans CNone g r -> htrans cz g r.
  Proof. intros H g' rep E. apply trans_mono. eapply H. exact E. Qed.

  Lemma trans_put_same cz g k nd nd' : Inv orc g -> get_node g k = Some nd ->
    n_id nd' = n_id nd -> n_new nd' = n_new nd -> n_queue nd' = n_queue nd -> n_children nd' = n_children nd ->
    trans cz g (put_node g nd').
  Proof.
    intros I G E1 E2 E3 E4. apply (trans_put_node cz g k nd); [exact G| |apply node_step_same; assumption].
    rewrite E1. exact (node_id_of g k nd I G).
  Qed.

  Lemma handle_presentation_trans g m : facts g -> Inv orc g -> htrans CNone g (handle_presentation orc g m).
  Proof.
    intros F I. unfold handle_presentation.
    destruct (m_child m =? system_child_id).
    - destruct (get_node_add_sensor g (m_node m)) as [nd G]. rewrite G. apply htrans_ret.
      eapply trans_trans; [apply trans_add_sensor|]. eapply trans_trans; [|apply trans_alert].
      eapply trans_put_same; [apply Inv_add_sensor; exact I|exact G|reflexivity..].
    - destruct (is_sensor_ok orc g (m_node m) None F I) as (g1 & b & E & I1 & C1 & K). rewrite E. cbn [bind].
      pose proof (is_sensor_trans _ _ _ _ _ I E) as T1.
      destruct b; cbn [negb]; [|apply htrans_ret; exact T1].
      destruct (K eq_refl) as [-> [nd [G _]]]. rewrite G.
      destruct (zhas (m_child m) (n_children nd)) eqn:ZH; [apply htrans_ret; apply trans_refl|].
      apply htrans_ret. eapply trans_trans; [|apply trans_alert].
      apply (trans_put_node _ g (m_node m) nd); [exact G|exact (node_id_of g _ _ I G)|].
      apply node_step_children; try reflexivity.
      { intros KO c ch. cbn [with_children n_children]. rewrite zassoc_app.
        destruct (zassoc c (n_children nd)) as [ch0|] eqn:Z0; [intro H; inversion H; subst; exact (KO _ _ Z0)|].
        cbn [zassoc]. destruct (Z.eqb_spec c (m_child m)) as [->|N]; [|discriminate].
        intro H. inversion H. reflexivity. }
      intros c ch H. cbn [with_children n_children]. rewrite zassoc_app, H. exists ch. auto.
  Qed.

  Lemma handle_set_trans g m : facts g -> Inv orc g ->
    htrans (CReport (m_node m) (m_child m) (m_sub m)) g (handle_set g m).
  Proof.
    intros F I. unfold handle_set.
    destruct (is_sensor_ok orc g (m_node m) (Some (m_child m)) F I) as (g1 & b & E & I1 & C1 & K). rewrite E. cbn [bind].
    pose proof (is_sensor_trans _ _ _ _ _ I E) as T1.
    destruct b; cbn [negb]; [|apply htrans_ret; apply trans_mono; exact T1].
    destruct (K eq_refl) as [-> [nd [G _]]]. rewrite G.
    assert (T : trans (CReport (m_node m) (m_child m) (m_sub m)) g
                  (alert (put_node g (update_child_value nd (m_child m) (m_sub m) (m_payload m))) m)).
    { eapply trans_trans; [|apply trans_alert].
      apply (trans_put_node _ g (m_node m) nd); [exact G| |apply update_child_value_step].
      destruct (update_child_value_step (m_node m) nd (m_child m) (m_sub m) (m_payload m)) as [E1 _].
      rewrite E1. exact (node_id_of g _ _ I G). }
    destruct (n_reboot (update_child_value nd (m_child m) (m_sub m) (m_payload m))); [|apply htrans_ret; exact T].
    destruct (internal_member g "I_REBOOT"); cbn [bind]; [|discriminate].
    destruct (copy m _); cbn [bind]; [|discriminate]. apply htrans_ret. exact T.
  Qed.

  Lemma handle_req_trans g m : facts g -> Inv orc g -> htrans CNone g (handle_req g m).
  Proof.
    intros F I. unfold handle_req.
    destruct (is_sensor_ok orc g (m_node m) (Some (m_child m)) F I) as (g1 & b & E & I1 & C1 & K). rewrite E. cbn [bind].
    pose proof (is_sensor_trans _ _ _ _ _ I E) as T1.
    destruct b; cbn [negb]; [|apply htrans_ret; exact T1].
    destruct (K eq_refl) as [-> [nd [G _]]]. rewrite G.
    destruct (get_desired_value nd (m_child m) (m_sub m)); [|apply htrans_ret; apply trans_refl].
    destruct (copy m _); cbn [bind]; [|discriminate]. apply htrans_ret. apply trans_refl.
  Qed.

  Lemma handle_id_request_trans g m : htrans CNone g (handle_id_request g m).
  Proof.
    unfold handle_id_request. destruct (next_id g) as [nid|]; [|apply htrans_ret; apply trans_refl].
    destruct (negb (zhas nid (g_sensors (add_sensor g nid)))); [apply htrans_ret; apply trans_add_sensor|].
    destruct (internal_member g "I_ID_RESPONSE"); cbn [bind]; [|discriminate].
    destruct (copy m _); cbn [bind]; [|discriminate]. apply htrans_ret.
    eapply trans_trans; [apply trans_add_sensor|apply trans_alert].
  Qed.

  Lemma node_attr_trans f g m : facts g -> Inv orc g ->
    (forall nd p, n_id (f nd p) = n_id nd /\ n_new (f nd p) = n_new nd /\ n_queue (f nd p) = n_queue nd /\
                  n_children (f nd p) = n_children nd) ->
    htrans CNone g (node_attr_handler f g m).
  Proof.
    intros F I Hf. unfold node_attr_handler.
    destruct (is_sensor_ok orc g (m_node m) None F I) as (g1 & b & E & I1 & C1 & K). rewrite E. cbn [bind].
    pose proof (is_sensor_trans _ _ _ _ _ I E) as T1.
    destruct b; cbn [negb]; [|apply htrans_ret; exact T1].
    destruct (K eq_refl) as [-> [nd [G _]]]. rewrite G. apply htrans_ret.
    destruct (Hf nd (m_payload m)) as (H1 & H2 & H3 & H4).
    eapply trans_trans; [|apply trans_alert]. eapply trans_put_same; eassumption.
  Qed.

  Lemma respond_fw_config_trans g m : htrans CNone g (respond_fw_config g m).
  Proof.
    unfold respond_fw_config. destruct (fw_hex_to_int (m_payload m) 5); [|apply htrans_ret; apply trans_refl].
    destruct (ota_get_fw (g_ota g) (m_node m) true None) as [o' r].
    assert (T : trans CNone g (set_ota g o')) by (apply trans_fields; reflexivity).
    destruct r as [[[t v] f]|]; [|apply htrans_ret; exact T].
    destruct (stream_member g _); cbn [bind]; [|discriminate].
    destruct (copy m _); cbn [bind]; [|discriminate].
    destruct (fw_config_payload t v f); cbn [bind]; [|discriminate]. apply htrans_ret. exact T.
  Qed.

  Lemma respond_fw_trans g m : htrans CNone g (respond_fw g m).
  Proof.
    unfold respond_fw. destruct (fw_hex_to_int (m_payload m) 3) as [ws|e]; [|apply htrans_ret; apply trans_refl].
    destruct ws as [|rt [|rv [|rb [|x y]]]]; try (apply htrans_ret; apply trans_refl).
    destruct (ota_get_fw (g_ota g) (m_node m) false (Some (rt, rv))) as [o' r].
    assert (T : trans CNone g (set_ota g o')) by (apply trans_fields; reflexivity).
    destruct r as [[[t v] f]|]; [|apply htrans_ret; exact T].
    destruct (stream_member g _); cbn [bind]; [|discriminate].
    destruct (copy m _); cbn [bind]; [|discriminate].
    destruct (fw_response_payload t v rb f); cbn [bind]; [|discriminate]. apply htrans_ret. exact T.
  Qed.

  (* ---- the wake-up flush ---- *)
  Lemma allowed_ext g g' cz s : g_sensors g' = g_sensors g -> g_cf g' = g_cf g -> allowed g cz s -> allowed g' cz s.
  Proof. intros S C (m & E & H). exists m. split; [exact E|]. unfold tab, get_node in *. rewrite S, C. exact H. Qed.

  Lemma trans_fold_add_job cz ss : forall g, Forall (allowed g cz) ss -> trans cz g (fold_left add_job_send ss g).
  Proof.
    induction ss as [|s r IH]; intros g F; simpl; [apply trans_refl|].
    inversion F as [|? ? A F']; subst.
    eapply trans_trans; [apply trans_add_job_send; exact A|]. apply IH.
    destruct (add_job_send_frame g s) as (S & _ & C & _).
    eapply Forall_impl'; [|exact F']. intros x. apply allowed_ext; assumption.
  Qed.

  Lemma desired_msgs_node t nd : Forall (fun m => m_node m = n_id nd) (desired_msgs t nd).
  Proof.
    apply Forall_forall. intros m H. apply In_desired_msgs in H as (k & ch & vt & x & v & _ & _ & _ & ->). reflexivity.
  Qed.

  Lemma woken_step k nd : node_step (CWake k) k nd (woken nd).
  Proof.
    unfold node_step, woken. cbn [with_queue n_id n_queue n_children].
    split; [reflexivity|]. split; [auto|].
    split; [|split; [intros _; constructor|split; [intro N; contradiction N; reflexivity|split]]].
    - change (sleeping (with_queue (init_smart_sleep nd) [])) with (sleeping (init_smart_sleep nd)).
      rewrite init_sleeping. intro S. rewrite S. destruct (n_children nd); reflexivity.
    - apply des_step_same. intros c vt.
      change (desired (with_queue (init_smart_sleep nd) []) c vt) with (desired (init_smart_sleep nd) c vt).
      apply init_desired.
    - intros c ch H. exists ch. auto.
  Qed.

  Lemma handle_smartsleep_trans g k nd g2 : Inv orc g -> get_node g k = Some nd ->
    Forall (qentry k) (n_queue nd) -> handle_smartsleep orc g nd = Ok g2 -> trans (CWake k) g g2.
  Proof.
    intros I G Q H. rewrite (handle_smartsleep_closed orc g k nd I G) in H. inversion H; subst g2; clear H.
    pose proof (node_id_of g k nd I G) as ID.
    apply (trans_trans _ _ (put_node g (woken nd))).
    - apply (trans_put_node _ g k nd); [exact G|exact ID|apply woken_step].
    - apply trans_fold_add_job. unfold flush_strings, desired_sets. apply Forall_app. split.
      + eapply Forall_impl'; [|exact Q]. intros s (m0 & -> & E). exists m0. split; [reflexivity|].
        right. left. rewrite E. reflexivity.
      + apply Forall_forall. intros s IN. apply in_map_iff in IN as (m0 & <- & IN).
        pose proof (desired_msgs_node (tab g) (init_smart_sleep nd)) as DN. rewrite Forall_forall in DN.
        exists m0. split; [reflexivity|]. right. left. rewrite (DN _ IN). cbn. rewrite ID. reflexivity.
  Qed.

  Lemma handle_heartbeat_trans g m : facts g -> Inv orc g -> QInv g ->
    htrans (CWake (m_node m)) g (handle_heartbeat_response orc g m).
  Proof.
    intros F I Q. unfold handle_heartbeat_response.
    destruct (is_sensor_ok orc g (m_node m) None F I) as (g1 & b & E & I1 & C1 & K). rewrite E. cbn [bind].
    pose proof (is_sensor_trans _ _ _ _ _ I E) as T1.
    destruct b; cbn [negb]; [|apply htrans_ret; apply trans_mono; exact T1].
    destruct (K eq_refl) as [-> [nd [G _]]]. rewrite G.
    destruct (handle_smartsleep_ok orc g (m_node m) nd I G) as (g2 & E2 & I2 & C2 & nd2 & G2).
    rewrite E2. cbn [bind]. rewrite G2. apply htrans_ret.
    eapply trans_trans; [exact (handle_smartsleep_trans g _ nd g2 I G (Q _ _ G) E2)|].
    eapply trans_trans; [|apply trans_alert].
    eapply trans_put_same; [exact I2|exact G2|reflexivity..].
  Qed.

  Lemma handle_pre_sleep_trans g m : facts g -> Inv orc g -> QInv g ->
    htrans (CWake (m_node m)) g (handle_pre_sleep orc g m).
  Proof.
    intros F I Q. unfold handle_pre_sleep.
    destruct (is_sensor_ok orc g (m_node m) None F I) as (g1 & b & E & I1 & C1 & K). rewrite E. cbn [bind].
    pose proof (is_sensor_trans _ _ _ _ _ I E) as T1.
    destruct b; cbn [negb]; [|apply htrans_ret; apply trans_mono; exact T1].
    destruct (K eq_refl) as [-> [nd [G _]]]. rewrite G.
    destruct (handle_smartsleep orc g nd) as [g2|e] eqn:E2; cbn [bind]; [|discriminate].
    apply htrans_ret. exact (handle_smartsleep_trans g _ nd g2 I G (Q _ _ G) E2).
  Qed.

  Lemma handle_discover_trans g m : Inv orc g -> htrans CNone g (handle_discover_response g m).
  Proof.
    intros I. unfold handle_discover_response.
    destruct (is_sensor g (m_node m) None) as [[g1 b]|e] eqn:E; cbn [bind]; [|discriminate].
    apply htrans_ret. exact (is_sensor_trans _ _ _ _ _ I E).
  Qed.

  (* ---- leaves of the internal / stream dispatch ---- *)
  Definition leaf_cause (h : hfun) (m : msg) : cause :=
    match h with HHeartbeat | HPreSleep => CWake (m_node m) | _ => CNone end.

  Lemma run_leaf_trans h g m : facts g -> Inv orc g -> QInv g ->
    htrans (leaf_cause h m) g (run_leaf orc clock h g m).
  Proof.
    intros F I Q. destruct h; unfold run_leaf, leaf_cause; try (intros g' rep H; discriminate H).
    - apply respond_fw_config_trans.
    - apply respond_fw_trans.
    - apply handle_id_request_trans.
    - unfold handle_config. destruct (copy m _); cbn [bind]; [|discriminate]. apply htrans_ret. apply trans_refl.
    - unfold handle_time. destruct (copy m _); cbn [bind]; [|discriminate]. apply htrans_ret. apply trans_refl.
    - apply node_attr_trans; [assumption..|intros; repeat split; reflexivity].
    - apply node_attr_trans; [assumption..|intros; repeat split; reflexivity].
    - apply node_attr_trans; [assumption..|intros; repeat split; reflexivity].
    - apply htrans_ret. apply trans_refl.
    - unfold handle_gateway_ready. apply htrans_ret. apply trans_alert.
    - unfold handle_gateway_ready_20. destruct (internal_member g _); cbn [bind]; [|discriminate].
      destruct (copy m _); cbn [bind]; [|discriminate]. apply htrans_ret. apply trans_alert.
    - apply handle_heartbeat_trans; assumption.
    - apply handle_discover_trans; assumption.
    - apply node_attr_trans; [assumption..|intros; repeat split; reflexivity].
    - apply handle_pre_sleep_trans; assumption.
  Qed.

  (* ---- the cause of a processed line ---- *)
  Definition report_msg (t : vtab) (m : msg) : bool :=
    match type_handler t (m_type m) with Some HSet => true | _ => false end.
  Definition msg_cause (t : vtab) (m : msg) : cause :=
    if wake_msg t m then CWake (m_node m)
    else if report_msg t m then CReport (m_node m) (m_child m) (m_sub m)
    else CNone.
  Definition line_cause (g : gw) (l : pstr) : cause :=
    match decode l with
    | Some m => if gvalidate orc g m then msg_cause (tab g) m else CNone
    | None => CNone
    end.

  Lemma leaf_cause_msg t m h :
    (type_handler t (m_type m) = Some HInternal \/ type_handler t (m_type m) = Some HStream) ->
    sub_handler t (m_type m) (m_sub m) = Some h ->
    leaf_cause h m = CNone \/ leaf_cause h m = msg_cause t m.
  Proof.
    intros TH SH. unfold msg_cause, wake_msg, wake_ts.
    destruct TH as [-> | ->]; rewrite SH; destruct h; cbn; auto.
  Qed.

  Lemma htrans_leaf g m h r t :
    (type_handler t (m_type m) = Some HInternal \/ type_handler t (m_type m) = Some HStream) ->
    sub_handler t (m_type m) (m_sub m) = Some h ->
    htrans (leaf_cause h m) g r -> htrans (msg_cause t m) g r.
  Proof.
    intros TH SH H. destruct (leaf_cause_msg t m h TH SH) as [E|E]; rewrite E in H; [apply htrans_mono|]; exact H.
  Qed.

  Lemma handle_internal_trans g m : facts g -> Inv orc g -> QInv g ->
    type_handler (tab g) (m_type m) = Some HInternal ->
    htrans (msg_cause (tab g) m) g (handle_internal orc clock g m).
  Proof.
    intros F I Q TH. unfold handle_internal.
    destruct (sub_handler (tab g) (m_type m) (m_sub m)) as [h|] eqn:SH; [|apply htrans_ret; apply trans_refl].
    apply (htrans_leaf g m h _ (tab g)); [left; exact TH|exact SH|]. apply run_leaf_trans; assumption.
  Qed.

  Lemma handle_stream_trans g m : facts g -> Inv orc g -> QInv g ->
    type_handler (tab g) (m_type m) = Some HStream ->
    htrans (msg_cause (tab g) m) g (handle_stream orc clock g m).
  Proof.
    intros F I Q TH. unfold handle_stream.
    destruct (is_sensor_ok orc g (m_node m) None F I) as (g1 & b & E & I1 & C1 & K). rewrite E. cbn [bind].
    pose proof (is_sensor_trans _ _ _ _ _ I E) as T1.
    destruct b; cbn [negb]; [|apply htrans_ret; apply trans_mono; exact T1].
    destruct (K eq_refl) as [-> _].
    destruct (sub_handler (tab g) (m_type m) (m_sub m)) as [h|] eqn:SH; [|apply htrans_ret; apply trans_refl].
    destruct (run_leaf orc clock h g m) as [[g2 resp]|e] eqn:RL; cbn [bind]; [|intros ? ? H; discriminate H].
    apply htrans_ret. eapply trans_trans; [|apply trans_alert].
    assert (H : htrans (msg_cause (tab g) m) g (run_leaf orc clock h g m)).
    { apply (htrans_leaf g m h _ (tab g)); [right; exact TH|exact SH|]. apply run_leaf_trans; assumption. }
    exact (H _ _ RL).
  Qed.

  (* ---- the dispatcher ---- *)
  Theorem logic_trans g l g' reply : cfg_ok (g_cf g) -> Inv orc g -> QInv g ->
    logic orc clock g l = Ok (g', reply) ->
    trans (line_cause g l) g g' /\ (forall r, reply = Some r -> allowed g (line_cause g l) r).
  Proof.
    intros C I Q. pose proof (facts_of_cfg g C) as F. unfold logic, line_cause.
    destruct (decode l) as [m|] eqn:D; [|intro H; inversion H; split; [apply trans_refl|discriminate]].
    pose proof (decoded_payload_wire_ok _ _ D) as W.
    destruct (gvalidate orc g m) eqn:V; cbn [negb]; [|intro H; inversion H; split; [apply trans_refl|discriminate]].
    pose proof (validated_type_range orc g m C V) as B.
    assert (H : exists h, type_handler (tab g) (m_type m) = Some h /\ hres_ok orc g (run_handler orc clock h g m) /\
                          htrans (msg_cause (tab g) m) g (run_handler orc clock h g m)).
    { destruct (type_handler_cases g (m_type m) F B) as [[_ E]|[[_ E]|[[_ E]|[[_ E]|[_ E]]]]];
        eexists; (split; [exact E|]); unfold run_handler.
      - split; [apply handle_presentation_ok; assumption|].
        unfold msg_cause, wake_msg, wake_ts, report_msg. rewrite E. apply handle_presentation_trans; assumption.
      - split; [apply handle_set_ok; assumption|].
        unfold msg_cause, wake_msg, wake_ts, report_msg. rewrite E. apply handle_set_trans; assumption.
      - split; [apply handle_req_ok; assumption|].
        unfold msg_cause, wake_msg, wake_ts, report_msg. rewrite E. apply handle_req_trans; assumption.
      - split; [apply handle_internal_ok; assumption|]. apply handle_internal_trans; assumption.
      - split; [apply handle_stream_ok; assumption|]. apply handle_stream_trans; assumption. }
    destruct H as (h & E & (g1 & rep & E1 & I1 & C1) & HT). rewrite E, E1. cbn [bind].
    pose proof (HT _ _ E1) as T1.
    destruct rep as [mr|]; cbn [route_opt].
    - destruct (route_trans g1 mr I1) as [T2 A2].
      destruct (route g1 mr) as [g2 routed]. cbn [fst snd] in *.
      intro H. inversion H; subst g' reply; clear H. split.
      + eapply trans_trans; [exact T1|apply trans_mono; exact T2].
      + intros r R. destruct routed as [m'|]; [|discriminate]. simpl in R. inversion R; subst r.
        destruct (A2 m' eq_refl) as (-> & _ & AL).
        apply (allowed_back _ g g1); [exact C1|exact (t_nodes _ _ _ T1)|apply allowed_mono; exact AL].
    - intro H. inversion H; subst g' reply; clear H. split; [exact T1|discriminate].
  Qed.

  (* ---- invariants carried by nodes_step ---- *)
  Definition IdInv (g : gw) : Prop := forall k nd, get_node g k = Some nd -> n_id nd = k.

  Lemma IdInv_of_Inv g : Inv orc g -> IdInv g.
  Proof. intros I k nd G. exact (node_id_of g k nd I G). Qed.

  Lemma nodes_step_IdInv cz g g' : nodes_step cz g g' -> IdInv g -> IdInv g'.
  Proof.
    intros [A N] Q k nd' G'. destruct (get_node g k) as [nd|] eqn:G.
    - destruct (A _ _ G) as (nd2 & G2 & (E & _)). rewrite G' in G2. inversion G2; subst nd2.
      rewrite E. exact (Q _ _ G).
    - destruct (N _ _ G G') as (E & _). exact E.
  Qed.

  Lemma nodes_step_QInv cz g g' : nodes_step cz g g' -> QInv g -> QInv g'.
  Proof.
    intros [A N] Q k nd' G'. destruct (get_node g k) as [nd|] eqn:G.
    - destruct (A _ _ G) as (nd2 & G2 & (_ & _ & _ & QQ & _)). rewrite G' in G2. inversion G2; subst nd2.
      apply QQ. exact (Q _ _ G).
    - destruct (N _ _ G G') as (_ & _ & _ & QQ & _). apply QQ. constructor.
  Qed.

  Definition CInv (g : gw) : Prop := forall k nd, get_node g k = Some nd -> kids_ok nd.

  Lemma nodes_step_CInv cz g g' : nodes_step cz g g' -> CInv g -> CInv g'.
  Proof.
    intros [A N] Q k nd' G'. destruct (get_node g k) as [nd|] eqn:G.
    - destruct (A _ _ G) as (nd2 & G2 & (_ & KK & _)). rewrite G' in G2. inversion G2; subst nd2.
      apply KK. exact (Q _ _ G).
    - destruct (N _ _ G G') as (_ & KK & _). apply KK. intros c ch H. discriminate H.
  Qed.

  (* ---- controller calls ---- *)
  Definition desire_cause (sid cid : Z) (vt : vtarg) : cause :=
    match vt_int vt with Some vti => CDesire sid cid vti | None => CNone end.

  Lemma create_set_message_node g nid cid vt v mt a m :
    create_set_message orc g nid cid vt v mt a = Ok m -> m_node m = nid.
  Proof.
    unfold create_set_message. destruct (vt_int vt); [|discriminate].
    destruct (gvalidate orc g _); [|discriminate]. intro H. inversion H. reflexivity.
  Qed.

  Lemma set_child_value_trans g sid cid vt v mt a g' : facts g -> Inv orc g ->
    set_child_value orc g sid cid vt v mt a = Ok g' -> trans (desire_cause sid cid vt) g g'.
  Proof.
    intros F I. unfold set_child_value.
    destruct (is_sensor_ok orc g sid (Some cid) F I) as (g1 & b & E & I1 & C1 & K). rewrite E. cbn [bind].
    pose proof (is_sensor_trans _ _ _ _ _ I E) as T1.
    destruct b; cbn [negb]; [|intro H; inversion H; subst; apply trans_mono; exact T1].
    destruct (K eq_refl) as [-> [nd [G _]]]. rewrite G.
    pose proof (node_id_of g sid nd I G) as ID.
    destruct (sleeping nd) eqn:SL.
    - destruct (create_set_message orc g (n_id nd) cid vt v None None); cbn [bind]; [|discriminate].
      destruct (zassoc cid (n_new nd)) as [dv|] eqn:D; [|discriminate].
      destruct (validate_child_state orc nd cid vt v); cbn [bind]; [|discriminate].
      unfold desire_cause. destruct (vt_int vt) as [vti|]; [|discriminate].
      intro H. inversion H; subst g'; clear H.
      apply (trans_put_node _ g sid nd); [exact G|exact ID|].
      apply with_new_slot_step; [exact D|right; reflexivity].
    - destruct (create_set_message orc g (n_id nd) cid vt v mt a) as [m0|] eqn:CM; cbn [bind]; [|discriminate].
      intro H. inversion H; subst g'; clear H. apply trans_mono. apply trans_add_job_send.
      exists m0. split; [reflexivity|]. right. right.
      rewrite (create_set_message_node _ _ _ _ _ _ _ _ CM), ID, G. exact SL.
  Qed.

  Lemma update_one_trans t v g nid : IdInv g -> trans CNone g (update_one t v g nid).
  Proof.
    intros Q. unfold update_one. destruct (get_node g nid) as [nd|] eqn:G; [|apply trans_refl].
    match goal with |- trans _ _ (put_node ?x _) => apply (trans_trans _ _ x) end;
      [apply trans_fields; reflexivity|].
    apply (trans_put_node _ _ nid nd); [exact G|exact (Q _ _ G)|apply node_step_same; reflexivity].
  Qed.

  Lemma update_fold_trans t v nids : forall g, IdInv g -> trans CNone g (fold_left (update_one t v) nids g).
  Proof.
    induction nids as [|nid r IH]; intros g Q; simpl; [apply trans_refl|].
    pose proof (update_one_trans t v g nid Q) as T1.
    eapply trans_trans; [exact T1|]. apply IH. exact (nodes_step_IdInv _ _ _ (t_nodes _ _ _ T1) Q).
  Qed.

  Lemma update_fw_trans g nids fwt fwv bin g' : Inv orc g -> update_fw g nids fwt fwv bin = Ok g' -> trans CNone g g'.
  Proof.
    intros I. unfold update_fw.
    assert (R : forall x, Ok g = Ok x -> trans CNone g x) by (intros x H; inversion H; apply trans_refl).
    destruct bin as [[|b0 br]|]; [apply R| |].
    all: destruct (vt_int fwt) as [t|]; [|apply R]; destruct (vt_int fwv) as [v|]; [|apply R];
         destruct (negb ((0 <=? t) && (t <=? 65535)) || negb ((0 <=? v) && (v <=? 65535))); [apply R|].
    all: match goal with |- context [fw_lookup _ _ ?fwl] => set (FWL := fwl) end.
    all: set (g0 := set_ota g (mkOta FWL (o_requested (g_ota g)) (o_unstarted (g_ota g)) (o_started (g_ota g))));
         assert (T0 : trans CNone g g0) by (apply trans_fields; reflexivity);
         destruct (fw_lookup t v FWL); [|intro H; inversion H; subst; exact T0].
    all: intro H; inversion H; subst g'; clear H;
         change (trans CNone g (fold_left (update_one t v) nids g0));
         eapply trans_trans; [exact T0|]; apply update_fold_trans;
         intros k nd G; exact (node_id_of g k nd I G).
  Qed.

  (* ---- steps of the machine ---- *)
  Definition finish (g1 : gw) (reply : option pstr) : gw :=
    match reply with Some r => send g1 r | None => g1 end.

  Lemma trans_then_send cz g g1 r : trans cz g g1 -> allowed g cz r -> trans cz g (send g1 r).
  Proof.
    intros [C (d & L & F) J N] A. unfold send. destruct r as [|c r]; [constructor; [exact C|exists d; split; assumption|exact J|exact N]|].
    constructor; [exact C| |exact J|exact N].
    exists (d ++ [ESend (c :: r)]). split; [simpl; rewrite L, app_assoc; reflexivity|].
    apply Forall_app. split; [exact F|]. constructor; [exact A|constructor].
  Qed.

  Theorem logic_finish_trans g l g1 reply : cfg_ok (g_cf g) -> Inv orc g -> QInv g ->
    logic orc clock g l = Ok (g1, reply) -> trans (line_cause g l) g (finish g1 reply).
  Proof.
    intros C I Q E. destruct (logic_trans g l g1 reply C I Q E) as [T A].
    destruct reply as [r|]; [|exact T]. simpl. apply trans_then_send; [exact T|]. apply A. reflexivity.
  Qed.

  Definition op_cause (g : gw) (o : op) : cause :=
    match o with
    | Recv l => if cf_async (g_cf g) then line_cause g l else CNone
    | Pump => match g_jobs g with JLogic l :: _ => line_cause g l | _ => CNone end
    | SetChild s c vt _ _ _ => desire_cause s c vt
    | _ => CNone
    end.

  (* the job queue a step starts from: a pump iteration pops the head first *)
  Definition jobs_base (g : gw) (o : op) : list job :=
    match o with Pump => tl (g_jobs g) | _ => g_jobs g end.
  (* a send that an EARLIER step queued is handed to the transport by this pump iteration *)
  Definition queued_send (g : gw) (o : op) (s : pstr) : Prop := o = Pump /\ exists r, g_jobs g = JSend s :: r.
  (* threaded flavour: an arriving line is queued for the pump *)
  Definition queued_line (g : gw) (o : op) (x : job) : Prop :=
    exists l, o = Recv l /\ cf_async (g_cf g) = false /\ x = JLogic l.

  Record strans (g : gw) (o : op) (g' : gw) : Prop := mkStrans {
    s_cf : g_cf g' = g_cf g;
    s_log : exists d, g_log g' = g_log g ++ d /\
              Forall (fun e => ev_allowed g (op_cause g o) e \/ exists s, e = ESend s /\ queued_send g o s) d;
    s_jobs : exists j, g_jobs g' = jobs_base g o ++ j /\
              Forall (fun x => job_allowed g (op_cause g o) x \/ queued_line g o x) j;
    s_nodes : nodes_step (op_cause g o) g g' }.

  Lemma strans_of_trans g o g0 g' :
    g_cf g0 = g_cf g -> g_sensors g0 = g_sensors g -> g_log g0 = g_log g -> g_jobs g0 = jobs_base g o ->
    trans (op_cause g o) g0 g' -> strans g o g'.
  Proof.
    intros C S L J [C' (d & L' & F) (j & J' & G & _) [A N]].
    constructor; [congruence| | |].
    - exists d. split; [congruence|]. eapply Forall_impl'; [|exact F].
      intros [s|m t|e] H; left; simpl in *; auto. apply (allowed_ext g0 g); auto.
    - exists j. split; [congruence|]. eapply Forall_impl'; [|exact G].
      intros [l|s] H; left; simpl in *; auto. apply (allowed_ext g0 g); auto.
    - unfold nodes_step, get_node in *. rewrite S in A, N. split; assumption.
  Qed.

  Theorem step_strans g o : cfg_ok (g_cf g) -> Inv orc g -> QInv g -> op_ok o -> strans g o (step orc clock g o).
  Proof.
    intros C I Q O. pose proof (facts_of_cfg g C) as F.
    destruct o as [l| |s c vt v mt a|ns t v b|b]; cbn [step].
    - unfold recv. destruct (cf_async (g_cf g)) eqn:AS.
      + destruct (logic_total orc clock g l C I) as (g1 & r & E & _). rewrite E.
        apply (strans_of_trans g (Recv l) g); try reflexivity.
        unfold op_cause. rewrite AS. exact (logic_finish_trans g l g1 r C I Q E).
      + constructor; [reflexivity| | |apply nodes_step_eq; reflexivity].
        * exists []. rewrite app_nil_r. split; [reflexivity|constructor].
        * exists [JLogic l]. split; [reflexivity|]. constructor; [|constructor].
          right. exists l. auto.
    - unfold pump. destruct (g_jobs g) as [|[l|l] r] eqn:J.
      + apply (strans_of_trans g Pump g); try reflexivity; [simpl; rewrite J; reflexivity|apply trans_refl].
      + set (g0 := set_jobs g r).
        destruct (logic_total orc clock g0 l C (Inv_set_jobs orc g r I)) as (g1 & rep & E & _). rewrite E.
        apply (strans_of_trans g Pump g0); try reflexivity; [simpl; rewrite J; reflexivity|].
        unfold op_cause. rewrite J.
        exact (logic_finish_trans g0 l g1 rep C (Inv_set_jobs orc g r I) Q E).
      + constructor; [rewrite cf_send; reflexivity| | |].
        * unfold send. destruct l as [|c0 l0].
          -- exists []. rewrite app_nil_r. split; [reflexivity|constructor].
          -- exists [ESend (c0 :: l0)]. split; [reflexivity|]. constructor; [|constructor].
             right. exists (c0 :: l0). split; [reflexivity|]. split; [reflexivity|]. exists r. exact J.
        * exists []. rewrite app_nil_r. split; [|constructor].
          destruct (send_frame (set_jobs g r) l) as (_&_&_&JJ&_). rewrite JJ. simpl. rewrite J. reflexivity.
        * apply nodes_step_eq. destruct (send_frame (set_jobs g r) l) as (SS&_). rewrite SS. reflexivity.
    - apply (strans_of_trans g _ g); try reflexivity. unfold op_cause.
      destruct (set_child_value orc g s c vt v mt a) as [g'|e] eqn:E.
      + exact (set_child_value_trans g s c vt v mt a g' F I E).
      + apply trans_emit_other. exact Logic.I.
    - apply (strans_of_trans g _ g); try reflexivity. unfold op_cause.
      destruct (update_fw g ns t v b) as [g'|e] eqn:E.
      + exact (update_fw_trans g ns t v b g' I E).
      + apply trans_emit_other. exact Logic.I.
    - apply (strans_of_trans g _ g); try reflexivity. apply trans_fields; reflexivity.
  Qed.

  (* ---- every reachable state ---- *)
  Lemma QInv_init cf : QInv (gw_init cf).
  Proof. intros k nd H. discriminate H. Qed.
  Lemma CInv_init cf : CInv (gw_init cf).
  Proof. intros k nd H. discriminate H. Qed.

  Lemma run_sleep_inv ops : forall g, cfg_ok (g_cf g) -> Inv orc g -> QInv g -> CInv g -> Forall op_ok ops ->
    Inv orc (run orc clock g ops) /\ QInv (run orc clock g ops) /\ CInv (run orc clock g ops) /\
    g_cf (run orc clock g ops) = g_cf g.
  Proof.
    induction ops as [|o ops IH]; intros g C I Q K F; [auto|].
    inversion F as [|? ? O F']; subst.
    destruct (step_ok orc clock g o C I O) as [I1 C1].
    pose proof (step_strans g o C I Q O) as ST.
    pose proof (nodes_step_QInv _ _ _ (s_nodes _ _ _ ST) Q) as Q1.
    pose proof (nodes_step_CInv _ _ _ (s_nodes _ _ _ ST) K) as K1.
    unfold run. simpl. fold (run orc clock (step orc clock g o) ops).
    destruct (IH (step orc clock g o)) as (I2 & Q2 & K2 & C2); try assumption; [rewrite C1; exact C|].
    split; [exact I2|]. split; [exact Q2|]. split; [exact K2|congruence].
  Qed.

  Theorem reachable_sleep_inv cf ops : cfg_ok cf -> Forall op_ok ops ->
    let g := run orc clock (gw_init cf) ops in Inv orc g /\ QInv g /\ CInv g /\ g_cf g = cf.
  Proof.
    intros C F. exact (run_sleep_inv ops (gw_init cf) C (Inv_init orc cf) (QInv_init cf) (CInv_init cf) F).
  Qed.
End Handlers.
