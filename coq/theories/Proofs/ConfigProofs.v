(* C18 - the version selection of the model meets the floor rule. *)
From Coq Require Import List NArith ZArith Bool Lia Arith String.
From PMS Require Import Base.PyStr Base.PyInt Base.Exn Proofs.PyStrFacts
  Model.ConfigSyntax Model.ConfigVersion Model.Config Model.ConfigCheck
  Spec.ConfigSpec Proofs.ConfigOrder Gen.Signatures.
Import ListNotations.
Open Scope N_scope.
Open Scope list_scope.

(* ---- awesomeversion's comparison of dotted numeric strings is the numeric one,
   except that its == is equality of the strings *)
Lemma base_cmp_cmpr a : forall b,
  base_cmp a b = match cmpr a b with Gt => Some true | Lt => Some false | Eq => None end.
Proof.
  induction a as [|x a IH]; intros b.
  - destruct b; simpl; [reflexivity|]. unfold nonzero, nz. simpl.
    destruct (negb (n =? 0) || existsb (fun x => negb (x =? 0)) b); reflexivity.
  - destruct b as [|y b].
    + simpl. unfold nonzero, nz. simpl.
      destruct (negb (x =? 0) || existsb (fun x => negb (x =? 0)) a); reflexivity.
    + simpl. destruct (N.eqb_spec x y) as [->|Hxy].
      * rewrite N.compare_refl. apply IH.
      * destruct (x ?= y) eqn:E.
        -- apply N.compare_eq in E. congruence.
        -- rewrite N.compare_lt_iff in E. assert (H : y <? x = false) by (apply N.ltb_ge; lia).
           rewrite H. reflexivity.
        -- rewrite N.compare_gt_iff in E. assert (H : y <? x = true) by (apply N.ltb_lt; lia).
           rewrite H. reflexivity.
Qed.

Theorem av_gt_num_spec a b :
  av_gt_num a b = match cmpv (sections a) (sections b) with Gt => true | _ => false end.
Proof.
  unfold av_gt_num. destruct (pstr_eqb a b) eqn:E.
  - apply pstr_eqb_eq in E. subst b. rewrite cmpv_refl. reflexivity.
  - rewrite base_cmp_cmpr, <- cmpv_cmpr. destruct (cmpv (sections a) (sections b)); reflexivity.
Qed.

Theorem av_lt_num_spec a b :
  av_lt_num a b = match cmpv (sections a) (sections b) with Lt => true | _ => false end.
Proof.
  unfold av_lt_num. destruct (pstr_eqb a b) eqn:E.
  - apply pstr_eqb_eq in E. subst b. rewrite cmpv_refl. reflexivity.
  - rewrite base_cmp_cmpr, <- cmpv_cmpr, (cmpv_antisym (sections a) (sections b)).
    destruct (cmpv (sections a) (sections b)); reflexivity.
Qed.

(* the quirk that made D18: >= is "same string or greater" *)
Example av_ge_quirk :
  av_num OpGe (s2p "2.0.0") (s2p "2.0") = false /\ av_num OpLt (s2p "2.0.0") (s2p "2.0") = false.
Proof. vm_compute. auto. Qed.

Lemma not_lt_is_le a b : negb (av_lt_num a b) = le_numb (sections b) (sections a).
Proof.
  rewrite av_lt_num_spec. unfold le_numb. rewrite (cmpv_antisym (sections a) (sections b)).
  destruct (cmpv (sections a) (sections b)); reflexivity.
Qed.

Lemma not_gt_is_le a b : negb (av_gt_num a b) = le_numb (sections a) (sections b).
Proof. rewrite av_gt_num_spec. unfold le_numb. destruct (cmpv (sections a) (sections b)); reflexivity. Qed.

Section WithOracle.
Variable orc : avop -> pstr -> pstr -> option bool.
Variable cont : pstr -> bool.

(* ---- the three generated tests, on dotted numeric input.  The proofs accept any
   spelling of the test that means the same (operands swapped, negated, ...):
   the test is first given its numeric meaning, then compared with the wanted
   one by cases on the comparison of the sections. *)
Definition op_sem (op : avop) (same : bool) (c : comparison) : bool :=
  match op with
  | OpLt => match c with Lt => true | _ => false end
  | OpGt => match c with Gt => true | _ => false end
  | OpEq => same
  | OpNe => negb same
  | OpLe => same || match c with Lt => true | _ => false end
  | OpGe => same || match c with Gt => true | _ => false end
  end.

Lemma av_num_sem op l r :
  av_num op l r = op_sem op (pstr_eqb l r) (cmpv (sections l) (sections r)).
Proof. destruct op; simpl; rewrite ?av_lt_num_spec, ?av_gt_num_spec; reflexivity. Qed.

Lemma eval_vtest_num t v k :
  dotted_numeric (side_val (vt_l t) v k) = true -> dotted_numeric (side_val (vt_r t) v k) = true ->
  eval_vtest orc t v k =
  Some (xorb (vt_neg t)
          (op_sem (vt_op t) (pstr_eqb (side_val (vt_l t) v k) (side_val (vt_r t) v k))
             (cmpv (sections (side_val (vt_l t) v k)) (sections (side_val (vt_r t) v k))))).
Proof.
  intros Hl Hr. unfold eval_vtest, av_cmp. rewrite Hl, Hr. cbn [andb option_map].
  rewrite av_num_sem. reflexivity.
Qed.

Ltac side_dotted H := cbn [vt_l vt_r side_val]; first [exact H | assumption | vm_compute; reflexivity].

Lemma get_const_test_num v k : dotted_numeric v = true -> dotted_numeric k = true ->
  eval_vtest orc get_const_test v k = Some (le_numb (sections k) (sections v)).
Proof.
  intros Hv Hk. unfold get_const_test. rewrite eval_vtest_num by side_dotted Hv.
  cbn [vt_neg vt_op vt_l vt_r side_val op_sem]. unfold le_numb.
  rewrite ?(cmpv_antisym (sections v) (sections k)).
  destruct (cmpv (sections v) (sections k)); reflexivity.
Qed.

Lemma is_version_test_num v : dotted_numeric v = true ->
  eval_vtest orc is_version_test v [] = Some (negb (le_numb [1; 4] (sections v))).
Proof.
  intros Hv. unfold is_version_test. rewrite eval_vtest_num by side_dotted Hv.
  cbn [vt_neg vt_op vt_l vt_r side_val op_sem]. unfold le_numb.
  replace (sections (s2p "1.4")) with [1; 4] by (vm_compute; reflexivity).
  rewrite ?(cmpv_antisym (sections v) [1; 4]).
  destruct (cmpv (sections v) [1; 4]); reflexivity.
Qed.

Lemma is_sensor_test_num v : dotted_numeric v = true ->
  eval_vtest orc is_sensor_test v [] = Some (le_numb [2; 0] (sections v)).
Proof.
  intros Hv. unfold is_sensor_test. rewrite eval_vtest_num by side_dotted Hv.
  cbn [vt_neg vt_op vt_l vt_r side_val op_sem]. unfold le_numb.
  replace (sections (s2p "2.0")) with [2; 0] by (vm_compute; reflexivity).
  rewrite ?(cmpv_antisym (sections v) [2; 0]).
  destruct (cmpv (sections v) [2; 0]); reflexivity.
Qed.

(* ---- get_const scans the keys in the generated order *)
Fixpoint pick (sv : list N) (l : list (list N * option pstr)) : res pstr :=
  match l with
  | [] => Ok get_const_default
  | (c, m) :: r => if le_numb c sv then of_option KeyError m else pick sv r
  end.

Lemma get_const_pick v ks : dotted_numeric v = true -> forallb dotted_numeric ks = true ->
  (do m <- first_match orc v ks;
   match m with Some k => of_option KeyError (assoc k const_versions) | None => Ok get_const_default end)
  = pick (sections v) (map (fun k => (sections k, assoc k const_versions)) ks).
Proof.
  intros Hv. induction ks as [|k ks IH]; intro Hks; [reflexivity|].
  simpl in Hks. apply andb_prop in Hks. destruct Hks as [Hk Hks].
  cbn [first_match map pick]. rewrite (get_const_test_num v k Hv Hk).
  destruct (le_numb (sections k) (sections v)); [reflexivity|]. apply IH. exact Hks.
Qed.

(* side conditions on the generated table, re-checked on every build *)
Lemma iter_keys_dotted : forallb dotted_numeric iter_keys = true.
Proof. vm_compute. reflexivity. Qed.

Lemma iter_keys_table :
  map (fun k => (sections k, assoc k const_versions)) iter_keys =
  [ ([2; 2], Some (s2p "mysensors.const_22")); ([2; 1], Some (s2p "mysensors.const_21"));
    ([2; 0], Some (s2p "mysensors.const_20")); ([1; 5], Some (s2p "mysensors.const_15"));
    ([1; 4], Some (s2p "mysensors.const_14")) ].
Proof. vm_compute. reflexivity. Qed.

Lemma gen_supported_is_spec : gen_supported = supported.
Proof. vm_compute. reflexivity. Qed.

Lemma defaults_are_spec :
  get_const_default = fallback_module /\ sections safe_fallback = fallback_version
  /\ sections sensor_default_version = fallback_version.
Proof. vm_compute. auto. Qed.

(* monotonicity of "c <= v" in c, for the closed comparisons used below *)
Lemma flag_mono c1 c2 v : le_numb c1 c2 = true -> le_numb c2 v = true -> le_numb c1 v = true.
Proof. rewrite !le_numb_iff. apply le_num_trans. Qed.

Ltac flags v :=
  destruct (le_numb [1; 4] v) eqn:E14; destruct (le_numb [1; 5] v) eqn:E15;
  destruct (le_numb [2; 0] v) eqn:E20; destruct (le_numb [2; 1] v) eqn:E21;
  destruct (le_numb [2; 2] v) eqn:E22.

(* get_const = the floor function of the specification *)
Theorem get_const_floor v : dotted_numeric v = true ->
  get_const orc v = Ok (floor_module (sections v)).
Proof.
  intro Hv. unfold get_const. rewrite (get_const_pick v iter_keys Hv iter_keys_dotted), iter_keys_table.
  unfold floor_module. cbn [pick supported floor_from].
  flags (sections v); reflexivity.
Qed.

(* safe_is_version keeps a version that is numerically >= 1.4 and replaces any older one *)
Theorem safe_is_version_num v : dotted_numeric v = true ->
  safe_is_version orc cont (VStr v) = Ok (if le_numb [1; 4] (sections v) then v else s2p "1.4").
Proof.
  intro Hv. unfold safe_is_version, safe_is_version_with, is_version_with, is_container. cbn [py_str].
  rewrite Hv. cbn [negb andb]. rewrite andb_false_r. rewrite (is_version_test_num v Hv).
  destruct (le_numb [1; 4] (sections v)); reflexivity.
Qed.

Lemma older_than_all v : le_numb [1; 4] v = false -> floor_module v = fallback_module.
Proof.
  intro E. unfold floor_module. cbn [supported floor_from].
  assert (H15 : le_numb [1; 5] v = false).
  { destruct (le_numb [1; 5] v) eqn:X; [|reflexivity]. rewrite (flag_mono [1; 4] [1; 5] v) in E; [discriminate|reflexivity|exact X]. }
  assert (H20 : le_numb [2; 0] v = false).
  { destruct (le_numb [2; 0] v) eqn:X; [|reflexivity]. rewrite (flag_mono [1; 4] [2; 0] v) in E; [discriminate|reflexivity|exact X]. }
  assert (H21 : le_numb [2; 1] v = false).
  { destruct (le_numb [2; 1] v) eqn:X; [|reflexivity]. rewrite (flag_mono [1; 4] [2; 1] v) in E; [discriminate|reflexivity|exact X]. }
  assert (H22 : le_numb [2; 2] v = false).
  { destruct (le_numb [2; 2] v) eqn:X; [|reflexivity]. rewrite (flag_mono [1; 4] [2; 2] v) in E; [discriminate|reflexivity|exact X]. }
  rewrite E, H15, H20, H21, H22. reflexivity.
Qed.

(* what a gateway configured with a dotted numeric version uses *)
Theorem gateway_const_floor v : dotted_numeric v = true ->
  gateway_const orc cont (VStr v) = Ok (floor_module (sections v)).
Proof.
  intro Hv. unfold gateway_const. rewrite (safe_is_version_num v Hv).
  destruct (le_numb [1; 4] (sections v)) eqn:E; cbn [bind].
  - apply get_const_floor. exact Hv.
  - rewrite (older_than_all _ E). rewrite get_const_floor by (vm_compute; reflexivity).
    vm_compute. reflexivity.
Qed.

(* the ">= 2.0" test of is_sensor, applied to the gateway's stored version *)
Theorem wants_presentation_num v : dotted_numeric v = true ->
  (do s <- safe_is_version orc cont (VStr v); wants_presentation orc s)
  = Ok (le_numb [2; 0] (sections v)).
Proof.
  intro Hv. rewrite (safe_is_version_num v Hv).
  destruct (le_numb [1; 4] (sections v)) eqn:E; cbn [bind]; unfold wants_presentation.
  - rewrite (is_sensor_test_num v Hv). reflexivity.
  - rewrite is_sensor_test_num by (vm_compute; reflexivity).
    replace (le_numb [2; 0] (sections (s2p "1.4"))) with false by (vm_compute; reflexivity).
    destruct (le_numb [2; 0] (sections v)) eqn:X; [|reflexivity].
    rewrite (flag_mono [1; 4] [2; 0] (sections v)) in E; [discriminate|reflexivity|exact X].
Qed.

(* ... and it agrees with the selected table being a 2.x one *)
Theorem ge20_iff_2x_table v : le_numb [2; 0] v = is_2x (floor_module v).
Proof.
  unfold floor_module. cbn [supported floor_from].
  flags v; cbn -[le_numb]; try reflexivity;
  first
    [ rewrite (flag_mono [2; 0] [2; 1] v) in E20; [discriminate|reflexivity|assumption]
    | rewrite (flag_mono [2; 0] [2; 2] v) in E20; [discriminate|reflexivity|assumption] ].
Qed.

(* the same selection is applied to the version a node presents *)
Theorem node_same_rule (v : val) : node_const orc cont v = gateway_const orc cont v.
Proof.
  unfold node_const, gateway_const, sensor_set_version, sensor_setter.
  destruct (safe_is_version orc cont v); reflexivity.
Qed.

(* is_version's test on a value whose str() is not dotted numeric is the oracle's verdict *)
Lemma is_version_test_oracle (s : pstr) : dotted_numeric s = false ->
  eval_vtest orc is_version_test s [] =
  option_map (xorb (vt_neg is_version_test))
    (orc (vt_op is_version_test) (side_val (vt_l is_version_test) s []) (side_val (vt_r is_version_test) s [])).
Proof.
  intro Hd. unfold eval_vtest, av_cmp, is_version_test. cbn [vt_neg vt_op vt_l vt_r side_val].
  rewrite Hd, ?andb_false_r. cbn [andb]. reflexivity.
Qed.

(* a container word ("latest", "dev", "stable", "beta"), anything the library
   cannot compare, and anything it finds older than 1.4 falls back to 1.4 *)
Theorem nonnumeric_fallback (v : val) :
  dotted_numeric (py_str v) = false ->
  (cont (py_str v) = true
   \/ eval_vtest orc is_version_test (py_str v) [] = None
   \/ eval_vtest orc is_version_test (py_str v) [] = Some true) ->
  safe_is_version orc cont v = Ok (s2p "1.4")
  /\ gateway_const orc cont v = Ok fallback_module /\ node_const orc cont v = Ok fallback_module.
Proof.
  intros Hd Ho.
  assert (Hs : safe_is_version orc cont v = Ok (s2p "1.4")).
  { unfold safe_is_version, safe_is_version_with, is_version_with, is_container, is_version_rejects_container.
    rewrite Hd. cbn [negb andb].
    destruct (cont (py_str v)) eqn:Ec; [reflexivity|].
    destruct Ho as [Ho | [-> | ->]]; [discriminate| |]; reflexivity. }
  split; [exact Hs|]. rewrite node_same_rule. split; unfold gateway_const; rewrite Hs; cbn [bind];
    (rewrite get_const_floor by (vm_compute; reflexivity)); vm_compute; reflexivity.
Qed.

(* ... and anything else it accepts is kept as written *)
Theorem nonnumeric_accepted (v : val) :
  is_container cont (py_str v) = false ->
  eval_vtest orc is_version_test (py_str v) [] = Some false ->
  safe_is_version orc cont v = Ok (py_str v).
Proof.
  intros Hc Ho. unfold safe_is_version, safe_is_version_with, is_version_with.
  rewrite Hc, andb_false_r, Ho. reflexivity.
Qed.

End WithOracle.

(* ---- history (finding version/container-word, repaired by b5ee08d): awesomeversion's
   SpecialContainer words compare greater than every numeric version.  Before the
   fix is_version had no container test (is_version_with false): with the library's
   verdict on such a word (container_orc; the harness checks it against
   awesomeversion on every run) the digit-free string "dev" was kept and selected
   the 2.2 constants.  With the test the same oracle falls back to 1.4. *)
Definition container_orc (w : pstr) : avop -> pstr -> pstr -> option bool :=
  fun op l r =>
    if pstr_eqb l w then Some (match op with OpGt | OpGe | OpNe => true | _ => false end)
    else if pstr_eqb r w then Some (match op with OpLt | OpLe | OpNe => true | _ => false end)
    else None.

Lemma nonnumeric_fallback_unfixed_refuted :
  exists (orc : avop -> pstr -> pstr -> option bool) (cont : pstr -> bool) (v : val),
    dotted_numeric (py_str v) = false
    /\ forallb (fun c => negb (is_digit c)) (py_str v) = true
    /\ cont (py_str v) = true
    /\ safe_is_version_with orc cont false v = Ok (py_str v)
    /\ get_const orc (py_str v) = Ok (s2p "mysensors.const_22")
    /\ safe_is_version orc cont v = Ok (s2p "1.4").
Proof.
  exists (container_orc (s2p "dev")), (fun s => pstr_eqb s (s2p "dev")), (VStr (s2p "dev")).
  vm_compute. repeat split.
Qed.

(* ---- what counts as a dotted numeric string *)
Example sections_examples :
  sections (s2p "2.0.5") = [2; 0; 5] /\ sections (s2p "02.00") = [2; 0] /\ sections (s2p "2") = [2]
  /\ dotted_numeric (s2p "2.10.0.7") = true /\ dotted_numeric (s2p "2.") = false
  /\ dotted_numeric (s2p "2.0-beta") = false /\ dotted_numeric [] = false.
Proof. vm_compute. repeat split. Qed.
