(* C05, theorems 1, 2, 4: every handler in closed form against the reply table. *)
From Coq Require Import List NArith ZArith Bool String Lia.
From PMS Require Import Base.PyStr Base.PyInt Base.Exn Model.Codec Model.Rules Model.TableTypes
  Gen.Tables Model.Validate Model.Hex Model.Ota Model.Oracles Model.Gateway Spec.SerialApi Spec.ReplyTable
  Proofs.PyStrFacts Proofs.PyIntFacts Proofs.CodecProofs Proofs.ValidateProofs Proofs.GwLemmas Proofs.GwInv
  Proofs.ReplyBase.
Import ListNotations.
Open Scope string_scope.
Open Scope list_scope.
Open Scope Z_scope.

(* ---- node updates that routing does not see ---- *)
Lemma zset_nonnil {A} k (a : A) l : zset k a l <> [].
Proof. destruct l as [|[k' a'] l]; simpl; [discriminate|]. destruct (Z.eqb k k'); discriminate. Qed.

Lemma ucv_id nd c vt p : n_id (update_child_value nd c vt p) = n_id nd.
Proof.
  unfold update_child_value. destruct (zassoc c (n_children nd)); [|reflexivity].
  destruct (zassoc c (n_new nd)); reflexivity.
Qed.
Lemma ucv_queue nd c vt p : n_queue (update_child_value nd c vt p) = n_queue nd.
Proof.
  unfold update_child_value. destruct (zassoc c (n_children nd)); [|reflexivity].
  destruct (zassoc c (n_new nd)); reflexivity.
Qed.
Lemma ucv_reboot nd c vt p : n_reboot (update_child_value nd c vt p) = n_reboot nd.
Proof.
  unfold update_child_value. destruct (zassoc c (n_children nd)); [|reflexivity].
  destruct (zassoc c (n_new nd)); reflexivity.
Qed.
Lemma ucv_sleeping nd c vt p : sleeping (update_child_value nd c vt p) = sleeping nd.
Proof.
  unfold update_child_value. destruct (zassoc c (n_children nd)); [|reflexivity].
  destruct (zassoc c (n_new nd)) as [dv|] eqn:E; [|reflexivity].
  unfold sleeping. simpl.
  pose proof (zset_nonnil c (zset vt None dv) (n_new nd)) as NZ.
  destruct (zset c (zset vt None dv) (n_new nd)); [contradiction|].
  destruct (n_new nd); [discriminate E|reflexivity].
Qed.

Section Reply.
  Variable orc : oracles.
  Variable clock : Z.
  Variable v : ver.

  Notation vw g := (view_of clock g).

  (* ---- Gateway.is_sensor ---- *)
  Definition guard_ok (g : gw) (sid : Z) (cid : option Z) : bool :=
    zhas sid (g_sensors g) && match cid with None => true | Some c => vw_child (vw g) sid c end.

  (* what an unknown node / child costs: a presentation request, to a valid node id only *)
  Definition unknown_req (sid : Z) : list msg := if node_id_ok sid then unknown_reply v sid else [].

  Lemma unknown_req_in sid : 0 <= sid <= 255 -> unknown_req sid = unknown_reply v sid.
  Proof. intro R. unfold unknown_req. rewrite (node_id_ok_of sid R). reflexivity. Qed.

  Lemma is_sensor_closed g sid cid : cfgv v g ->
    is_sensor g sid cid =
    Ok (if guard_ok g sid cid then (g, true)
        else if node_id_ok sid && v_ge20 v then (deliver g (presentation_request sid), false) else (g, false)).
  Proof.
    intro C. pose proof C as [T GE]. unfold is_sensor.
    set (ret := match get_node g sid with
                | Some nd => match cid with Some c => zhas c (n_children nd) | None => true end
                | None => false end).
    assert (R : ret = guard_ok g sid cid).
    { subst ret. unfold guard_ok, zhas. cbn [vw_child view_of]. unfold get_node.
      destruct (zassoc sid (g_sensors g)); [destruct cid; reflexivity|reflexivity]. }
    rewrite R. clear R. clearbody ret.
    destruct (guard_ok g sid cid); cbn [negb andb]; [reflexivity|].
    destruct (node_id_ok sid); cbn [andb]; [|reflexivity].
    rewrite GE, (ge20_eq v). destruct (v_ge20 v) eqn:G; [|reflexivity].
    rewrite (cfgv_tab v g C). rewrite k_presentation_req by (rewrite ge20_eq; exact G). rewrite k_internal.
    unfold deliver. change (mkMsg sid system_child_id 3 0 19 []) with (presentation_request sid).
    destruct (route g (presentation_request sid)) as [gg [r|]]; reflexivity.
  Qed.

  (* any node id (controller calls): nothing is asked of an id outside 0..255 *)
  Lemma is_sensor_eff_any g sid cid g1 b : cfgv v g -> Inv orc g ->
    is_sensor g sid cid = Ok (g1, b) ->
    b = guard_ok g sid cid /\ heff g g1 (if b then [] else unknown_req sid) /\ (b = true -> g1 = g).
  Proof.
    intros C I H. rewrite (is_sensor_closed g sid cid C) in H.
    destruct (guard_ok g sid cid).
    - inversion H; subst g1 b. split; [reflexivity|]. split; [apply heff_refl|reflexivity].
    - unfold unknown_req, unknown_reply.
      destruct (node_id_ok sid); cbn [andb] in H;
        [|inversion H; subst g1 b; split; [reflexivity|]; split; [apply heff_refl|discriminate]].
      destruct (v_ge20 v); inversion H; subst g1 b; (split; [reflexivity|]); (split; [|discriminate]).
      + apply (heff_deliver orc v); [exact C|exact I|reflexivity].
      + apply heff_refl.
  Qed.

  (* a valid node id (every validated inbound message): the reply table's unknown_reply *)
  Lemma is_sensor_eff g sid cid g1 b : cfgv v g -> Inv orc g -> 0 <= sid <= 255 ->
    is_sensor g sid cid = Ok (g1, b) ->
    b = guard_ok g sid cid /\ heff g g1 (if b then [] else unknown_reply v sid) /\ (b = true -> g1 = g).
  Proof.
    intros C I R H. rewrite <- (unknown_req_in sid R). exact (is_sensor_eff_any g sid cid g1 b C I H).
  Qed.

  Lemma guard_node g n : guard_ok g n None = known (vw g) n.
  Proof. unfold guard_ok. rewrite known_view, andb_true_r. reflexivity. Qed.
  Lemma guard_child g n c : guard_ok g n (Some c) = known (vw g) n && vw_child (vw g) n c.
  Proof. unfold guard_ok. rewrite known_view. reflexivity. Qed.

  Lemma guard_get g n cid : guard_ok g n cid = true ->
    exists nd, get_node g n = Some nd /\ forall c, cid = Some c -> zhas c (n_children nd) = true.
  Proof.
    unfold guard_ok. intro H. apply andb_true_iff in H as [H1 H2]. apply zhas_true in H1 as [nd G].
    exists nd. split; [exact G|]. intros c ->. cbn [vw_child view_of] in H2. unfold get_node in H2 |- *.
    rewrite G in H2. exact H2.
  Qed.

  (* put back a node whose id, queue and sleeping status are unchanged; then alert *)
  Lemma heff_put_alert g n nd nd' m : Inv orc g -> get_node g n = Some nd ->
    n_id nd' = n_id nd -> n_queue nd' = n_queue nd -> sleeping nd' = sleeping nd ->
    heff g (alert (put_node g nd') m) [].
  Proof.
    intros I G E1 E2 E3. pose proof (get_node_ok orc g _ _ I G) as [K _]. simpl in K.
    eapply heff_trans_l; [|apply heff_alert].
    apply (heff_put_node g nd nd'); [rewrite E1, K; exact G|exact E2|exact E3].
  Qed.

  Lemma override_eta m r :
    override m r = mkMsg (ov (r_node r) (m_node m)) (ov (r_child r) (m_child m)) (ov (r_type r) (m_type m))
                         (ov (r_ack r) (m_ack m)) (ov (r_sub r) (m_sub m)) (ov (r_payload r) (m_payload m)).
  Proof. reflexivity. Qed.

  (* ---- set ---- *)
  Lemma handle_set_eff g m g1 rep : cfgv v g -> Inv orc g -> 0 <= m_node m <= 255 -> wire_ok (m_payload m) = true -> m_type m = 1 ->
    handle_set g m = Ok (g1, rep) ->
    exists N, heff g g1 N /\ N ++ olist_np rep = prescribed v (vw g) m.
  Proof.
    intros C I RN W Ty. unfold handle_set.
    destruct (is_sensor g (m_node m) (Some (m_child m))) as [[g0 b]|e] eqn:IS; cbn [bind]; [|discriminate].
    destruct (is_sensor_eff _ _ _ _ _ C I RN IS) as (B & HE & GG).
    unfold prescribed. rewrite Ty. change (1 =? 0) with false. change (1 =? 1) with true. cbv iota.
    rewrite <- guard_child, <- B.
    destruct b; cbn [negb].
    - specialize (GG eq_refl). subst g0. symmetry in B. destruct (guard_get _ _ _ B) as (nd & G & _). rewrite G.
      rewrite ucv_reboot. cbn [vw_reboot view_of]. rewrite G.
      assert (HP : heff g (alert (put_node g (update_child_value nd (m_child m) (m_sub m) (m_payload m))) m) []).
      { apply (heff_put_alert g (m_node m) nd); [exact I|exact G|apply ucv_id|apply ucv_queue|apply ucv_sleeping]. }
      destruct (n_reboot nd).
      + unfold internal_member. rewrite (cfgv_tab v g C), k_reboot, k_internal. cbn [of_option bind].
        rewrite copy_spec by exact W. cbn [bind]. intro H. inversion H; subst g1 rep. exists []. split; [exact HP|].
        reflexivity.
      + intro H. inversion H; subst g1 rep. exists []. split; [exact HP|reflexivity].
    - intro H. inversion H; subst g1 rep. exists (unknown_reply v (m_node m)). split; [exact HE|]. apply app_nil_r.
  Qed.

  (* ---- req ---- *)
  Lemma desired_value_view g n nd c s : get_node g n = Some nd -> zhas c (n_children nd) = true ->
    option_map py_str (get_desired_value nd c s) = answer_value (vw g) n c s.
  Proof.
    intros G H. unfold get_desired_value, answer_value. cbn [vw_sleeping vw_desired vw_reported view_of].
    unfold vsleep. rewrite G. apply zhas_true in H as [ch E]. rewrite E.
    destruct (sleeping nd); [|reflexivity].
    destruct (zassoc c (n_new nd)) as [dv|]; [|reflexivity].
    destruct (zassoc s dv) as [[x|]|]; reflexivity.
  Qed.

  Lemma handle_req_eff g m g1 rep : cfgv v g -> Inv orc g -> 0 <= m_node m <= 255 -> wire_ok (m_payload m) = true -> m_type m = 2 ->
    handle_req g m = Ok (g1, rep) ->
    exists N, heff g g1 N /\ N ++ olist_np rep = prescribed v (vw g) m.
  Proof.
    intros C I RN W Ty. unfold handle_req.
    destruct (is_sensor g (m_node m) (Some (m_child m))) as [[g0 b]|e] eqn:IS; cbn [bind]; [|discriminate].
    destruct (is_sensor_eff _ _ _ _ _ C I RN IS) as (B & HE & GG).
    unfold prescribed. rewrite Ty. change (2 =? 0) with false. change (2 =? 1) with false.
    change (2 =? 2) with true. cbv iota.
    rewrite <- guard_child, <- B.
    destruct b; cbn [negb].
    - specialize (GG eq_refl). subst g0. symmetry in B. destruct (guard_get _ _ _ B) as (nd & G & K). rewrite G.
      rewrite <- (desired_value_view g (m_node m) nd (m_child m) (m_sub m) G (K _ eq_refl)).
      destruct (get_desired_value nd (m_child m) (m_sub m)) as [x|]; cbn [option_map].
      + rewrite copy_spec by exact W. cbn [bind]. intro H. inversion H; subst g1 rep. exists []. split; [apply heff_refl|].
        rewrite (cfgv_tab v g C), k_set. reflexivity.
      + intro H. inversion H; subst g1 rep. exists []. split; [apply heff_refl|reflexivity].
    - intro H. inversion H; subst g1 rep. exists (unknown_reply v (m_node m)). split; [exact HE|]. apply app_nil_r.
  Qed.

  (* ---- presentation ---- *)
  Lemma handle_presentation_eff g m g1 rep : cfgv v g -> Inv orc g -> 0 <= m_node m <= 255 -> m_type m = 0 ->
    handle_presentation orc g m = Ok (g1, rep) ->
    exists N, heff g g1 N /\ N ++ olist_np rep = prescribed v (vw g) m.
  Proof.
    intros C I RN Ty. unfold handle_presentation. unfold prescribed. rewrite Ty. change (0 =? 0) with true. cbv iota.
    rewrite sys255. destruct (m_child m =? 255).
    - destruct (get_node (add_sensor g (m_node m)) (m_node m)) as [nd|] eqn:G; [|discriminate].
      intro H. inversion H; subst g1 rep. exists []. split.
      + eapply heff_trans_l; [apply heff_add_sensor|].
        apply (heff_put_alert _ (m_node m) nd); try reflexivity; [apply Inv_add_sensor; exact I|exact G].
      + unfold olist_np. rewrite Ty. reflexivity.
    - destruct (is_sensor g (m_node m) None) as [[g0 b]|e] eqn:IS; cbn [bind]; [|discriminate].
      destruct (is_sensor_eff _ _ _ _ _ C I RN IS) as (B & HE & GG).
      rewrite <- guard_node, <- B.
      destruct b; cbn [negb].
      + specialize (GG eq_refl). subst g0. symmetry in B. destruct (guard_get _ _ _ B) as (nd & G & _). rewrite G.
        destruct (zhas (m_child m) (n_children nd)).
        * intro H. inversion H; subst g1 rep. exists []. split; [apply heff_refl|reflexivity].
        * intro H. inversion H; subst g1 rep. exists []. split.
          -- apply (heff_put_alert g (m_node m) nd); try reflexivity; assumption.
          -- unfold olist_np. rewrite Ty. reflexivity.
      + intro H. inversion H; subst g1 rep. exists (unknown_reply v (m_node m)). split; [exact HE|]. apply app_nil_r.
  Qed.

  (* ---- internal ---- *)
  Definition need_node (g : gw) (m : msg) : list msg :=
    if known (vw g) (m_node m) then [] else unknown_reply v (m_node m).

  Lemma node_attr_eff f g m g1 rep : cfgv v g -> Inv orc g -> 0 <= m_node m <= 255 ->
    (forall nd p, n_id (f nd p) = n_id nd /\ n_queue (f nd p) = n_queue nd /\ sleeping (f nd p) = sleeping nd) ->
    node_attr_handler f g m = Ok (g1, rep) ->
    exists N, heff g g1 N /\ N ++ olist_np rep = need_node g m.
  Proof.
    intros C I RN Hf. unfold node_attr_handler, need_node.
    destruct (is_sensor g (m_node m) None) as [[g0 b]|e] eqn:IS; cbn [bind]; [|discriminate].
    destruct (is_sensor_eff _ _ _ _ _ C I RN IS) as (B & HE & GG).
    rewrite <- guard_node, <- B.
    destruct b; cbn [negb].
    - specialize (GG eq_refl). subst g0. symmetry in B. destruct (guard_get _ _ _ B) as (nd & G & _). rewrite G.
      intro H. inversion H; subst g1 rep. exists []. split; [|reflexivity].
      destruct (Hf nd (m_payload m)) as (E1 & E2 & E3).
      apply (heff_put_alert g (m_node m) nd); assumption.
    - intro H. inversion H; subst g1 rep. exists (unknown_reply v (m_node m)). split; [exact HE|]. apply app_nil_r.
  Qed.

  (* a handler that starts with the node guard, when the guard fails *)
  Lemma guard_fails g m g0 b : cfgv v g -> Inv orc g -> 0 <= m_node m <= 255 -> known (vw g) (m_node m) = false ->
    is_sensor g (m_node m) None = Ok (g0, b) ->
    b = false /\ heff g g0 (need_node g m).
  Proof.
    intros C I RN K IS. destruct (is_sensor_eff _ _ _ _ _ C I RN IS) as (B & HE & _).
    rewrite guard_node, K in B. subst b. split; [reflexivity|]. unfold need_node. rewrite K. exact HE.
  Qed.

  Lemma next_id_spec g : cfgv v g -> next_id g = spec_next_id (vw_ids (vw g)).
  Proof.
    intro C. unfold next_id, spec_next_id. rewrite (cfgv_tab v g C), k_max_node. cbn [vw_ids view_of].
    destruct (g_sensors g) as [|[k a] l]; reflexivity.
  Qed.

  Lemma action_sub s a : internal_action v s = a ->
    match a with
    | Time => s = 1 | Config => s = 6 | IdRequest => s = 3
    | Discover => s = 14 /\ v_ge20 v = true
    | _ => True
    end.
  Proof.
    unfold internal_action. intro H. subst a.
    destruct v; cbn [v_ge20 andb];
    repeat match goal with
           | |- context [if ?a =? ?b then _ else _] => destruct (Z.eqb_spec a b)
           | |- context [if (?a =? ?b) || _ then _ else _] => destruct (Z.eqb_spec a b); cbn [orb andb]
           | |- context [if (?a =? ?b) && _ then _ else _] => destruct (Z.eqb_spec a b); cbn [orb andb]
           end; try exact Logic.I; try assumption; try (split; [assumption|reflexivity]).
  Qed.

  Lemma handle_id_request_eff g m g1 rep : cfgv v g -> Inv orc g -> wire_ok (m_payload m) = true -> m_type m = 3 ->
    handle_id_request g m = Ok (g1, rep) ->
    exists N, heff g g1 N /\
      N ++ olist_np rep = match spec_next_id (vw_ids (vw g)) with
                          | Some i => [mkMsg (m_node m) (m_child m) 3 0 4 (print i)]
                          | None => []
                          end.
  Proof.
    intros C I W Ty. unfold handle_id_request. rewrite (next_id_spec g C).
    destruct (spec_next_id (vw_ids (vw g))) as [nid|].
    - destruct (get_node_add_sensor g nid) as [nd G]. unfold zhas. unfold get_node in G. rewrite G. cbn [negb].
      unfold internal_member. rewrite (cfgv_tab v g C), k_id_response. cbn [of_option bind].
      rewrite copy_spec by exact W. cbn [bind]. intro H. inversion H; subst g1 rep. exists []. split.
      + eapply heff_trans_l; [apply heff_add_sensor|apply heff_alert].
      + unfold olist_np. rewrite override_eta. cbn [ov r_node r_child r_type r_ack r_sub r_payload m_type].
        rewrite Ty. reflexivity.
    - intro H. inversion H; subst g1 rep. exists []. split; [apply heff_refl|reflexivity].
  Qed.

  Lemma handle_internal_eff g m g1 rep : cfgv v g -> Inv orc g -> 0 <= m_node m <= 255 -> wire_ok (m_payload m) = true -> m_type m = 3 ->
    between 0 (max_sub v 3) (m_sub m) = true -> wakes_up v (vw g) m = false ->
    handle_internal orc clock g m = Ok (g1, rep) ->
    exists N, heff g g1 N /\ N ++ olist_np rep = prescribed v (vw g) m.
  Proof.
    intros C I RN W Ty B WU. unfold handle_internal. rewrite (cfgv_tab v g C), Ty.
    pose proof (internal_resolution v _ B) as A.
    unfold wakes_up in WU. rewrite Ty in WU. change (3 =? 3) with true in WU. cbn [andb] in WU.
    unfold prescribed. rewrite Ty. change (3 =? 0) with false. change (3 =? 1) with false.
    change (3 =? 2) with false. change (3 =? 3) with true. cbv iota.
    fold (need_node g m).
    pose proof (action_sub (m_sub m) _ eq_refl) as AS.
    destruct (sub_handler (tab_of v) 3 (m_sub m)) as [h|]; [destruct h|]; cbn [act_of] in A; try discriminate A;
      injection A as A; rewrite <- A in *; unfold run_leaf.
    - (* id request *) apply handle_id_request_eff; assumption.
    - (* config *) unfold handle_config. rewrite copy_spec by exact W. cbn [bind]. intro H. inversion H; subst g1 rep.
      exists []. split; [apply heff_refl|]. unfold olist_np. rewrite override_eta.
      cbn [ov r_node r_child r_type r_ack r_sub r_payload m_type]. rewrite Ty, AS. reflexivity.
    - (* time *) unfold handle_time. rewrite copy_spec by exact W. cbn [bind]. intro H. inversion H; subst g1 rep.
      exists []. split; [apply heff_refl|]. unfold olist_np. rewrite override_eta.
      cbn [ov r_node r_child r_type r_ack r_sub r_payload m_type]. rewrite Ty, AS. reflexivity.
    - (* battery *) apply node_attr_eff; try assumption. intros; repeat split; reflexivity.
    - apply node_attr_eff; try assumption. intros; repeat split; reflexivity.
    - apply node_attr_eff; try assumption. intros; repeat split; reflexivity.
    - (* log *) intro H. inversion H; subst g1 rep. exists []. split; [apply heff_refl|reflexivity].
    - (* gateway ready < 2.0 *) unfold handle_gateway_ready. intro H. inversion H; subst g1 rep.
      exists []. split; [apply heff_alert|reflexivity].
    - (* gateway ready >= 2.0 *) destruct AS as [AS GE]. unfold handle_gateway_ready_20, internal_member.
      rewrite (cfgv_tab v g C), k_discover by (rewrite ge20_eq; exact GE). cbn [of_option bind].
      rewrite copy_spec by exact W. cbn [bind]. intro H. inversion H; subst g1 rep.
      exists []. split; [apply heff_alert|]. unfold olist_np. rewrite override_eta.
      cbn [ov r_node r_child r_type r_ack r_sub r_payload m_type]. rewrite Ty. reflexivity.
    - (* heartbeat response 2.0/2.1: only for an unknown node here *)
      rewrite andb_true_r in WU. unfold handle_heartbeat_response.
      destruct (is_sensor g (m_node m) None) as [[g0 b]|e] eqn:IS; cbn [bind]; [|discriminate].
      destruct (guard_fails g m g0 b C I RN WU IS) as [-> HE]. cbn [negb]. intro H. inversion H; subst g1 rep.
      exists (need_node g m). split; [exact HE|apply app_nil_r].
    - (* discover response *) unfold handle_discover_response.
      destruct (is_sensor g (m_node m) None) as [[g0 b]|e] eqn:IS; cbn [bind]; [|discriminate].
      destruct (is_sensor_eff _ _ _ _ _ C I RN IS) as (Bb & HE & GG). cbn [fst].
      intro H. inversion H; subst g1 rep. unfold need_node. rewrite <- guard_node, <- Bb.
      destruct b; [exists []|exists (unknown_reply v (m_node m))]; (split; [exact HE|]); [reflexivity|apply app_nil_r].
    - (* heartbeat 2.2 *) apply node_attr_eff; try assumption. intros; repeat split; reflexivity.
    - (* pre-sleep: only for an unknown node here *)
      rewrite andb_true_r in WU. unfold handle_pre_sleep.
      destruct (is_sensor g (m_node m) None) as [[g0 b]|e] eqn:IS; cbn [bind]; [|discriminate].
      destruct (guard_fails g m g0 b C I RN WU IS) as [-> HE]. cbn [negb]. intro H. inversion H; subst g1 rep.
      exists (need_node g m). split; [exact HE|apply app_nil_r].
    - (* no handler registered *) intro H. inversion H; subst g1 rep. exists []. split; [apply heff_refl|reflexivity].
  Qed.

  (* ---- stream (OTA): closed up to the payload, which C09/C10 determine ---- *)
  Lemma respond_fw_config_eff g m g2 resp : cfgv v g -> wire_ok (m_payload m) = true ->
    respond_fw_config g m = Ok (g2, resp) ->
    heff g g2 [] /\
    olist resp = match vw_fw_config (vw g) m with
                 | Some p => [mkMsg (m_node m) (m_child m) (m_type m) (m_ack m) 1 p]
                 | None => []
                 end.
  Proof.
    intros C W H. cbn [vw_fw_config view_of]. rewrite H. revert H. unfold respond_fw_config.
    destruct (fw_hex_to_int (m_payload m) 5); [|intro H; inversion H; subst g2 resp; split; [apply heff_refl|reflexivity]].
    destruct (ota_get_fw (g_ota g) (m_node m) true None) as [o' r].
    destruct r as [[[t x] f]|]; [|intro H; inversion H; subst g2 resp; split; [apply heff_set_ota|reflexivity]].
    unfold stream_member. rewrite (cfgv_tab v g C), k_fw_config_response. cbn [of_option bind].
    rewrite copy_spec by exact W. cbn [bind].
    destruct (fw_config_payload t x f) as [p|e]; cbn [bind]; [|discriminate].
    intro H. inversion H; subst g2 resp. split; [apply heff_set_ota|reflexivity].
  Qed.

  Lemma respond_fw_eff g m g2 resp : cfgv v g -> wire_ok (m_payload m) = true ->
    respond_fw g m = Ok (g2, resp) ->
    heff g g2 [] /\
    olist resp = match vw_fw_block (vw g) m with
                 | Some p => [mkMsg (m_node m) (m_child m) (m_type m) (m_ack m) 3 p]
                 | None => []
                 end.
  Proof.
    intros C W H. cbn [vw_fw_block view_of]. rewrite H. revert H. unfold respond_fw.
    destruct (fw_hex_to_int (m_payload m) 3) as [ws|e]; [|intro H; inversion H; subst g2 resp; split; [apply heff_refl|reflexivity]].
    destruct ws as [|rt [|rv [|rb [|x y]]]]; try (intro H; inversion H; subst g2 resp; split; [apply heff_refl|reflexivity]).
    destruct (ota_get_fw (g_ota g) (m_node m) false (Some (rt, rv))) as [o' r].
    destruct r as [[[t x] f]|]; [|intro H; inversion H; subst g2 resp; split; [apply heff_set_ota|reflexivity]].
    unfold stream_member. rewrite (cfgv_tab v g C), k_fw_response. cbn [of_option bind].
    rewrite copy_spec by exact W. cbn [bind].
    destruct (fw_response_payload t x rb f) as [p|e]; cbn [bind]; [|discriminate].
    intro H. inversion H; subst g2 resp. split; [apply heff_set_ota|reflexivity].
  Qed.

  Lemma handle_stream_eff g m g1 rep : cfgv v g -> Inv orc g -> 0 <= m_node m <= 255 -> wire_ok (m_payload m) = true -> m_type m = 4 ->
    between 0 (max_sub v 4) (m_sub m) = true ->
    handle_stream orc clock g m = Ok (g1, rep) ->
    exists N, heff g g1 N /\ N ++ olist_np rep = prescribed v (vw g) m.
  Proof.
    intros C I RN W Ty B. unfold handle_stream.
    destruct (is_sensor g (m_node m) None) as [[g0 b]|e] eqn:IS; cbn [bind]; [|discriminate].
    destruct (is_sensor_eff _ _ _ _ _ C I RN IS) as (Bb & HE & GG).
    unfold prescribed. rewrite Ty. change (4 =? 0) with false. change (4 =? 1) with false.
    change (4 =? 2) with false. change (4 =? 3) with false. cbv iota.
    rewrite <- guard_node, <- Bb.
    destruct b; cbn [negb].
    - specialize (GG eq_refl). subst g0.
      rewrite (cfgv_tab v g C), (stream_resolution v _ B). unfold stream_expected.
      destruct (m_sub m =? 0).
      + unfold run_leaf. destruct (respond_fw_config g m) as [[g2 resp]|e] eqn:R; cbn [bind]; [|discriminate].
        destruct (respond_fw_config_eff _ _ _ _ C W R) as [H2 OL]. rewrite Ty in OL.
        intro H. inversion H; subst g1 rep. exists []. split; [eapply heff_trans_l; [exact H2|apply heff_alert]|].
        rewrite <- OL. destruct resp as [r|]; [|reflexivity].
        cbn [app olist_np olist]. destruct (vw_fw_config (vw g) m); inversion OL. reflexivity.
      + destruct (m_sub m =? 2).
        * unfold run_leaf. destruct (respond_fw g m) as [[g2 resp]|e] eqn:R; cbn [bind]; [|discriminate].
          destruct (respond_fw_eff _ _ _ _ C W R) as [H2 OL]. rewrite Ty in OL.
          intro H. inversion H; subst g1 rep. exists []. split; [eapply heff_trans_l; [exact H2|apply heff_alert]|].
          rewrite <- OL. destruct resp as [r|]; [|reflexivity].
          cbn [app olist_np olist]. destruct (vw_fw_block (vw g) m); inversion OL. reflexivity.
        * intro H. inversion H; subst g1 rep. exists []. split; [apply heff_refl|reflexivity].
    - intro H. inversion H; subst g1 rep. exists (unknown_reply v (m_node m)). split; [exact HE|]. apply app_nil_r.
  Qed.

  Lemma emitted_of_withheld sl sl' q : (forall x, withheld sl' x = withheld sl x) ->
    emitted_part sl (filter (fun x => withheld sl' x) q) = [].
  Proof.
    intro E. unfold emitted_part. induction q as [|x q IH]; [reflexivity|]. simpl. rewrite E.
    destruct (withheld sl x) eqn:Wx; simpl; [rewrite Wx; simpl|]; exact IH.
  Qed.
  Lemma withheld_of_withheld sl sl' k q : (forall x, withheld sl' x = withheld sl x) ->
    withheld_part sl k (filter (fun x => withheld sl' x) q) = withheld_part sl k q.
  Proof.
    intro E. unfold withheld_part. induction q as [|x q IH]; [reflexivity|]. simpl. rewrite E.
    destruct (withheld sl x) eqn:Wx; simpl; rewrite ?Wx; simpl; [|exact IH].
    destruct (m_node x =? k); simpl; [f_equal|]; exact IH.
  Qed.

  (* ---- the dispatcher: theorem 1 ---- *)
  Definition accepted (g : gw) (l : pstr) (m : msg) : Prop :=
    decode l = Some m /\ gvalidate orc g m = true.

  (* the handler selected for an accepted message keeps the C01 invariant and the configuration *)
  Lemma dispatch_inv g m h g1 rep : cfgv v g -> Inv orc g -> wire_ok (m_payload m) = true ->
    0 <= m_type m <= 4 -> type_handler (tab_of v) (m_type m) = Some h ->
    run_handler orc clock h g m = Ok (g1, rep) -> Inv orc g1 /\ g_cf g1 = g_cf g.
  Proof.
    intros C I W RT TH RH.
    destruct (k_type_handlers v) as (T0 & T1 & T2 & T3 & T4).
    pose proof (facts_of_cfg g (cfgv_cfg v g C)) as F.
    assert (HR : hres_ok orc g (run_handler orc clock h g m)).
    { assert (E : m_type m = 0 \/ m_type m = 1 \/ m_type m = 2 \/ m_type m = 3 \/ m_type m = 4) by lia.
      destruct E as [E|[E|[E|[E|E]]]]; rewrite E in TH; rewrite ?T0, ?T1, ?T2, ?T3, ?T4 in TH;
        inversion TH; subst h; unfold run_handler.
      - apply handle_presentation_ok; assumption.
      - apply handle_set_ok; assumption.
      - apply handle_req_ok; assumption.
      - apply handle_internal_ok; assumption.
      - apply handle_stream_ok; assumption. }
    destruct HR as (gy & ry & EY & IY & CY). rewrite RH in EY. inversion EY; subst. split; assumption.
  Qed.

  Theorem reply_table g l m g' r : cfgv v g -> Inv orc g -> accepted g l m ->
    wakes_up v (vw g) m = false ->
    logic orc clock g l = Ok (g', r) ->
    let P := prescribed v (vw g) m in
    exists ns,
      g_cf g' = g_cf g /\
      (if cf_async (g_cf g)
       then sends (g_log g') = sends (g_log g) ++ ns /\ g_jobs g' = g_jobs g
       else sends (g_log g') = sends (g_log g) /\ g_jobs g' = g_jobs g ++ map JSend ns) /\
      ns ++ olist r = emitted_part (vw_sleeping (vw g)) P /\
      (forall k, queue_of g' k = queue_of g k ++ withheld_part (vw_sleeping (vw g)) k P).
  Proof.
    intros C I [D V] WU. unfold logic. rewrite D, V. cbn [negb].
    pose proof (decoded_payload_wire_ok _ _ D) as W.
    unfold gvalidate in V. rewrite (cfgv_tab v g C) in V.
    destruct (validated_ranges orc v m V) as (RN & RT & RA & RS & RC).
    destruct (k_type_handlers v) as (T0 & T1 & T2 & T3 & T4).
    rewrite (cfgv_tab v g C).
    assert (HH : forall g1 rep, (exists h, type_handler (tab_of v) (m_type m) = Some h /\
                                       run_handler orc clock h g m = Ok (g1, rep)) ->
                 exists N, heff g g1 N /\ N ++ olist_np rep = prescribed v (vw g) m).
    { intros g1 rep (h & TH & RH).
      assert (E : m_type m = 0 \/ m_type m = 1 \/ m_type m = 2 \/ m_type m = 3 \/ m_type m = 4) by lia.
      destruct E as [E|[E|[E|[E|E]]]]; rewrite E in TH, RS; rewrite ?T0, ?T1, ?T2, ?T3, ?T4 in TH;
        inversion TH; subst h; unfold run_handler in RH.
      - apply handle_presentation_eff; assumption.
      - apply handle_set_eff; assumption.
      - apply handle_req_eff; assumption.
      - apply handle_internal_eff; assumption.
      - apply handle_stream_eff; assumption. }
    destruct (type_handler (tab_of v) (m_type m)) as [h|] eqn:TH; [|discriminate].
    destruct (run_handler orc clock h g m) as [[g1 rep]|e] eqn:RH; cbn [bind]; [|discriminate].
    destruct (HH g1 rep (ex_intro _ h (conj eq_refl RH))) as (N & HN & EN).
    destruct (route_opt g1 rep) as [g2 routed] eqn:RO. intro H. inversion H; subst g' r. clear H.
    destruct HN as (C1 & S1 & O1 & Q1).
    assert (I1 : Inv orc g1) by (apply (dispatch_inv g m h g1 rep C I W RT TH RH)).
    destruct (route_opt_eff orc v g1 rep g2 routed (cfgv_ext v g g1 C1 C) I1 RO) as (Hd & HE & E1 & E2 & E3).
    assert (HT : heff g g2 (N ++ Hd)) by (apply (heff_trans g g1 g2); [repeat split; assumption|exact HE]).
    destruct HT as (C2 & S2 & O2 & Q2).
    cbn zeta. rewrite <- EN.
    exists (emitted_part (vsleep g) N). split; [exact C2|].
    assert (WE : forall x, withheld (vsleep g1) x = withheld (vsleep g) x)
      by (intro x; apply withheld_ext; exact S1).
    assert (EM : emitted_part (vsleep g) (N ++ Hd) = emitted_part (vsleep g) N).
    { rewrite emitted_app. subst Hd. rewrite (emitted_of_withheld (vsleep g) (vsleep g1) _ WE). apply app_nil_r. }
    split; [|split].
    - unfold outs in O2. rewrite EM in O2. exact O2.
    - cbn [vw_sleeping view_of]. rewrite emitted_app. f_equal.
      unfold emitted_part. rewrite (filter_ext _ (fun x => negb (withheld (vsleep g1) x))) by (intro y; rewrite WE; reflexivity).
      rewrite <- E2. destruct routed; reflexivity.
    - intro k. cbn [vw_sleeping view_of]. rewrite Q2. f_equal. rewrite !withheld_part_app. f_equal.
      subst Hd. apply withheld_of_withheld. exact WE.
  Qed.
  (* ---- the controller call Gateway.set_child_value in closed form ---- *)
  Definition set_child_commands (g : gw) (sid cid : Z) (vt : vtarg) (x : pyval) (mt a : option Z) : list msg :=
    if guard_ok g sid (Some cid) then
      if vsleep g sid then []                       (* stored as desired state, sent at wake-up (C08) *)
      else match vt_int vt with
           | Some vti => [mkMsg sid cid (ov mt 1) (ov a 0) vti (py_str x)]
           | None => []
           end
    else unknown_req sid.

  Lemma set_child_value_eff g sid cid vt x mt a g' : cfgv v g -> Inv orc g ->
    set_child_value orc g sid cid vt x mt a = Ok g' ->
    heff g g' (set_child_commands g sid cid vt x mt a).
  Proof.
    intros C I. unfold set_child_value, set_child_commands.
    destruct (is_sensor g sid (Some cid)) as [[g0 b]|e] eqn:IS; cbn [bind]; [|discriminate].
    destruct (is_sensor_eff_any _ _ _ _ _ C I IS) as (B & HE & GG). rewrite <- B.
    destruct b; cbn [negb]; [|intro H; inversion H; subst g'; exact HE].
    specialize (GG eq_refl). subst g0. symmetry in B. destruct (guard_get _ _ _ B) as (nd & G & _). rewrite G.
    pose proof (get_node_ok orc g _ _ I G) as [K _]. simpl in K.
    unfold vsleep. rewrite G. destruct (sleeping nd) eqn:SL.
    - destruct (create_set_message orc g (n_id nd) cid vt x None None) as [m0|e]; cbn [bind]; [|discriminate].
      destruct (zassoc cid (n_new nd)) as [dv|] eqn:D; [|discriminate].
      destruct (validate_child_state orc nd cid vt x); cbn [bind]; [|discriminate].
      destruct (vt_int vt) as [vti|]; [|discriminate].
      intro H. inversion H; subst g'. apply (heff_put_node g nd); [simpl; rewrite K; exact G|reflexivity|].
      rewrite SL. unfold sleeping. simpl.
      pose proof (zset_nonnil cid (zset vti (Some x) dv) (n_new nd)) as NZ.
      destruct (zset cid (zset vti (Some x) dv) (n_new nd)); [contradiction|reflexivity].
    - destruct (create_set_message orc g (n_id nd) cid vt x mt a) as [m0|e] eqn:CM; cbn [bind]; [|discriminate].
      intro H. inversion H; subst g'.
      unfold create_set_message in CM. destruct (vt_int vt) as [vti|]; [|discriminate].
      match type of CM with (if gvalidate orc g ?mm then _ else _) = _ =>
        destruct (gvalidate orc g mm); inversion CM; subst m0 end.
      rewrite (cfgv_tab v g C), k_set, K.
      apply heff_add_job. unfold withheld, vsleep. cbn [m_node]. rewrite G, SL. apply andb_false_r.
  Qed.
End Reply.
