(* Smart sleep: the theorems of C07 and C08 in the form the Props files state them. *)
From Coq Require Import List NArith ZArith Bool String Lia.
From PMS Require Import Base.PyStr Base.PyInt Base.Exn Model.Codec Model.Rules Model.TableTypes
  Gen.Tables Model.Validate Model.Hex Model.Ota Model.Oracles Model.Gateway Spec.SerialApi
  Proofs.PyStrFacts Proofs.PyIntFacts Proofs.CodecProofs Proofs.ValidateProofs Proofs.GwLemmas Proofs.GwInv
  Proofs.SleepDefs Proofs.SleepFlush Proofs.SleepTrans Proofs.SleepLife.
Import ListNotations.
Open Scope string_scope.
Open Scope list_scope.
Open Scope Z_scope.

(* small restatements used by the Props files *)
Lemma line_header m : line_node (encode m) = Some (m_node m) /\ line_type (encode m) = Some (m_type m).
Proof. split; [apply line_node_encode|apply line_type_encode]. Qed.

Lemma wake_announcements v m :
  wake_msg (tab_of v) m =
  match v with
  | V20 | V21 => (m_type m =? 3) && (m_sub m =? 22)
  | V22 => (m_type m =? 3) && (m_sub m =? 32)
  | _ => false
  end.
Proof. unfold wake_msg. rewrite wake_ts_spec. destruct v; reflexivity. Qed.

Lemma flush_children_closed_both orc g nd chs :
  Forall (fun cd => dv_ok orc (tab g) (n_id nd) (fst cd) (snd cd)) (n_new nd) ->
  flush_children orc g nd chs = Ok (map encode (children_msgs (tab g) nd chs)) /\
  flush_children_pre orc g nd chs = (map encode (children_msgs (tab g) nd chs), None).
Proof. intro H. split; [apply flush_children_closed|apply flush_children_pre_closed]; exact H. Qed.

Lemma late_child_gets_slot nd c : zhas c (n_children nd) = true -> zassoc c (n_new nd) = None ->
  zassoc c (n_new (woken nd)) = Some [] /\
  (forall c' dv, zassoc c' (n_new nd) = Some dv -> zassoc c' (n_new (woken nd)) = Some dv).
Proof.
  intros ZH D. split.
  - change (n_new (woken nd)) with (n_new (init_smart_sleep nd)). rewrite (init_slot_new nd c D), ZH. reflexivity.
  - intros c' dv H. exact (init_slot_old nd c' dv H).
Qed.


Section Sleep.
  Variable orc : oracles.
  Variable clock : Z.

  (* ================================================================ C07.1  routing *)
  Theorem route_withholds g m nd : Inv orc g ->
    m_type m <> vt_presentation (tab g) -> m_type m <> vt_stream (tab g) ->
    get_node g (m_node m) = Some nd -> sleeping nd = true ->
    route g m = (enqueue g nd (encode m), None) /\
    (* ... which is: the string appended at the END of that node's queue, nothing else touched *)
    let g' := enqueue g nd (encode m) in
    get_node g' (m_node m) = Some (with_queue nd (n_queue nd ++ [encode m])) /\
    (forall k, k <> m_node m -> get_node g' k = get_node g k) /\
    map fst (g_sensors g') = map fst (g_sensors g) /\
    g_cf g' = g_cf g /\ g_ota g' = g_ota g /\ g_metric g' = g_metric g /\ g_jobs g' = g_jobs g /\
    g_dirty g' = g_dirty g /\ g_log g' = g_log g.
  Proof.
    intros I NP NS G SL. pose proof (node_id_of orc g _ _ I G) as ID. split.
    - unfold route. destruct (Z.eqb_spec (m_type m) (vt_presentation (tab g))); [contradiction|].
      rewrite G. destruct (Z.eqb_spec (m_type m) (vt_stream (tab g))); [contradiction|].
      rewrite SL. reflexivity.
    - unfold enqueue, get_node, put_node. cbn. rewrite ID.
      split; [apply zassoc_zset_same|]. split; [intros k N; apply zassoc_zset_other; congruence|].
      split; [|repeat split; reflexivity].
      apply zset_keys. unfold zhas. unfold get_node in G. rewrite G. reflexivity.
  Qed.

  Theorem route_passes g m : m_type m <> vt_presentation (tab g) ->
    (get_node g (m_node m) = None \/ (exists nd, get_node g (m_node m) = Some nd /\ sleeping nd = false) \/
     m_type m = vt_stream (tab g)) ->
    route g m = (g, Some m).
  Proof.
    intros NP H. unfold route. destruct (Z.eqb_spec (m_type m) (vt_presentation (tab g))); [contradiction|].
    destruct H as [H|[(nd & H & SL)|H]].
    - rewrite H. reflexivity.
    - rewrite H, SL. rewrite orb_true_r. reflexivity.
    - destruct (get_node g (m_node m)); [|reflexivity]. rewrite H, Z.eqb_refl. reflexivity.
  Qed.

  Theorem route_drops_presentation g m : m_type m = vt_presentation (tab g) -> route g m = (g, None).
  Proof. intro H. unfold route. rewrite H, Z.eqb_refl. reflexivity. Qed.

  (* no hold queue of any node grows unless the message is addressed to that very node and it sleeps *)
  Theorem others_not_delayed g m k nd : Inv orc g -> get_node g k = Some nd ->
    exists nd', get_node (fst (route g m)) k = Some nd' /\
      (nd' = nd \/ (k = m_node m /\ sleeping nd = true /\ nd' = with_queue nd (n_queue nd ++ [encode m]) /\
                    snd (route g m) = None)).
  Proof.
    intros I G. unfold route.
    destruct (m_type m =? vt_presentation (tab g)); [exists nd; auto|].
    destruct (get_node g (m_node m)) as [nd0|] eqn:G0; [|exists nd; auto].
    destruct (m_type m =? vt_stream (tab g)); cbn [orb]; [exists nd; auto|].
    destruct (sleeping nd0) eqn:SL; cbn [negb]; [|exists nd; auto].
    pose proof (node_id_of orc g _ _ I G0) as ID.
    cbn [fst snd]. fold (with_queue nd0 (n_queue nd0 ++ [encode m])).
    set (ndq := with_queue nd0 (n_queue nd0 ++ [encode m])).
    unfold get_node, put_node. cbn [g_sensors set_sensors]. change (n_id ndq) with (n_id nd0).
    rewrite ID, zassoc_zset.
    destruct (Z.eqb_spec k (m_node m)) as [->|N].
    - rewrite G0 in G. inversion G; subst nd0. exists ndq. split; [reflexivity|]. right. auto.
    - exists nd. auto.
  Qed.

  (* ================================================================ C07.2  one processed line *)
  (* the line is a wake-up announcement of node n, accepted by the gateway *)
  Definition is_wake_line (g : gw) (l : pstr) (n : Z) : Prop :=
    exists m, decode l = Some m /\ gvalidate orc g m = true /\ wake_msg (tab g) m = true /\ m_node m = n.

  Lemma line_cause_wake g l n : line_cause orc g l = CWake n <-> is_wake_line g l n.
  Proof.
    unfold line_cause, is_wake_line, msg_cause. split.
    - destruct (decode l) as [m|]; [|discriminate]. destruct (gvalidate orc g m) eqn:V; [|discriminate].
      destruct (wake_msg (tab g) m) eqn:W.
      + intro H. inversion H. exists m. repeat split; auto.
      + destruct (report_msg (tab g) m); discriminate.
    - intros (m & -> & -> & -> & <-). reflexivity.
  Qed.

  (* for the five configurations: internal command, sub-type 22 (2.0 / 2.1) or 32 (2.2) *)
  Lemma wake_msg_spec v m : wake_msg (tab_of v) m = wake_spec v (m_type m) (m_sub m).
  Proof. apply wake_ts_spec. Qed.

  (* what `allowed` says about a string, read from its header fields *)
  Definition to_sleeping_only_on_wake (g : gw) (cz : cause) (s : pstr) : Prop :=
    forall n nd, line_node s = Some n -> get_node g n = Some nd -> sleeping nd = true ->
      line_type s = Some (vt_stream (tab g)) \/ cz = CWake n.

  Lemma allowed_string g cz s : allowed g cz s -> to_sleeping_only_on_wake g cz s.
  Proof.
    intros (m & -> & H) n nd LN G SL. rewrite line_node_encode in LN. inversion LN; subst n.
    rewrite line_type_encode. destruct H as [H|[H|H]].
    - left. rewrite H. reflexivity.
    - right. exact H.
    - rewrite G, SL in H. discriminate.
  Qed.

  Theorem logic_sends_to_sleeping_only_on_wake g l g' reply :
    cfg_ok (g_cf g) -> Inv orc g -> QInv g -> logic orc clock g l = Ok (g', reply) ->
    exists d j, g_log g' = g_log g ++ d /\ g_jobs g' = g_jobs g ++ j /\
      (cf_async (g_cf g) = true -> j = []) /\
      (forall x, In x j -> exists s, x = JSend s) /\
      forall s, (In (ESend s) d \/ In (JSend s) j \/ reply = Some s) ->
        forall n nd, line_node s = Some n -> get_node g n = Some nd -> sleeping nd = true ->
          line_type s = Some (vt_stream (tab g)) \/ is_wake_line g l n.
  Proof.
    intros C I Q E. destruct (logic_trans orc clock g l g' reply C I Q E) as [[_ (d & L & F) (j & J & G & A) _] R].
    exists d, j. split; [exact L|]. split; [exact J|]. split; [exact A|]. split.
    - intros x IN. rewrite Forall_forall in G. specialize (G _ IN). destruct x as [l0|s]; [contradiction|eauto].
    - intros s H n nd LN GN SL.
      assert (AL : allowed g (line_cause orc g l) s).
      { destruct H as [H|[H|H]].
        - rewrite Forall_forall in F. exact (F _ H).
        - rewrite Forall_forall in G. exact (G _ H).
        - apply R. exact H. }
      destruct (allowed_string _ _ _ AL n nd LN GN SL) as [X|X]; [left; exact X|right].
      apply line_cause_wake. exact X.
  Qed.

  (* ================================================================ C07.3  one step of the machine *)
  (* the line a step processes (asyncio: the arriving line; threaded: the queued line the pump pops) *)
  Definition processed (g : gw) (o : op) : option pstr :=
    match o with
    | Recv l => if cf_async (g_cf g) then Some l else None
    | Pump => match g_jobs g with JLogic l :: _ => Some l | _ => None end
    | _ => None
    end.

  Lemma op_cause_wake g o n : op_cause orc g o = CWake n ->
    exists l, processed g o = Some l /\ is_wake_line g l n.
  Proof.
    unfold op_cause, processed, desire_cause. destruct o as [l| |s c vt v mt a|ns t v b|b]; try discriminate.
    - destruct (cf_async (g_cf g)); [|discriminate]. intro H. exists l. split; [reflexivity|].
      apply line_cause_wake. exact H.
    - destruct (g_jobs g) as [|[l|l] r]; try discriminate. intro H. exists l. split; [reflexivity|].
      apply line_cause_wake. exact H.
    - destruct (vt_int vt); discriminate.
  Qed.

  Theorem step_sends_to_sleeping_only_on_wake g o :
    cfg_ok (g_cf g) -> Inv orc g -> QInv g -> op_ok o ->
    let g' := step orc clock g o in
    exists d j, g_log g' = g_log g ++ d /\ g_jobs g' = jobs_base g o ++ j /\
      (* every string handed to the transport by this step *)
      (forall s, In (ESend s) d ->
         queued_send g o s \/
         forall n nd, line_node s = Some n -> get_node g n = Some nd -> sleeping nd = true ->
           line_type s = Some (vt_stream (tab g)) \/
           exists l, processed g o = Some l /\ is_wake_line g l n) /\
      (* every job queued by this step *)
      (forall x, In x j ->
         queued_line g o x \/
         exists s, x = JSend s /\
           forall n nd, line_node s = Some n -> get_node g n = Some nd -> sleeping nd = true ->
             line_type s = Some (vt_stream (tab g)) \/
             exists l, processed g o = Some l /\ is_wake_line g l n).
  Proof.
    intros C I Q O g'. destruct (step_strans orc clock g o C I Q O) as [_ (d & L & F) (j & J & G) _].
    exists d, j. split; [exact L|]. split; [exact J|]. split.
    - intros s IN. rewrite Forall_forall in F. destruct (F _ IN) as [AL|(s0 & E & QS)].
      + right. intros n nd LN GN SL. destruct (allowed_string _ _ _ AL n nd LN GN SL) as [X|X]; [left; exact X|right].
        apply op_cause_wake. exact X.
      + left. inversion E; subst s0. exact QS.
    - intros x IN. rewrite Forall_forall in G. destruct (G _ IN) as [AL|QL]; [|left; exact QL].
      right. destruct x as [l0|s]; [contradiction|]. exists s. split; [reflexivity|].
      intros n nd LN GN SL. destruct (allowed_string _ _ _ AL n nd LN GN SL) as [X|X]; [left; exact X|right].
      apply op_cause_wake. exact X.
  Qed.

  (* over every history from the initial state, both flavours *)
  Theorem reachable_step_sends_to_sleeping_only_on_wake cf ops o :
    cfg_ok cf -> Forall op_ok ops -> op_ok o ->
    let g := run orc clock (gw_init cf) ops in
    let g' := step orc clock g o in
    exists d j, g_log g' = g_log g ++ d /\ g_jobs g' = jobs_base g o ++ j /\
      (forall s, In (ESend s) d ->
         queued_send g o s \/
         forall n nd, line_node s = Some n -> get_node g n = Some nd -> sleeping nd = true ->
           line_type s = Some (vt_stream (tab g)) \/
           exists l, processed g o = Some l /\ is_wake_line g l n) /\
      (forall x, In x j ->
         queued_line g o x \/
         exists s, x = JSend s /\
           forall n nd, line_node s = Some n -> get_node g n = Some nd -> sleeping nd = true ->
             line_type s = Some (vt_stream (tab g)) \/
             exists l, processed g o = Some l /\ is_wake_line g l n).
  Proof.
    intros C F O g. destruct (reachable_sleep_inv orc clock cf ops C F) as (I & Q & _ & CF). fold g in I, Q, CF.
    apply step_sends_to_sleeping_only_on_wake; try assumption. rewrite CF. exact C.
  Qed.

  (* ================================================================ C07.4  release only on wake *)
  Theorem release_only_on_wake g o k nd :
    cfg_ok (g_cf g) -> Inv orc g -> QInv g -> op_ok o -> get_node g k = Some nd ->
    exists nd', get_node (step orc clock g o) k = Some nd' /\
      ((exists ext, n_queue nd' = n_queue nd ++ ext) \/
       (exists l, processed g o = Some l /\ is_wake_line g l k)).
  Proof.
    intros C I Q O G. destruct (step_strans orc clock g o C I Q O) as [_ _ _ [A _]].
    destruct (A _ _ G) as (nd' & G' & (_ & _ & _ & _ & W & _)). exists nd'. split; [exact G'|].
    assert (D : {op_cause orc g o = CWake k} + {op_cause orc g o <> CWake k}).
    { destruct (op_cause orc g o) as [|n|n c vt|n c vt]; try (right; discriminate).
      destruct (Z.eq_dec n k) as [->|N]; [left; reflexivity|right; congruence]. }
    destruct D as [E|N]; [right; apply op_cause_wake; exact E|left; exact (proj2 (W N))].
  Qed.

  (* the same for one call of the dispatcher *)
  Theorem logic_release_only_on_wake g l g' reply k nd :
    cfg_ok (g_cf g) -> Inv orc g -> QInv g -> logic orc clock g l = Ok (g', reply) ->
    get_node g k = Some nd ->
    exists nd', get_node g' k = Some nd' /\
      ((exists ext, n_queue nd' = n_queue nd ++ ext) \/ is_wake_line g l k).
  Proof.
    intros C I Q E G. destruct (logic_trans orc clock g l g' reply C I Q E) as [[_ _ _ [A _]] _].
    destruct (A _ _ G) as (nd' & G' & (_ & _ & _ & _ & W & _)). exists nd'. split; [exact G'|].
    assert (D : {line_cause orc g l = CWake k} + {line_cause orc g l <> CWake k}).
    { destruct (line_cause orc g l) as [|n|n c vt|n c vt]; try (right; discriminate).
      destruct (Z.eq_dec n k) as [->|N]; [left; reflexivity|right; congruence]. }
    destruct D as [X|N]; [right; apply line_cause_wake; exact X|left; exact (proj2 (W N))].
  Qed.

  (* a node starts sleeping only at its own wake-up announcement, and never stops *)
  Theorem sleeping_changes_only_on_wake g o k nd :
    cfg_ok (g_cf g) -> Inv orc g -> QInv g -> op_ok o -> get_node g k = Some nd ->
    exists nd', get_node (step orc clock g o) k = Some nd' /\
      (sleeping nd = true -> sleeping nd' = true) /\
      (sleeping nd' = sleeping nd \/ exists l, processed g o = Some l /\ is_wake_line g l k).
  Proof.
    intros C I Q O G. destruct (step_strans orc clock g o C I Q O) as [_ _ _ [A _]].
    destruct (A _ _ G) as (nd' & G' & (_ & _ & S & _ & W & _)). exists nd'. split; [exact G'|]. split; [exact S|].
    assert (D : {op_cause orc g o = CWake k} + {op_cause orc g o <> CWake k}).
    { destruct (op_cause orc g o) as [|n|n c vt|n c vt]; try (right; discriminate).
      destruct (Z.eq_dec n k) as [->|N]; [left; reflexivity|right; congruence]. }
    destruct D as [E|N]; [right; apply op_cause_wake; exact E|left; exact (proj1 (W N))].
  Qed.

  (* ================================================================ C08.2(c)  histories *)
  (* no step of the history has a cause in P *)
  Fixpoint quiet (P : cause -> Prop) (g : gw) (ops : list op) : Prop :=
    match ops with
    | [] => True
    | o :: r => ~ P (op_cause orc g o) /\ quiet P (step orc clock g o) r
    end.

  (* reading of the two causes that concern a desired value *)
  Lemma op_cause_report g o n c vt : cfg_ok (g_cf g) -> op_cause orc g o = CReport n c vt <->
    exists l m, processed g o = Some l /\ decode l = Some m /\ gvalidate orc g m = true /\
                m_type m = 1 /\ m_node m = n /\ m_child m = c /\ m_sub m = vt.
  Proof.
    intros [v [T _]].
    assert (LC : forall l, line_cause orc g l = CReport n c vt <->
                 exists m, decode l = Some m /\ gvalidate orc g m = true /\
                           m_type m = 1 /\ m_node m = n /\ m_child m = c /\ m_sub m = vt).
    { intro l. unfold line_cause, msg_cause, report_msg. unfold tab. rewrite T. split.
      - destruct (decode l) as [m|]; [|discriminate]. destruct (gvalidate orc g m) eqn:V; [|discriminate].
        destruct (wake_msg (tab_of v) m); [discriminate|].
        pose proof (type_handler_set v (m_type m)) as TS. unfold is_hset in TS.
        destruct (type_handler (tab_of v) (m_type m)) as [[]|]; try discriminate.
        intro H. inversion H. exists m. symmetry in TS. apply Z.eqb_eq in TS. auto 10.
      - intros (m & -> & -> & TY & <- & <- & <-).
        pose proof (type_handler_set v (m_type m)) as TS. rewrite TY in TS. unfold is_hset in TS.
        rewrite wake_msg_spec. unfold wake_spec. rewrite TY.
        change (1 =? 3) with false. cbn [andb]. change (1 =? 1) with true in TS.
        destruct (wake_sub v); rewrite TS; reflexivity. }
    unfold op_cause, processed, desire_cause. destruct o as [l| |s c0 vt0 v0 mt a|ns t0 v0 b|b].
    - destruct (cf_async (g_cf g)).
      + rewrite LC. split; [intros (m & H); exists l, m; auto|intros (l0 & m & E & H); inversion E; subst; eauto].
      + split; [discriminate|intros (l0 & m & E & _); discriminate].
    - destruct (g_jobs g) as [|[l|l] r].
      + split; [discriminate|intros (l0 & m & E & _); discriminate].
      + rewrite LC. split; [intros (m & H); exists l, m; auto|intros (l0 & m & E & H); inversion E; subst; eauto].
      + split; [discriminate|intros (l0 & m & E & _); discriminate].
    - split; [destruct (vt_int vt0); discriminate|intros (l0 & m & E & _); discriminate].
    - split; [discriminate|intros (l0 & m & E & _); discriminate].
    - split; [discriminate|intros (l0 & m & E & _); discriminate].
  Qed.

  Lemma op_cause_desire g o n c vt : op_cause orc g o = CDesire n c vt <->
    exists vt' v mt a, o = SetChild n c vt' v mt a /\ vt_int vt' = Some vt.
  Proof.
    unfold op_cause, desire_cause. destruct o as [l| |s c0 vt0 v0 mt a|ns t0 v0 b|b].
    - split; [|intros (? & ? & ? & ? & H & _); discriminate H].
      destruct (cf_async (g_cf g)); [|discriminate]. unfold line_cause, msg_cause.
      destruct (decode l) as [m|]; [|discriminate]. destruct (gvalidate orc g m); [|discriminate].
      destruct (wake_msg (tab g) m); [discriminate|]. destruct (report_msg (tab g) m); discriminate.
    - split; [|intros (? & ? & ? & ? & H & _); discriminate H].
      destruct (g_jobs g) as [|[l|l] r]; try discriminate. unfold line_cause, msg_cause.
      destruct (decode l) as [m|]; [|discriminate]. destruct (gvalidate orc g m); [|discriminate].
      destruct (wake_msg (tab g) m); [discriminate|]. destruct (report_msg (tab g) m); discriminate.
    - split.
      + destruct (vt_int vt0) as [z|] eqn:E; [|discriminate]. intro H. inversion H; subst. eauto 10.
      + intros (vt' & v & mt' & a' & H & E). inversion H; subst. rewrite E. reflexivity.
    - split; [discriminate|intros (? & ? & ? & ? & H & _); discriminate H].
    - split; [discriminate|intros (? & ? & ? & ? & H & _); discriminate H].
  Qed.

  (* what is "reported": the child has a value of that type *)
  Definition has_reported (nd : node) (c vt : Z) : Prop :=
    exists ch, zassoc c (n_children nd) = Some ch /\ zhas vt (c_values ch) = true.

  Lemma run_IQ ops : forall g, cfg_ok (g_cf g) -> Inv orc g -> QInv g -> Forall op_ok ops ->
    Inv orc (run orc clock g ops) /\ QInv (run orc clock g ops) /\ cfg_ok (g_cf (run orc clock g ops)).
  Proof.
    induction ops as [|o ops IH]; intros g C I Q F; [split; [exact I|split; [exact Q|exact C]]|].
    inversion F as [|? ? O F']; subst. destruct (step_ok orc clock g o C I O) as [I1 C1].
    pose proof (step_strans orc clock g o C I Q O) as ST.
    pose proof (nodes_step_QInv _ _ _ (s_nodes _ _ _ _ ST) Q) as Q1.
    apply (IH (step orc clock g o)); try assumption. rewrite C1; exact C.
  Qed.

  Lemma run_node ops : forall g n nd,
    cfg_ok (g_cf g) -> Inv orc g -> QInv g -> Forall op_ok ops -> get_node g n = Some nd ->
    exists nd', get_node (run orc clock g ops) n = Some nd' /\
      (sleeping nd = true -> sleeping nd' = true) /\
      (forall c vt, has_reported nd c vt -> has_reported nd' c vt) /\
      (forall c, zhas c (n_children nd) = true -> zhas c (n_children nd') = true) /\
      (forall c vt, quiet (fun cz => cz = CReport n c vt \/ cz = CDesire n c vt) g ops ->
                    desired nd' c vt = desired nd c vt) /\
      (forall c vt, quiet (fun cz => cz = CDesire n c vt) g ops -> desired nd c vt = None ->
                    desired nd' c vt = None).
  Proof.
    induction ops as [|o ops IH]; intros g n nd C I Q F G.
    - exists nd. split; [exact G|]. repeat split; auto.
    - inversion F as [|? ? O F']; subst.
      destruct (step_ok orc clock g o C I O) as [I1 C1].
      pose proof (step_strans orc clock g o C I Q O) as ST.
      pose proof (nodes_step_QInv _ _ _ (s_nodes _ _ _ _ ST) Q) as Q1.
      destruct (s_nodes _ _ _ _ ST) as [A _].
      destruct (A _ _ G) as (nd1 & G1 & (_ & _ & S1 & _ & _ & D1 & K1)).
      assert (C1' : cfg_ok (g_cf (step orc clock g o))) by (rewrite C1; exact C).
      destruct (IH (step orc clock g o) n nd1 C1' I1 Q1 F' G1) as (nd' & G' & S' & R' & Z' & DA & DB).
      exists nd'. split; [exact G'|]. split; [auto|]. split; [|split; [|split]].
      + intros c vt (ch & CH & ZV). apply R'. destruct (K1 _ _ CH) as (ch1 & CH1 & _ & V1). exists ch1. auto.
      + intros c ZH. apply Z'. unfold zhas in *. destruct (zassoc c (n_children nd)) as [ch|] eqn:CH; [|discriminate].
        destruct (K1 _ _ CH) as (ch1 & CH1 & _). rewrite CH1. reflexivity.
      + intros c vt [NP QQ]. rewrite (DA c vt QQ).
        destruct (D1 c vt) as [_ X]; [intro E; apply NP; right; exact E|].
        apply X. intro E; apply NP; left; exact E.
      + intros c vt [NP QQ] DN. apply (DB c vt QQ).
        destruct (D1 c vt NP) as [[X|X] _]; [rewrite X; exact DN|exact X].
  Qed.

  (* ---- membership of a set command in the flush ---- *)
  Lemma desired_in_flush t nd c vt v : kids_ok nd -> has_reported nd c vt -> desired nd c vt = Some v ->
    In (encode (set_msg_of t (n_id nd) c vt v)) (flush_strings t nd).
  Proof.
    intros KO (ch & CH & ZV) D. unfold flush_strings, desired_sets. apply in_or_app. right.
    apply in_map. apply In_desired_msgs.
    apply zhas_true in ZV as [x ZX].
    exists c, ch, vt, x, v. pose proof (KO _ _ CH) as KC. rewrite KC.
    split; [apply zassoc_In; exact CH|]. split; [apply zassoc_In; exact ZX|].
    split; [rewrite init_desired; exact D|reflexivity].
  Qed.

  (* every set command of a flush is a pending desired value of a reported value type *)
  Lemma flush_sets_are_desired t nd m : In m (desired_msgs t (init_smart_sleep nd)) ->
    exists v, desired nd (m_child m) (m_sub m) = Some v /\ m = set_msg_of t (n_id nd) (m_child m) (m_sub m) v.
  Proof.
    intro H. apply In_desired_msgs in H as (k & ch & vt & x & v & _ & _ & D & ->).
    rewrite init_desired in D. exists v. split; [exact D|reflexivity].
  Qed.

  Lemma no_desired_no_set t nd c vt : desired nd c vt = None ->
    forall m, In m (desired_msgs t (init_smart_sleep nd)) -> ~ (m_child m = c /\ m_sub m = vt).
  Proof.
    intros D m H [E1 E2]. destruct (flush_sets_are_desired t nd m H) as (v & DV & _). congruence.
  Qed.

  Lemma In_zhas {A} k (a : A) l : In (k, a) l -> zhas k l = true.
  Proof.
    unfold zhas. induction l as [|[k' a'] l IH]; simpl; [contradiction|].
    intros [H|H]; [inversion H; subst; rewrite Z.eqb_refl; reflexivity|].
    destruct (Z.eqb k k'); [reflexivity|apply IH; exact H].
  Qed.

  (* a desired value for a value type the node has never reported is NOT sent *)
  Lemma unreported_not_in_flush t nd c vt :
    (forall k ch, In (k, ch) (n_children nd) -> c_id ch = c -> zhas vt (c_values ch) = false) ->
    forall m, In m (desired_msgs t (init_smart_sleep nd)) -> ~ (m_child m = c /\ m_sub m = vt).
  Proof.
    intros NR m H [E1 E2]. apply In_desired_msgs in H as (k & ch & vt' & x & v & IN & INV & _ & ->).
    cbn in E1, E2. subst vt'.
    pose proof (In_zhas _ _ _ INV) as Z. rewrite (NR k ch IN E1) in Z. discriminate Z.
  Qed.


  (* (a) .. (b): after an accepted set_child_value, at EVERY later state reached without a report of
     (n, c, vt) and without a new call for it, the desired value is still pending, requests are
     answered with it, the wake-up flush succeeds and - once the node has reported that value
     type - contains the set command *)
  Theorem desired_resent_until_reported g n c vt vti v mt a g1 nd ops :
    cfg_ok (g_cf g) -> Inv orc g -> QInv g -> CInv g -> Forall op_ok ops ->
    get_node g n = Some nd -> zhas c (n_children nd) = true -> sleeping nd = true ->
    set_child_value orc g n c vt v mt a = Ok g1 -> vt_int vt = Some vti ->
    quiet (fun cz => cz = CReport n c vti \/ cz = CDesire n c vti) g1 ops ->
    let g2 := run orc clock g1 ops in
    exists nd2, get_node g2 n = Some nd2 /\ sleeping nd2 = true /\ zhas c (n_children nd2) = true /\
      desired nd2 c vti = Some v /\
      get_desired_value nd2 c vti = Some v /\
      handle_smartsleep orc g2 nd2 = Ok (flushed g2 nd2) /\
      (has_reported nd2 c vti -> In (encode (set_msg_of (tab g) n c vti v)) (flush_strings (tab g2) nd2)).
  Proof.
    intros C I Q K F G ZH SL E VI QU g2.
    pose proof (facts_of_cfg g C) as FA.
    pose proof (set_child_value_ok orc g n c vt v mt a FA I) as OK1. rewrite E in OK1. destruct OK1 as [I1 C1].
    pose proof (set_child_value_trans orc g n c vt v mt a g1 FA I E) as T1.
    pose proof (nodes_step_QInv _ _ _ (t_nodes _ _ _ T1) Q) as Q1.
    pose proof (nodes_step_CInv _ _ _ (t_nodes _ _ _ T1) K) as K1.
    destruct (set_child_value_sleeping_silent orc g n c vt v mt a nd g1 G ZH SL E)
      as (_ & _ & _ & _ & _ & _ & vti' & dv & VI' & D & _ & _ & ->).
    rewrite VI in VI'. inversion VI'; subst vti'.
    pose proof (node_id_of orc g n nd I G) as ID.
    destruct (store_desired_facts nd c vti v dv D) as (DS & _ & SL1 & _ & CH1 & ID1 & _).
    assert (G1 : get_node (put_node g (store_desired nd c vti v dv)) n = Some (store_desired nd c vti v dv)).
    { unfold get_node, put_node. cbn [g_sensors set_sensors]. rewrite ID1, ID. apply zassoc_zset_same. }
    assert (C1' : cfg_ok (g_cf (put_node g (store_desired nd c vti v dv)))) by exact C.
    destruct (run_node ops _ n _ C1' I1 Q1 F G1) as (nd2 & G2 & S2 & R2 & Z2 & DA & _).
    destruct (run_sleep_inv orc clock ops _ C1' I1 Q1 K1 F) as (I2 & Q2 & K2 & C2).
    exists nd2. split; [exact G2|]. split; [apply S2; exact SL1|].
    assert (ZH2 : zhas c (n_children nd2) = true) by (apply Z2; rewrite CH1; exact ZH).
    split; [exact ZH2|].
    assert (D2 : desired nd2 c vti = Some v) by (rewrite (DA c vti QU); exact DS).
    split; [exact D2|]. split; [|split].
    - rewrite get_desired_value_closed, D2. unfold zhas in ZH2.
      destruct (zassoc c (n_children nd2)); [reflexivity|discriminate].
    - apply (flush_spec orc _ n); assumption.
    - intro HR. pose proof (node_id_of orc _ n nd2 I2 G2) as ID2.
      assert (TT : tab g2 = tab g) by (unfold tab, g2; rewrite C2; reflexivity).
      rewrite TT, <- ID2. apply desired_in_flush; [exact (K2 _ _ G2)|exact HR|exact D2].
  Qed.

  (* (b): an accepted report from (n, c, vt) clears the entry ... *)
  Theorem report_clears_desired g o n c vt nd :
    cfg_ok (g_cf g) -> Inv orc g -> QInv g -> op_ok o ->
    op_cause orc g o = CReport n c vt -> get_node g n = Some nd -> zhas c (n_children nd) = true ->
    exists nd', get_node (step orc clock g o) n = Some nd' /\ desired nd' c vt = None /\
                has_reported nd' c vt /\
                (forall c' vt', (c', vt') <> (c, vt) -> desired nd' c' vt' = desired nd c' vt').
  Proof.
    intros C I Q O CZ G ZH. pose proof (facts_of_cfg g C) as FA.
    (* the dispatcher call behind the step *)
    assert (L : forall g0 l, g_cf g0 = g_cf g -> g_sensors g0 = g_sensors g -> Inv orc g0 -> QInv g0 ->
                line_cause orc g0 l = CReport n c vt ->
                forall g1 reply, logic orc clock g0 l = Ok (g1, reply) ->
                exists nd', get_node (finish g1 reply) n = Some nd' /\ desired nd' c vt = None /\
                            has_reported nd' c vt /\
                            (forall c' vt', (c', vt') <> (c, vt) -> desired nd' c' vt' = desired nd c' vt')).
    { intros g0 l CF SS I0 Q0 LC g1 reply E.
      assert (C0 : cfg_ok (g_cf g0)) by (rewrite CF; exact C).
      assert (G0 : get_node g0 n = Some nd) by (unfold get_node; rewrite SS; exact G).
      pose proof (facts_of_cfg g0 C0) as FA0.
      unfold line_cause in LC. destruct (decode l) as [m|] eqn:D; [|discriminate].
      destruct (gvalidate orc g0 m) eqn:V; [|discriminate]. unfold msg_cause in LC.
      destruct (wake_msg (tab g0) m); [discriminate|]. destruct (report_msg (tab g0) m) eqn:RM; [|discriminate].
      inversion LC; subst n c vt; clear LC.
      unfold report_msg in RM. destruct (type_handler (tab g0) (m_type m)) as [[]|] eqn:TH; try discriminate.
      pose proof (decoded_payload_wire_ok _ _ D) as W.
      assert (HM : has_member (vt_internal_members (tab g0)) "I_REBOOT" = true).
      { pose proof FA0 as F'. unfold facts, tab_facts in F'.
        repeat match type of F' with _ && _ = true => apply andb_true_iff in F' as [F' ?] end. assumption. }
      destruct (handle_set_known g0 m nd G0 ZH W HM) as (rep & HS & _).
      unfold logic in E. rewrite D, V in E. cbn [negb] in E. rewrite TH in E. unfold run_handler in E.
      rewrite HS in E. cbn [bind] in E.
      set (ndu := update_child_value nd (m_child m) (m_sub m) (m_payload m)) in *.
      set (gu := alert (put_node g0 ndu) m) in *.
      assert (IU : Inv orc gu).
      { apply Inv_alert. apply Inv_put_node; [exact I0|].
        apply (update_child_value_ok orc _ (m_node m)). apply get_node_ok; assumption. }
      destruct (update_child_value_facts nd (m_child m) (m_sub m) (m_payload m) ZH) as (DN & DO & RP & _ & IDU & _).
      fold ndu in DN, DO, RP, IDU.
      assert (GU : get_node gu (m_node m) = Some ndu).
      { unfold gu. destruct (alert_frame (put_node g0 ndu) m) as (SA & _). unfold get_node. rewrite SA.
        cbn [put_node g_sensors set_sensors]. rewrite IDU, (node_id_of orc g0 _ _ I0 G0). apply zassoc_zset_same. }
      assert (TR : nodes_step CNone gu (finish g1 reply)).
      { destruct rep as [mr|]; cbn [route_opt] in E.
        - destruct (route_trans orc gu mr IU) as [T2 _]. destruct (route gu mr) as [g2 routed]. cbn [fst] in T2.
          inversion E; subst g1 reply. destruct routed as [m'|]; cbn [option_map finish].
          + eapply nodes_step_trans; [exact (t_nodes _ _ _ T2)|]. apply nodes_step_eq.
            destruct (send_frame g2 (encode m')) as (SS2 & _). exact SS2.
          + exact (t_nodes _ _ _ T2).
        - inversion E; subst g1 reply. apply nodes_step_eq. reflexivity. }
      destruct TR as [A _]. destruct (A _ _ GU) as (nd' & G' & (_ & _ & _ & _ & _ & DD & KK)).
      exists nd'. split; [exact G'|].
      assert (DS : forall c' vt', desired nd' c' vt' = desired ndu c' vt').
      { intros c' vt'. destruct (DD c' vt') as [_ X]; [discriminate|]. apply X. discriminate. }
      split; [rewrite DS; exact DN|]. split.
      - unfold reported in RP. destruct (zassoc (m_child m) (n_children ndu)) as [chu|] eqn:CHU; [|discriminate].
        destruct (KK _ _ CHU) as (ch' & CH' & _ & VV). exists ch'. split; [exact CH'|]. apply VV.
        unfold zhas. rewrite RP. reflexivity.
      - intros c' vt' N. rewrite DS. apply DO. exact N. }
    unfold op_cause in CZ. destruct o as [l| |s c0 vt0 v0 mt a|ns t0 v0 b|b]; cbn [step].
    - unfold recv. destruct (cf_async (g_cf g)); [|discriminate].
      destruct (logic_total orc clock g l C I) as (g1 & r & E & _). rewrite E.
      exact (L g l eq_refl eq_refl I Q CZ g1 r E).
    - unfold pump. destruct (g_jobs g) as [|[l|l] r] eqn:J; try discriminate.
      destruct (logic_total orc clock (set_jobs g r) l C (Inv_set_jobs orc g r I)) as (g1 & rep & E & _). rewrite E.
      exact (L (set_jobs g r) l eq_refl eq_refl (Inv_set_jobs orc g r I) Q CZ g1 rep E).
    - unfold desire_cause in CZ. destruct (vt_int vt0); discriminate.
    - discriminate.
    - discriminate.
  Qed.

  (* ... and it stays cleared - no set command for (c, vt) in any later flush - until a new
     set_child_value for (n, c, vt) *)
  Theorem cleared_until_new_desire g n c vt nd ops :
    cfg_ok (g_cf g) -> Inv orc g -> QInv g -> Forall op_ok ops ->
    get_node g n = Some nd -> desired nd c vt = None ->
    quiet (fun cz => cz = CDesire n c vt) g ops ->
    let g2 := run orc clock g ops in
    exists nd2, get_node g2 n = Some nd2 /\ desired nd2 c vt = None /\
      handle_smartsleep orc g2 nd2 = Ok (flushed g2 nd2) /\
      forall m, In m (desired_msgs (tab g2) (init_smart_sleep nd2)) -> ~ (m_child m = c /\ m_sub m = vt).
  Proof.
    intros C I Q F G D QU g2.
    destruct (run_node ops g n nd C I Q F G) as (nd2 & G2 & _ & _ & _ & _ & DB).
    exists nd2. split; [exact G2|]. pose proof (DB c vt QU D) as D2. split; [exact D2|]. split.
    - destruct (run_IQ ops g C I Q F) as (I2 & Q2 & _). fold g2 in I2, Q2.
      apply (flush_spec orc g2 n); assumption.
    - apply no_desired_no_set. exact D2.
  Qed.

  (* ================================================================ C08.3 *)
  (* whatever was accepted, the flush of every node in every later state succeeds; the node's own
     protocol version (n_pver: equal / older / never presented) plays no role *)
  Theorem accepted_implies_deliverable g sid cid vt v mt a g1 ops :
    cfg_ok (g_cf g) -> Inv orc g -> QInv g -> Forall op_ok ops ->
    set_child_value orc g sid cid vt v mt a = Ok g1 ->
    let g2 := run orc clock g1 ops in
    (forall k nd, get_node g2 k = Some nd -> handle_smartsleep orc g2 nd = Ok (flushed g2 nd)) /\
    (forall l, exists g3 r, logic orc clock g2 l = Ok (g3, r)).
  Proof.
    intros C I Q F E g2. pose proof (facts_of_cfg g C) as FA.
    pose proof (set_child_value_ok orc g sid cid vt v mt a FA I) as OK1. rewrite E in OK1. destruct OK1 as [I1 C1].
    pose proof (set_child_value_trans orc g sid cid vt v mt a g1 FA I E) as T1.
    pose proof (nodes_step_QInv _ _ _ (t_nodes _ _ _ T1) Q) as Q1.
    assert (C1' : cfg_ok (g_cf g1)) by (rewrite C1; exact C).
    pose proof (run_IQ ops g1 C1' I1 Q1 F) as IQ. fold g2 in IQ.
    destruct IQ as (I2 & Q2 & C2). split.
    - intros k nd G. apply (flush_spec orc g2 k); assumption.
    - intro l. destruct (logic_total orc clock g2 l C2 I2) as (g3 & r & E3 & _). eauto.
  Qed.
  (* ================================================================ C07.3  whole histories, with a ghost *)
  (* erasable ghost: for every job in the queue, the state and the cause of the step that queued it *)
  Definition origin := (gw * cause)%type.
  Definition step_ghost (gs : gw * list origin) (o : op) : gw * list origin :=
    let g := fst gs in
    let g' := step orc clock g o in
    (g', (match o with Pump => tl (snd gs) | _ => snd gs end) ++
         repeat (g, op_cause orc g o) (List.length (g_jobs g') - List.length (jobs_base g o))).
  Definition run_ghost (gs : gw * list origin) (ops : list op) : gw * list origin := fold_left step_ghost ops gs.

  Lemma run_ghost_erase ops : forall gs, fst (run_ghost gs ops) = run orc clock (fst gs) ops.
  Proof. induction ops as [|o ops IH]; intro gs; [reflexivity|]. simpl. rewrite IH. reflexivity. Qed.

  Definition job_origin_ok (x : job) (og : origin) : Prop :=
    match x with JSend s => allowed (fst og) (snd og) s | JLogic _ => True end.
  Definition ghost_ok (gs : gw * list origin) : Prop := Forall2 job_origin_ok (g_jobs (fst gs)) (snd gs).

  Lemma Forall2_tl {A B} (R : A -> B -> Prop) l1 l2 : Forall2 R l1 l2 -> Forall2 R (tl l1) (tl l2).
  Proof. intros [|a b l1' l2' H F]; [constructor|exact F]. Qed.

  Lemma Forall2_weaken {A B} (R S : A -> B -> Prop) l1 l2 :
    (forall a b, R a b -> S a b) -> Forall2 R l1 l2 -> Forall2 S l1 l2.
  Proof. intros H F. induction F; constructor; auto. Qed.

  Lemma Forall2_repeat {A B} (R : A -> B -> Prop) l b : Forall (fun a => R a b) l -> Forall2 R l (repeat b (List.length l)).
  Proof. induction 1; simpl; constructor; assumption. Qed.

  Lemma step_ghost_ok gs o : cfg_ok (g_cf (fst gs)) -> Inv orc (fst gs) -> QInv (fst gs) -> op_ok o ->
    ghost_ok gs -> ghost_ok (step_ghost gs o).
  Proof.
    intros C I Q O GH. destruct gs as [g og]. cbn [fst snd] in *. unfold ghost_ok, step_ghost. cbn [fst snd].
    destruct (step_strans orc clock g o C I Q O) as [_ _ (j & J & G) _]. rewrite J.
    rewrite app_length, Nat.add_comm, Nat.add_sub.
    apply Forall2_app.
    - unfold jobs_base. destruct o; try exact GH. apply Forall2_tl. exact GH.
    - apply Forall2_repeat. eapply Forall_impl'; [|exact G].
      intros [l|s] [H|H]; simpl; auto. destruct H as (l0 & _ & _ & H). discriminate H.
  Qed.

  Lemma run_ghost_ok ops : forall gs, cfg_ok (g_cf (fst gs)) -> Inv orc (fst gs) -> QInv (fst gs) ->
    Forall op_ok ops -> ghost_ok gs -> ghost_ok (run_ghost gs ops).
  Proof.
    induction ops as [|o ops IH]; intros gs C I Q F GH; [exact GH|].
    inversion F as [|? ? O F']; subst. simpl. apply IH; try assumption.
    - cbn [step_ghost fst]. destruct (step_ok orc clock (fst gs) o C I O) as [_ C1]. rewrite C1. exact C.
    - cbn [step_ghost fst]. exact (proj1 (step_ok orc clock (fst gs) o C I O)).
    - cbn [step_ghost fst]. pose proof (step_strans orc clock (fst gs) o C I Q O) as ST.
      exact (nodes_step_QInv _ _ _ (s_nodes _ _ _ _ ST) Q).
    - apply step_ghost_ok; assumption.
  Qed.

  (* every history, both flavours: a queued send that the pump is about to hand to the transport was
     queued by a step (state g0, cause cz) for which it was allowed: addressed to a node sleeping
     in g0 only if it is a stream response or that step processed the node's wake-up announcement *)
  Theorem queued_sends_have_allowed_origin cf ops :
    cfg_ok cf -> Forall op_ok ops ->
    let gs := run_ghost (gw_init cf, []) ops in
    fst gs = run orc clock (gw_init cf) ops /\
    Forall2 (fun x og => match x with
                         | JSend s => to_sleeping_only_on_wake (fst og) (snd og) s
                         | JLogic _ => True
                         end) (g_jobs (fst gs)) (snd gs).
  Proof.
    intros C F gs. split; [apply run_ghost_erase|].
    assert (GH : ghost_ok gs).
    { apply run_ghost_ok; try assumption; cbn [fst]; [apply Inv_init|apply QInv_init|constructor]. }
    unfold ghost_ok in GH. eapply Forall2_weaken; [|exact GH].
    intros [l|s] og H; [exact Logic.I|]. apply allowed_string. exact H.
  Qed.

End Sleep.
