From Coq Require Import List NArith ZArith Bool Lia.
From PMS Require Import Base.PyStr Base.PyInt Base.Exn Model.Codec
  Proofs.PyStrFacts Proofs.PyIntFacts.
Import ListNotations.

Lemma isspace_semi : isspace semi = false.
Proof. vm_compute. reflexivity. Qed.
Lemma isspace_nl : isspace nl = true.
Proof. vm_compute. reflexivity. Qed.

Lemma wire_ok_spec p : wire_ok p = true <-> mem_N semi p = false /\ no_trailing isspace p = true.
Proof.
  unfold wire_ok. rewrite andb_true_iff, negb_true_iff. tauto.
Qed.

(* the line without its newline *)
Definition body_of (m : msg) : pstr :=
  print (m_node m) ++ [semi] ++ print (m_child m) ++ [semi] ++ print (m_type m) ++ [semi] ++
  print (m_ack m) ++ [semi] ++ print (m_sub m) ++ [semi] ++ m_payload m.

Lemma encode_body m : encode m = body_of m ++ [nl].
Proof. unfold encode, encode_with, body_of. simpl. rewrite <- !app_assoc. reflexivity. Qed.

Lemma body_no_trailing m : no_trailing isspace (m_payload m) = true ->
  no_trailing isspace (body_of m) = true.
Proof.
  intro H. unfold body_of. destruct (m_payload m) as [|c p] eqn:E.
  - rewrite !app_assoc. rewrite app_nil_r. rewrite no_trailing_snoc.
    rewrite isspace_semi. reflexivity.
  - rewrite !app_assoc. rewrite no_trailing_app_r by discriminate. exact H.
Qed.

Lemma split_body m : mem_N semi (m_payload m) = false ->
  split semi (body_of m) =
  [print (m_node m); print (m_child m); print (m_type m); print (m_ack m); print (m_sub m); m_payload m].
Proof.
  intro H. unfold body_of.
  repeat (change ([semi] ++ ?x) with (semi :: x);
          rewrite split_app_delim by apply print_no_semi; f_equal).
  apply split_no_delim. exact H.
Qed.

Theorem decode_encode m : wire_ok (m_payload m) = true -> decode (encode m) = Some m.
Proof.
  intro W. apply wire_ok_spec in W as [W1 W2].
  unfold decode. rewrite encode_body.
  rewrite rstrip_snoc_space by apply isspace_nl.
  rewrite rstrip_id by (apply body_no_trailing; exact W2).
  rewrite split_body by exact W1.
  cbn [last removelast map_opt]. rewrite !parse_print. cbn [option_map].
  destruct m; reflexivity.
Qed.

Lemma map_opt_length {A B} (f : A -> option B) l r : map_opt f l = Some r -> length r = length l.
Proof.
  revert r; induction l as [|x l IH]; simpl; intros r H; [inversion H; reflexivity|].
  destruct (f x); [|discriminate]. destruct (map_opt f l); [|discriminate].
  inversion H; subst. simpl. f_equal. apply IH. reflexivity.
Qed.

Lemma decoded_payload_wire_ok l m : decode l = Some m -> wire_ok (m_payload m) = true.
Proof.
  unfold decode. intro H.
  destruct (map_opt parse (removelast (split semi (rstrip isspace l)))) as [hs|]; [|discriminate].
  destruct hs as [|a [|b [|c [|d [|e [|? ?]]]]]]; try discriminate.
  inversion H; subst; clear H. simpl m_payload.
  destruct (split_last_suffix semi (rstrip isspace l)) as [pre [E M]].
  apply wire_ok_spec. split; [exact M|].
  apply (no_trailing_suffix isspace pre). rewrite <- E. apply rstrip_no_trailing.
Qed.

(* canonical line: what encode produces for a carriable payload *)
Definition canonical (l : pstr) : Prop :=
  exists m, wire_ok (m_payload m) = true /\ l = encode m.

Theorem encode_decode_canonical l m : decode l = Some m ->
  canonical (encode m) /\ decode (encode m) = Some m /\ (canonical l -> encode m = l).
Proof.
  intro H. pose proof (decoded_payload_wire_ok _ _ H) as W. split; [|split].
  - exists m. split; [exact W|reflexivity].
  - apply decode_encode. exact W.
  - intros [m0 [W0 ->]]. rewrite decode_encode in H by exact W0. congruence.
Qed.

Theorem copy_spec m r : wire_ok (m_payload m) = true -> copy m r = Ok (override m r).
Proof. intro W. unfold copy. rewrite decode_encode by exact W. reflexivity. Qed.

(* decode can only fail with ValueError: it is a total function into option *)
Theorem decode_total l : (exists m, decode l = Some m) \/ decode l = None.
Proof. destruct (decode l); [left; eexists; reflexivity|right; reflexivity]. Qed.

(* canonical lines end in exactly one newline and have six fields *)
Theorem canonical_shape l : canonical l ->
  exists b, l = b ++ [nl] /\ no_trailing isspace b = true /\
            length (split semi b) = 6%nat.
Proof.
  intros [m [W ->]]. apply wire_ok_spec in W as [W1 W2].
  exists (body_of m). split; [apply encode_body|]. split; [apply body_no_trailing; exact W2|].
  rewrite split_body by exact W1. reflexivity.
Qed.
