(* C18 - finite side condition for the TCP gateway classes: 3^7 choice vectors x 2
   call styles each, evaluated by the kernel's vm over the generated signatures.
   (Split per transport so that the three files build in parallel.) *)
From Coq Require Import List Bool.
From PMS Require Import Base.PyStr Model.ConfigSyntax Model.ConfigCheck Spec.ConfigSpec.

Lemma check_TCPGw (orc : avop -> pstr -> pstr -> option bool) (cont : pstr -> bool) :
  check_class orc cont TCPGw = true.
Proof. vm_cast_no_check (eq_refl true). Qed.

Lemma check_AsyncTCPGw (orc : avop -> pstr -> pstr -> option bool) (cont : pstr -> bool) :
  check_class orc cont AsyncTCPGw = true.
Proof. vm_cast_no_check (eq_refl true). Qed.
