(* Smart sleep (C08): closed forms of the calls that touch desired values, the observable
   effect of a wake-up, and the life cycle of a desired value over arbitrary histories. *)
From Coq Require Import List NArith ZArith Bool String Lia.
From PMS Require Import Base.PyStr Base.PyInt Base.Exn Model.Codec Model.Rules Model.TableTypes
  Gen.Tables Model.Validate Model.Hex Model.Ota Model.Oracles Model.Gateway Spec.SerialApi
  Proofs.PyStrFacts Proofs.PyIntFacts Proofs.CodecProofs Proofs.ValidateProofs Proofs.GwLemmas Proofs.GwInv
  Proofs.SleepDefs Proofs.SleepFlush Proofs.SleepTrans.
Import ListNotations.
Open Scope string_scope.
Open Scope list_scope.
Open Scope Z_scope.

(* the strings handed to the transport among a list of events *)
Definition sends_of (d : list event) : list pstr :=
  flat_map (fun e => match e with ESend s => [s] | _ => [] end) d.

Lemma sends_of_app a b : sends_of (a ++ b) = sends_of a ++ sends_of b.
Proof. unfold sends_of. apply flat_map_app. Qed.
Lemma sends_of_map ss : sends_of (map ESend ss) = ss.
Proof. induction ss as [|s r IH]; simpl; [reflexivity|]. rewrite IH. reflexivity. Qed.

Section Life.
  Variable orc : oracles.
  Variable clock : Z.

  (* ---------------------------------------------------------------- is_sensor on a known node *)
  Lemma is_sensor_known g sid cid nd : get_node g sid = Some nd ->
    match cid with None => True | Some c => zhas c (n_children nd) = true end ->
    is_sensor g sid cid = Ok (g, true).
  Proof. intros G H. unfold is_sensor. rewrite G. destruct cid; [rewrite H|]; reflexivity. Qed.

  (* ---------------------------------------------------------------- add_job_send in both flavours *)
  Lemma fold_add_job_async ss : forall g, cf_async (g_cf g) = true -> Forall (fun s => s <> []) ss ->
    fold_left add_job_send ss g = set_log g (g_log g ++ map ESend ss).
  Proof.
    induction ss as [|s r IH]; intros g A F; simpl.
    - rewrite app_nil_r. destruct g; reflexivity.
    - inversion F as [|? ? NE F']; subst.
      assert (E : add_job_send g s = set_log g (g_log g ++ [ESend s])).
      { unfold add_job_send. rewrite A. unfold send. destruct s; [contradiction NE; reflexivity|reflexivity]. }
      rewrite E. rewrite IH by (try exact F'; exact A).
      unfold set_log. cbn [g_cf g_sensors g_ota g_metric g_jobs g_dirty g_log]. rewrite <- app_assoc. reflexivity.
  Qed.

  Lemma fold_add_job_threaded ss : forall g, cf_async (g_cf g) = false ->
    fold_left add_job_send ss g = set_jobs g (g_jobs g ++ map JSend ss).
  Proof.
    induction ss as [|s r IH]; intros g A; simpl.
    - rewrite app_nil_r. destruct g; reflexivity.
    - assert (E : add_job_send g s = set_jobs g (g_jobs g ++ [JSend s])).
      { unfold add_job_send. rewrite A. reflexivity. }
      rewrite E. rewrite IH by exact A.
      unfold set_jobs. cbn [g_cf g_sensors g_ota g_metric g_jobs g_dirty g_log]. rewrite <- app_assoc. reflexivity.
  Qed.

  (* ---------------------------------------------------------------- the flush, observably *)
  (* state after the flush of node nd: only that node (queue emptied, slots initialised) and the
     outputs changed *)
  Definition flushed (g : gw) (nd : node) : gw :=
    let g1 := put_node g (woken nd) in
    if cf_async (g_cf g) then set_log g1 (g_log g ++ map ESend (flush_strings (tab g) nd))
    else set_jobs g1 (g_jobs g ++ map JSend (flush_strings (tab g) nd)).

  Lemma flush_strings_nonempty t k nd : Forall (qentry k) (n_queue nd) ->
    Forall (fun s => s <> []) (flush_strings t nd).
  Proof.
    intro Q. unfold flush_strings, desired_sets. apply Forall_app. split.
    - eapply Forall_impl'; [|exact Q]. intros s (m & -> & _). apply encode_not_nil.
    - apply Forall_forall. intros s H. apply in_map_iff in H as (m & <- & _). apply encode_not_nil.
  Qed.

  Theorem flush_spec g k nd : Inv orc g -> QInv g -> get_node g k = Some nd ->
    handle_smartsleep orc g nd = Ok (flushed g nd).
  Proof.
    intros I Q G. rewrite (handle_smartsleep_closed orc g k nd I G). f_equal. unfold flushed.
    destruct (cf_async (g_cf g)) eqn:A.
    - rewrite fold_add_job_async; [reflexivity|exact A|].
      apply (flush_strings_nonempty _ k). exact (Q _ _ G).
    - rewrite fold_add_job_threaded; [reflexivity|exact A].
  Qed.

  (* the fields of the flushed state, spelled out *)
  Lemma flushed_fields g k nd : Inv orc g -> get_node g k = Some nd ->
    g_cf (flushed g nd) = g_cf g /\ g_ota (flushed g nd) = g_ota g /\ g_metric (flushed g nd) = g_metric g /\
    g_dirty (flushed g nd) = g_dirty g /\
    g_sensors (flushed g nd) = zset k (woken nd) (g_sensors g) /\
    get_node (flushed g nd) k = Some (woken nd) /\
    (forall k', k' <> k -> get_node (flushed g nd) k' = get_node g k') /\
    (if cf_async (g_cf g)
     then g_log (flushed g nd) = g_log g ++ map ESend (flush_strings (tab g) nd) /\ g_jobs (flushed g nd) = g_jobs g
     else g_log (flushed g nd) = g_log g /\ g_jobs (flushed g nd) = g_jobs g ++ map JSend (flush_strings (tab g) nd)).
  Proof.
    intros I G. pose proof (node_id_of orc g k nd I G) as ID.
    assert (S : g_sensors (flushed g nd) = zset k (woken nd) (g_sensors g)).
    { unfold flushed. destruct (cf_async (g_cf g)); cbn; rewrite ID; reflexivity. }
    unfold get_node. rewrite S.
    split; [unfold flushed; destruct (cf_async (g_cf g)); reflexivity|].
    split; [unfold flushed; destruct (cf_async (g_cf g)); reflexivity|].
    split; [unfold flushed; destruct (cf_async (g_cf g)); reflexivity|].
    split; [unfold flushed; destruct (cf_async (g_cf g)); reflexivity|].
    split; [reflexivity|]. split; [apply zassoc_zset_same|].
    split; [intros k' N; apply zassoc_zset_other; congruence|].
    unfold flushed. destruct (cf_async (g_cf g)); split; reflexivity.
  Qed.

  (* the node after the flush: queue empty, every child has a slot, desired values untouched,
     everything else as before *)
  Lemma woken_fields nd :
    n_queue (woken nd) = [] /\ n_new (woken nd) = n_new (init_smart_sleep nd) /\
    n_id (woken nd) = n_id nd /\ n_children (woken nd) = n_children nd /\ n_type (woken nd) = n_type nd /\
    n_sk_name (woken nd) = n_sk_name nd /\ n_sk_ver (woken nd) = n_sk_ver nd /\ n_batt (woken nd) = n_batt nd /\
    n_pver (woken nd) = n_pver nd /\ n_hb (woken nd) = n_hb nd /\ n_reboot (woken nd) = n_reboot nd /\
    (forall c vt, desired (woken nd) c vt = desired nd c vt) /\
    (forall c, zhas c (n_children nd) = true -> zhas c (n_new (woken nd)) = true) /\
    (exists ext, n_new (woken nd) = n_new nd ++ ext /\ Forall (fun e => snd e = []) ext).
  Proof.
    repeat (split; [reflexivity|]). split; [|split].
    - intros c vt. apply init_desired.
    - intros c H. apply init_has_slot. exact H.
    - apply add_slots_prefix.
  Qed.

  (* ---------------------------------------------------------------- a wake-up line, end to end *)
  Definition after_wake (h : hfun) (g : gw) (m : msg) (nd : node) : gw :=
    match h with
    | HHeartbeat => alert (put_node (flushed g nd) (set_hb (woken nd) (m_payload m))) m
    | _ => flushed g nd
    end.

  Lemma wake_type_internal g m : cfg_ok (g_cf g) -> wake_msg (tab g) m = true ->
    type_handler (tab g) (m_type m) = Some HInternal.
  Proof.
    intros [v [T GE]] W. unfold tab in *. rewrite T in *. unfold wake_msg in W. rewrite wake_ts_spec in W.
    unfold wake_spec in W. destruct (wake_sub v); [|discriminate]. apply andb_true_iff in W as [W _].
    apply Z.eqb_eq in W. rewrite W.
    pose proof (tab_facts_all v) as F. unfold tab_facts in F.
    repeat match type of F with _ && _ = true => apply andb_true_iff in F as [F ?] end.
    match goal with H : match type_handler _ 0 with _ => _ end = true |- _ => rename H into TH end.
    destruct (type_handler (tab_of v) 0) as [[]|]; try discriminate TH.
    destruct (type_handler (tab_of v) 1) as [[]|]; try discriminate TH.
    destruct (type_handler (tab_of v) 2) as [[]|]; try discriminate TH.
    destruct (type_handler (tab_of v) 3) as [[]|]; try discriminate TH. reflexivity.
  Qed.

  Theorem wake_logic g l m nd : cfg_ok (g_cf g) -> Inv orc g -> QInv g ->
    decode l = Some m -> gvalidate orc g m = true -> wake_msg (tab g) m = true ->
    get_node g (m_node m) = Some nd ->
    exists h, sub_handler (tab g) (m_type m) (m_sub m) = Some h /\ (h = HHeartbeat \/ h = HPreSleep) /\
              logic orc clock g l = Ok (after_wake h g m nd, None).
  Proof.
    intros C I Q D V W G. pose proof (wake_type_internal g m C W) as TH.
    unfold wake_msg, wake_ts in W. rewrite TH in W.
    destruct (sub_handler (tab g) (m_type m) (m_sub m)) as [h|] eqn:SH; [|discriminate].
    exists h. split; [reflexivity|].
    assert (HH : h = HHeartbeat \/ h = HPreSleep) by (destruct h; try discriminate W; auto).
    split; [exact HH|].
    unfold logic. rewrite D, V. cbn [negb]. rewrite TH. unfold run_handler, handle_internal. rewrite SH.
    pose proof (flushed_fields g (m_node m) nd I G) as (_ & _ & _ & _ & _ & GF & _).
    destruct HH as [-> | ->]; unfold run_leaf.
    - unfold handle_heartbeat_response. rewrite (is_sensor_known g (m_node m) None nd G Logic.I). cbn [bind negb].
      rewrite G. rewrite (flush_spec g (m_node m) nd I Q G). cbn [bind]. rewrite GF. reflexivity.
    - unfold handle_pre_sleep. rewrite (is_sensor_known g (m_node m) None nd G Logic.I). cbn [bind negb].
      rewrite G. rewrite (flush_spec g (m_node m) nd I Q G). cbn [bind]. reflexivity.
  Qed.

  (* what an observer sees of it: exactly the withheld strings, oldest first, then the set commands *)
  Lemma after_wake_outputs h g m nd k : Inv orc g -> get_node g k = Some nd ->
    (h = HHeartbeat \/ h = HPreSleep) ->
    let g' := after_wake h g m nd in
    (exists d, g_log g' = g_log g ++ d /\
               sends_of d = if cf_async (g_cf g) then flush_strings (tab g) nd else []) /\
    g_jobs g' = g_jobs g ++ (if cf_async (g_cf g) then [] else map JSend (flush_strings (tab g) nd)).
  Proof.
    intros I G HH. pose proof (flushed_fields g k nd I G) as (CF & _ & _ & _ & _ & _ & _ & OUT).
    assert (B : (exists d, g_log (flushed g nd) = g_log g ++ d /\
                   sends_of d = if cf_async (g_cf g) then flush_strings (tab g) nd else []) /\
                g_jobs (flushed g nd) = g_jobs g ++ (if cf_async (g_cf g) then [] else map JSend (flush_strings (tab g) nd))).
    { destruct (cf_async (g_cf g)); destruct OUT as [L J]; split.
      - exists (map ESend (flush_strings (tab g) nd)). split; [exact L|apply sends_of_map].
      - rewrite app_nil_r. exact J.
      - exists []. rewrite app_nil_r. split; [exact L|reflexivity].
      - exact J. }
    destruct HH as [-> | ->]; cbn [after_wake]; [|exact B].
    destruct B as [(d & L & S) J].
    set (g1 := put_node (flushed g nd) (set_hb (woken nd) (m_payload m))).
    assert (L1 : g_log g1 = g_log g ++ d) by exact L.
    assert (J1 : g_jobs g1 = g_jobs (flushed g nd)) by reflexivity.
    clearbody g1.
    destruct (alert_frame g1 m) as (_ & _ & _ & JA & _). split; [|rewrite JA, J1; exact J].
    unfold alert. destruct (cf_callback (g_cf g1)).
    - exists (d ++ [ECallback m (proj (g_sensors g1))]). split.
      + destruct (cf_persist (g_cf g1)); cbn; rewrite L1, app_assoc; reflexivity.
      + rewrite sends_of_app. simpl. rewrite app_nil_r. exact S.
    - exists d. split; [destruct (cf_persist (g_cf g1)); exact L1|exact S].
  Qed.

  (* ---------------------------------------------------------------- set_child_value on a sleeping node *)
  Definition gw_accepts (g : gw) (nid cid vti : Z) (v : pyval) : bool :=
    gvalidate orc g (set_msg_of (tab g) nid cid vti v).
  Definition node_accepts (nd : node) (cid vti : Z) (v : pyval) : bool :=
    validate (orc_version orc) (orc_float orc) (node_tab orc nd)
             (set_msg_of (node_tab orc nd) (n_id nd) cid vti v).

  Definition store_desired (nd : node) (cid vti : Z) (v : pyval) (dv : list (Z * option pyval)) : node :=
    with_new nd (zset cid (zset vti (Some v) dv) (n_new nd)).

  Theorem set_child_value_sleeping g sid cid vt v mt a nd :
    get_node g sid = Some nd -> zhas cid (n_children nd) = true -> sleeping nd = true ->
    set_child_value orc g sid cid vt v mt a =
    match vt_int vt with
    | None => Raise ValueError
    | Some vti =>
        if gw_accepts g (n_id nd) cid vti v then
          match zassoc cid (n_new nd) with
          | None => Raise ValueError
          | Some dv => if node_accepts nd cid vti v then Ok (put_node g (store_desired nd cid vti v dv))
                       else Raise VolInvalid
          end
        else Raise VolInvalid
    end.
  Proof.
    intros G ZH SL. unfold set_child_value. rewrite (is_sensor_known g sid (Some cid) nd G ZH). cbn [bind negb].
    rewrite G, SL. unfold create_set_message, validate_child_state, gw_accepts, node_accepts, set_msg_of.
    destruct (vt_int vt) as [vti|]; [|reflexivity]. cbn [bind].
    destruct (gvalidate orc g _); cbn [bind]; [|reflexivity].
    destruct (zassoc cid (n_new nd)) as [dv|]; [|reflexivity].
    destruct (validate _ _ _ _); reflexivity.
  Qed.

  (* value types "2" and 2 are the same key *)
  Lemma vt_int_str z : vt_int (VtStr (print z)) = vt_int (VtInt z).
  Proof. simpl. apply parse_print. Qed.

  Theorem vt_key_normalised g sid cid vt1 vt2 v mt a : vt_int vt1 = vt_int vt2 ->
    set_child_value orc g sid cid vt1 v mt a = set_child_value orc g sid cid vt2 v mt a.
  Proof.
    intro E. unfold set_child_value, create_set_message, validate_child_state. rewrite E. reflexivity.
  Qed.

  (* desired / reported values of the node after the call *)
  Lemma store_desired_facts nd cid vti v dv : zassoc cid (n_new nd) = Some dv ->
    let nd' := store_desired nd cid vti v dv in
    desired nd' cid vti = Some v /\
    (forall c vt, (c, vt) <> (cid, vti) -> desired nd' c vt = desired nd c vt) /\
    sleeping nd' = true /\ n_queue nd' = n_queue nd /\ n_children nd' = n_children nd /\ n_id nd' = n_id nd /\
    map fst (n_new nd') = map fst (n_new nd).
  Proof.
    intros D nd'. unfold nd', store_desired, desired. cbn [with_new n_new n_queue n_children n_id].
    split; [rewrite !zassoc_zset_same; reflexivity|]. split; [|split; [|split; [reflexivity|split; [reflexivity|split; [reflexivity|]]]]].
    - intros c vt N. rewrite zassoc_zset. destruct (Z.eqb_spec c cid) as [->|NC]; [|reflexivity].
      rewrite D, zassoc_zset. destruct (Z.eqb_spec vt vti) as [->|NV]; [contradiction N; reflexivity|reflexivity].
    - rewrite sleeping_with_new. pose proof (zset_not_nil cid (zset vti (Some v) dv) (n_new nd)) as NN.
      destruct (zset cid (zset vti (Some v) dv) (n_new nd)); [contradiction|reflexivity].
    - apply zset_keys. unfold zhas. rewrite D. reflexivity.
  Qed.

  (* a sleeping node: the call is silent (nothing queued, nothing logged, nothing sent) *)
  Theorem set_child_value_sleeping_silent g sid cid vt v mt a nd g' :
    get_node g sid = Some nd -> zhas cid (n_children nd) = true -> sleeping nd = true ->
    set_child_value orc g sid cid vt v mt a = Ok g' ->
    g_log g' = g_log g /\ g_jobs g' = g_jobs g /\ g_ota g' = g_ota g /\ g_cf g' = g_cf g /\
    g_dirty g' = g_dirty g /\ g_metric g' = g_metric g /\
    exists vti dv, vt_int vt = Some vti /\ zassoc cid (n_new nd) = Some dv /\
                   gw_accepts g (n_id nd) cid vti v = true /\ node_accepts nd cid vti v = true /\
                   g' = put_node g (store_desired nd cid vti v dv).
  Proof.
    intros G ZH SL. rewrite (set_child_value_sleeping g sid cid vt v mt a nd G ZH SL).
    destruct (vt_int vt) as [vti|]; [|discriminate].
    destruct (gw_accepts g (n_id nd) cid vti v) eqn:GA; [|discriminate].
    destruct (zassoc cid (n_new nd)) as [dv|] eqn:D; [|discriminate].
    destruct (node_accepts nd cid vti v) eqn:NA; [|discriminate].
    intro H. inversion H; subst g'. repeat (split; [reflexivity|]).
    exists vti, dv. auto.
  Qed.

  (* refused at call time *)
  Theorem refused_at_call_time g sid cid vt vti v mt a nd :
    get_node g sid = Some nd -> zhas cid (n_children nd) = true -> sleeping nd = true ->
    vt_int vt = Some vti -> gw_accepts g (n_id nd) cid vti v = false ->
    set_child_value orc g sid cid vt v mt a = Raise VolInvalid /\
    step orc clock g (SetChild sid cid vt v mt a) = emit g (ERaise VolInvalid).
  Proof.
    intros G ZH SL VI GA.
    assert (E : set_child_value orc g sid cid vt v mt a = Raise VolInvalid).
    { rewrite (set_child_value_sleeping g sid cid vt v mt a nd G ZH SL), VI, GA. reflexivity. }
    split; [exact E|]. cbn [step]. rewrite E. reflexivity.
  Qed.

  (* ---------------------------------------------------------------- a report (handle_set) *)
  Theorem handle_set_known g m nd :
    get_node g (m_node m) = Some nd -> zhas (m_child m) (n_children nd) = true ->
    wire_ok (m_payload m) = true -> has_member (vt_internal_members (tab g)) "I_REBOOT" = true ->
    exists reply,
      handle_set g m =
      Ok (alert (put_node g (update_child_value nd (m_child m) (m_sub m) (m_payload m))) m, reply) /\
      (n_reboot nd = false -> reply = None).
  Proof.
    intros G ZH W HM. unfold handle_set.
    rewrite (is_sensor_known g (m_node m) (Some (m_child m)) nd G ZH). cbn [bind negb]. rewrite G.
    assert (RB : n_reboot (update_child_value nd (m_child m) (m_sub m) (m_payload m)) = n_reboot nd).
    { unfold update_child_value. destruct (zassoc (m_child m) (n_children nd)); [|reflexivity].
      destruct (zassoc (m_child m) (n_new nd)); reflexivity. }
    rewrite RB. destruct (n_reboot nd).
    - destruct (internal_member_ok g _ HM) as [z Ez]. rewrite Ez. cbn [bind].
      rewrite copy_spec by exact W. cbn [bind]. eexists. split; [reflexivity|discriminate].
    - exists None. split; reflexivity.
  Qed.

  Lemma update_child_value_facts nd c vt p : zhas c (n_children nd) = true ->
    let nd' := update_child_value nd c vt p in
    desired nd' c vt = None /\
    (forall c' vt', (c', vt') <> (c, vt) -> desired nd' c' vt' = desired nd c' vt') /\
    reported nd' c vt = Some (PS p) /\
    n_queue nd' = n_queue nd /\ n_id nd' = n_id nd /\ sleeping nd' = sleeping nd /\
    map fst (n_new nd') = map fst (n_new nd).
  Proof.
    intros ZH nd'. unfold nd', update_child_value. unfold zhas in ZH.
    destruct (zassoc c (n_children nd)) as [ch|] eqn:CH; [|discriminate].
    destruct (zassoc c (n_new nd)) as [dv|] eqn:D.
    - unfold desired, reported. cbn [with_new with_children n_new n_children n_queue n_id].
      split; [rewrite !zassoc_zset_same; reflexivity|]. split; [|split; [|split; [reflexivity|split; [reflexivity|split]]]].
      + intros c' vt' N. rewrite zassoc_zset. destruct (Z.eqb_spec c' c) as [->|NC]; [|reflexivity].
        rewrite D, zassoc_zset. destruct (Z.eqb_spec vt' vt) as [->|NV]; [contradiction N; reflexivity|reflexivity].
      + rewrite zassoc_zset_same. cbn [c_values]. apply zassoc_zset_same.
      + unfold sleeping. cbn [n_new]. pose proof (zset_not_nil c (zset vt None dv) (n_new nd)) as NN.
        destruct (zset c (zset vt None dv) (n_new nd)); [contradiction|].
        destruct (n_new nd); [discriminate D|reflexivity].
      + apply zset_keys. unfold zhas. rewrite D. reflexivity.
    - unfold desired, reported. cbn [with_children n_new n_children n_queue n_id]. rewrite D.
      split; [reflexivity|]. split; [reflexivity|]. split; [|repeat split; reflexivity].
      rewrite zassoc_zset_same. cbn [c_values]. apply zassoc_zset_same.
  Qed.

  (* ---------------------------------------------------------------- value requests *)
  Theorem get_desired_value_closed nd c vt :
    get_desired_value nd c vt =
    match zassoc c (n_children nd) with
    | None => None
    | Some ch => match desired nd c vt with Some v => Some v | None => zassoc vt (c_values ch) end
    end.
  Proof.
    unfold get_desired_value, desired. destruct (zassoc c (n_children nd)) as [ch|]; [|reflexivity].
    destruct (sleeping nd) eqn:SL.
    - destruct (zassoc c (n_new nd)) as [dv|]; [|reflexivity]. destruct (zassoc vt dv) as [[v|]|]; reflexivity.
    - rewrite (sleeping_false_new nd SL). reflexivity.
  Qed.

  Definition req_reply (t : vtab) (m : msg) (v : pyval) : msg :=
    mkMsg (m_node m) (m_child m) (vt_set t) (m_ack m) (m_sub m) (py_str v).

  Theorem handle_req_known g m nd :
    get_node g (m_node m) = Some nd -> zhas (m_child m) (n_children nd) = true -> wire_ok (m_payload m) = true ->
    handle_req g m = Ok (g, option_map (req_reply (tab g) m) (get_desired_value nd (m_child m) (m_sub m))).
  Proof.
    intros G ZH W. unfold handle_req.
    rewrite (is_sensor_known g (m_node m) (Some (m_child m)) nd G ZH). cbn [bind negb]. rewrite G.
    destruct (get_desired_value nd (m_child m) (m_sub m)) as [v|]; [|reflexivity].
    rewrite copy_spec by exact W. reflexivity.
  Qed.

  Definition enqueue (g : gw) (nd : node) (s : pstr) : gw := put_node g (with_queue nd (n_queue nd ++ [s])).

  (* a value request from a known child of a SLEEPING node, end to end: the reply carries the
     desired value while one is pending, else the reported value, and is withheld *)
  Theorem req_logic_sleeping g l m nd : cfg_ok (g_cf g) ->
    decode l = Some m -> gvalidate orc g m = true -> m_type m = 2 ->
    get_node g (m_node m) = Some nd -> zhas (m_child m) (n_children nd) = true -> sleeping nd = true ->
    logic orc clock g l =
    Ok (match get_desired_value nd (m_child m) (m_sub m) with
        | Some v => enqueue g nd (encode (req_reply (tab g) m v))
        | None => g
        end, None).
  Proof.
    intros C D V TY G ZH SL. pose proof (decoded_payload_wire_ok _ _ D) as W.
    pose proof (facts_of_cfg g C) as F.
    assert (B : between 0 4 (m_type m) = true) by (rewrite TY; reflexivity).
    destruct (type_handler_cases g (m_type m) F B) as [[E _]|[[E _]|[[_ TH]|[[E _]|[E _]]]]]; try lia.
    unfold logic. rewrite D, V. cbn [negb]. rewrite TH. unfold run_handler.
    rewrite (handle_req_known g m nd G ZH W). cbn [bind].
    destruct (get_desired_value nd (m_child m) (m_sub m)) as [v|]; cbn [option_map route_opt]; [|reflexivity].
    destruct C as [ver [T _]]. destruct (tab_consts ver) as (P0 & P1 & _ & _ & P4).
    unfold route. cbn [req_reply m_type m_node]. unfold tab. rewrite T, P0, P1, P4.
    change (1 =? 0) with false. change (1 =? 4) with false. cbv iota. rewrite G, SL. cbn [negb orb].
    reflexivity.
  Qed.

  (* ---------------------------------------------------------------- late children *)
  Theorem presentation_late_child g m nd : m_child m <> system_child_id ->
    get_node g (m_node m) = Some nd -> zhas (m_child m) (n_children nd) = false ->
    handle_presentation orc g m =
    Ok (alert (put_node g (with_children nd (n_children nd ++ [(m_child m, mkChild (m_child m) (m_sub m) (m_payload m) [])]))) m,
        Some m).
  Proof.
    intros NS G ZH. unfold handle_presentation.
    destruct (Z.eqb_spec (m_child m) system_child_id) as [E|_]; [contradiction|].
    rewrite (is_sensor_known g (m_node m) None nd G Logic.I). cbn [bind negb]. rewrite G, ZH. reflexivity.
  Qed.

  (* a child without a slot: requests are answered from the reported values (no KeyError) ... *)
  Theorem late_child_req nd c vt : zassoc c (n_new nd) = None ->
    get_desired_value nd c vt = reported nd c vt.
  Proof.
    intro D. rewrite get_desired_value_closed. unfold desired, reported. rewrite D. reflexivity.
  Qed.

  (* ... and the controller call is refused at call time *)
  Theorem late_child_set_refused g sid cid vt v mt a nd :
    get_node g sid = Some nd -> zhas cid (n_children nd) = true -> sleeping nd = true ->
    zassoc cid (n_new nd) = None ->
    exists e, set_child_value orc g sid cid vt v mt a = Raise e /\
              (forall vti, vt_int vt = Some vti -> gw_accepts g (n_id nd) cid vti v = true -> e = ValueError).
  Proof.
    intros G ZH SL D. rewrite (set_child_value_sleeping g sid cid vt v mt a nd G ZH SL), D.
    destruct (vt_int vt) as [vti|]; [|exists ValueError; split; [reflexivity|intros x H; discriminate H]].
    destruct (gw_accepts g (n_id nd) cid vti v) eqn:GA.
    - exists ValueError. split; [reflexivity|reflexivity].
    - exists VolInvalid. split; [reflexivity|]. intros x H H2. inversion H; subst x. rewrite GA in H2. discriminate H2.
  Qed.
End Life.
