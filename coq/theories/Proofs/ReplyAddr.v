(* C05, theorems 2 and 4 and the examples: addressing of the prescribed replies, silence
   outside the table, non-vacuity, and the refutation of the unrestricted theorem 3. *)
From Coq Require Import List NArith ZArith Bool String Lia.
From PMS Require Import Base.PyStr Base.PyInt Base.Exn Model.Codec Model.Rules Model.TableTypes
  Gen.Tables Model.Validate Model.Hex Model.Ota Model.Oracles Model.Gateway Spec.SerialApi Spec.ReplyTable
  Proofs.PyStrFacts Proofs.PyIntFacts Proofs.CodecProofs Proofs.ValidateProofs Proofs.GwLemmas Proofs.GwInv
  Proofs.ReplyBase Proofs.ReplyProofs Proofs.ReplyInv.
Import ListNotations.
Open Scope string_scope.
Open Scope list_scope.
Open Scope Z_scope.

(* ---- the table itself: at most one command, addressed to the sender or broadcast ---- *)
Ltac table_cases :=
  unfold prescribed, unknown_reply;
  repeat match goal with
         | |- context [if ?b then _ else _] => destruct b eqn:?
         | |- context [match internal_action ?v ?s with _ => _ end] => destruct (internal_action v s) eqn:?
         | |- context [match ?o with Some _ => _ | None => _ end] => destruct o eqn:?
         end.

Lemma prescribed_length v vw m : (List.length (prescribed v vw m) <= 1)%nat.
Proof. table_cases; simpl; lia. Qed.

Theorem prescribed_addressing v vw m x : In x (prescribed v vw m) ->
  m_node x = m_node m \/
  (x = discover_request (m_child m) /\ m_type m = 3 /\ internal_action v (m_sub m) = Discover).
Proof.
  table_cases; simpl; intro H; try contradiction; destruct H as [<-|[]]; try (left; reflexivity).
  all: right; split; [reflexivity|]; split; [lia|reflexivity].
Qed.

(* a presentation request is sent only on a >= 2.0 gateway, to the sender, and only when the
   sender (or the child the message is about) is not known *)
Theorem prescribed_presentation_request v vw m x : In x (prescribed v vw m) ->
  m_type x = 3 -> m_sub x = 19 ->
  x = presentation_request (m_node m) /\ v_ge20 v = true /\
  (known vw (m_node m) = false \/ vw_child vw (m_node m) (m_child m) = false).
Proof.
  table_cases; simpl; intro H; try contradiction; destruct H as [<-|[]]; simpl; intros T S;
    try discriminate T; try discriminate S;
    try (split; [reflexivity|]; split; [reflexivity|]);
    repeat match goal with H : _ && _ = false |- _ => apply andb_false_iff in H end; tauto.
Qed.

Lemma in_emitted_part sl P s : In s (emitted_part sl P) -> exists x, In x P /\ s = encode x.
Proof.
  unfold emitted_part. rewrite in_map_iff. intros (x & <- & H). apply filter_In in H as [H _].
  exists x. split; [exact H|reflexivity].
Qed.
Lemma in_withheld_part sl k P s : In s (withheld_part sl k P) ->
  exists x, In x P /\ s = encode x /\ m_node x = k /\ withheld sl x = true.
Proof.
  unfold withheld_part. rewrite in_map_iff. intros (x & <- & H). apply filter_In in H as [H B].
  apply andb_true_iff in B as [B1 B2]. exists x. repeat split; try assumption. lia.
Qed.

Section Corollaries.
  Variable orc : oracles.
  Variable clock : Z.
  Variable v : ver.

  (* theorem 4: every command string this call emits (nested jobs and the reply) or withholds
     encodes a prescribed message addressed to the sender, or is the broadcast discover request *)
  Theorem reply_addressing g l m g' r : cfgv v g -> Inv orc g -> accepted orc g l m ->
    wakes_up v (view_of clock g) m = false ->
    logic orc clock g l = Ok (g', r) ->
    exists ns,
      (if cf_async (g_cf g)
       then sends (g_log g') = sends (g_log g) ++ ns /\ g_jobs g' = g_jobs g
       else sends (g_log g') = sends (g_log g) /\ g_jobs g' = g_jobs g ++ map JSend ns) /\
      (forall s, In s (ns ++ olist r) ->
         exists x, s = encode x /\ In x (prescribed v (view_of clock g) m) /\
                   (m_node x = m_node m \/ (x = discover_request (m_child m) /\ m_node x = 255))) /\
      (forall k, exists q, queue_of g' k = queue_of g k ++ q /\
         forall s, In s q ->
           exists x, s = encode x /\ In x (prescribed v (view_of clock g) m) /\ m_node x = k /\
                     (k = m_node m \/ (x = discover_request (m_child m) /\ k = 255))).
  Proof.
    intros C I A WU L. destruct (reply_table orc clock v g l m g' r C I A WU L) as (ns & _ & O & E & Q).
    exists ns. split; [exact O|]. split.
    - intros s H. rewrite E in H. apply in_emitted_part in H as (x & HX & ->).
      exists x. split; [reflexivity|]. split; [exact HX|].
      destruct (prescribed_addressing _ _ _ _ HX) as [K|(K & _)]; [left; exact K|right; split; [exact K|]].
      rewrite K. reflexivity.
    - intro k. exists (withheld_part (vw_sleeping (view_of clock g)) k (prescribed v (view_of clock g) m)).
      split; [apply Q|]. intros s H. apply in_withheld_part in H as (x & HX & -> & K & _).
      exists x. split; [reflexivity|]. split; [exact HX|]. split; [exact K|].
      destruct (prescribed_addressing _ _ _ _ HX) as [K'|(K' & _)]; [left; congruence|right; split; [exact K'|]].
      rewrite <- K, K'. reflexivity.
  Qed.

  (* theorem 2, second half: an accepted message outside the table changes no queue, adds no
     job, sends nothing and has no reply *)
  Theorem silent_outside_table g l m g' r : cfgv v g -> Inv orc g -> accepted orc g l m ->
    wakes_up v (view_of clock g) m = false ->
    prescribed v (view_of clock g) m = [] ->
    logic orc clock g l = Ok (g', r) ->
    r = None /\ sends (g_log g') = sends (g_log g) /\ g_jobs g' = g_jobs g /\
    forall k, queue_of g' k = queue_of g k.
  Proof.
    intros C I A WU P L. destruct (reply_table orc clock v g l m g' r C I A WU L) as (ns & _ & O & E & Q).
    rewrite P in E, Q. cbn in E. apply app_eq_nil in E as [-> E].
    split; [destruct r; [discriminate E|reflexivity]|].
    destruct (cf_async (g_cf g)); destruct O as [O1 O2]; simpl in O1, O2; rewrite ?app_nil_r in O1, O2.
    - rewrite app_nil_r in O1. split; [exact O1|]. split; [exact O2|]. intro k. rewrite Q. apply app_nil_r.
    - rewrite app_nil_r in O2. split; [exact O1|]. split; [exact O2|]. intro k. rewrite Q. apply app_nil_r.
  Qed.
  (* the controller call: what set_child_value emits or withholds, and for whom *)
  Theorem set_child_value_addressing g sid cid vt x mt a g' : cfgv v g -> Inv orc g ->
    set_child_value orc g sid cid vt x mt a = Ok g' ->
    let N := set_child_commands clock v g sid cid vt x mt a in
    (if cf_async (g_cf g)
     then sends (g_log g') = sends (g_log g) ++ emitted_part (vsleep g) N /\ g_jobs g' = g_jobs g
     else sends (g_log g') = sends (g_log g) /\ g_jobs g' = g_jobs g ++ map JSend (emitted_part (vsleep g) N)) /\
    (forall k, queue_of g' k = queue_of g k ++ withheld_part (vsleep g) k N) /\
    (forall y, In y N -> m_node y = sid).
  Proof.
    intros C I H N. destruct (set_child_value_eff orc clock v g sid cid vt x mt a g' C I H) as (_ & _ & O & Q).
    split; [exact O|]. split; [exact Q|].
    subst N. unfold set_child_commands, unknown_req, unknown_reply.
    destruct (guard_ok clock g sid (Some cid)).
    - destruct (vsleep g sid); [intros y []|]. destruct (vt_int vt); [|intros y []].
      intros y [<-|[]]. reflexivity.
    - destruct (node_id_ok sid); [|intros y []].
      destruct (v_ge20 v); [|intros y []]. intros y [<-|[]]. reflexivity.
  Qed.
  (* ---- the same at the level of the transport log: one inbound line in each task flavour ---- *)
  Lemma queue_of_send g s k : queue_of (send g s) k = queue_of g k.
  Proof. unfold queue_of, get_node. destruct (send_frame g s) as (S & _). rewrite S. reflexivity. Qed.

  Lemma sends_send g s : (exists x, s = encode x) -> sends (g_log (send g s)) = sends (g_log g) ++ [s].
  Proof. intros [x ->]. rewrite send_encode. simpl. rewrite sends_app. reflexivity. Qed.

  Lemma last_emitted sl P ns s : ns ++ [s] = emitted_part sl P -> exists x, s = encode x.
  Proof.
    intro E. assert (H : In s (emitted_part sl P)) by (rewrite <- E; apply in_or_app; right; left; reflexivity).
    apply in_emitted_part in H as (x & _ & ->). exists x. reflexivity.
  Qed.

  (* asyncio flavour: protocol.handle_line runs logic at once and sends the reply *)
  Theorem recv_async_reply_table g l m : cfgv v g -> Inv orc g -> accepted orc g l m ->
    wakes_up v (view_of clock g) m = false -> cf_async (g_cf g) = true ->
    let P := prescribed v (view_of clock g) m in
    let g' := recv orc clock g l in
    sends (g_log g') = sends (g_log g) ++ emitted_part (vsleep g) P /\ g_jobs g' = g_jobs g /\
    forall k, queue_of g' k = queue_of g k ++ withheld_part (vsleep g) k P.
  Proof.
    intros C I A WU AS P g'. subst g'. unfold recv. rewrite AS.
    destruct (logic_total orc clock g l (cfgv_cfg v g C) I) as (g1 & r & L & _). rewrite L.
    destruct (reply_table orc clock v g l m g1 r C I A WU L) as (ns & _ & O & E & Q). rewrite AS in O.
    destruct O as [O1 O2]. cbn [vw_sleeping view_of] in E, Q. fold P in E, Q.
    destruct r as [s|]; cbn [olist] in E.
    - rewrite (sends_send g1 s (last_emitted _ _ _ _ E)), O1, <- app_assoc, E.
      split; [reflexivity|]. split; [destruct (send_frame g1 s) as (_&_&_&J&_); congruence|].
      intro k. rewrite queue_of_send. apply Q.
    - rewrite app_nil_r in E. subst ns. split; [exact O1|]. split; [exact O2|exact Q].
  Qed.

  (* threaded flavour: the line waits in the job queue; one pump iteration runs logic on it and
     sends the reply at once, while commands produced inside the call (ns) join the job queue *)
  Theorem pump_reply_table g l rest m : cfgv v g -> Inv orc g -> cf_async (g_cf g) = false ->
    g_jobs g = JLogic l :: rest ->
    accepted orc (set_jobs g rest) l m -> wakes_up v (view_of clock (set_jobs g rest)) m = false ->
    let P := prescribed v (view_of clock (set_jobs g rest)) m in
    let g' := pump orc clock g in
    exists ns r, ns ++ olist r = emitted_part (vsleep g) P /\
      sends (g_log g') = sends (g_log g) ++ olist r /\ g_jobs g' = rest ++ map JSend ns /\
      forall k, queue_of g' k = queue_of g k ++ withheld_part (vsleep g) k P.
  Proof.
    intros C I AS J A WU P g'. subst g'. unfold pump. rewrite J.
    set (g0 := set_jobs g rest) in *.
    assert (C0 : cfgv v g0) by exact C. assert (I0 : Inv orc g0) by (apply Inv_set_jobs; exact I).
    destruct (logic_total orc clock g0 l (cfgv_cfg v g0 C0) I0) as (g1 & r & L & _). rewrite L.
    destruct (reply_table orc clock v g0 l m g1 r C0 I0 A WU L) as (ns & _ & O & E & Q).
    change (cf_async (g_cf g0)) with (cf_async (g_cf g)) in O. rewrite AS in O. destruct O as [O1 O2].
    cbn [vw_sleeping view_of] in E, Q. fold P in E, Q. exists ns. exists r. split; [exact E|].
    destruct r as [s|]; cbn [olist] in *.
    - rewrite (sends_send g1 s (last_emitted _ _ _ _ E)), O1.
      split; [reflexivity|]. split; [destruct (send_frame g1 s) as (_&_&_&JJ&_); rewrite JJ; exact O2|].
      intro k. rewrite queue_of_send. apply Q.
    - rewrite app_nil_r. split; [exact O1|]. split; [exact O2|exact Q].
  Qed.
End Corollaries.

Lemma cfgv_iff v g : cfgv v g <-> (cf_tab (g_cf g) = tab_of v /\ cf_ge20 (g_cf g) = ge20 v).
Proof. unfold cfgv. tauto. Qed.

Lemma replies_validate orc v n : 0 <= n <= 255 ->
    (v_ge20 v = true -> goodmsg orc v (presentation_request n) /\ goodmsg orc v (discover_request 255)) /\
    goodmsg orc v (reboot_order n) /\
    (forall b : bool, goodmsg orc v (mkMsg n 255 3 0 6 (s2p (if b then "M" else "I")))) /\
    (forall clock, goodmsg orc v (mkMsg n 255 3 0 1 (print clock))) /\
    (forall c i, 1 <= i <= 254 -> goodmsg orc v (mkMsg n c 3 0 4 (print i))).
Proof.
  intros R. split; [intro G; split; [exact (good_presentation_request orc v n G R)|exact (good_discover orc v G)]|].
  split; [exact (good_reboot orc v n R)|]. split; [intro b; exact (good_config orc v n b R)|].
  split; [intro c; exact (good_time orc v n c R)|]. intros c i Ri. exact (good_id_response orc v n c i R Ri).
Qed.

(* ---- examples (non-vacuity), all by computation on concrete histories ---- *)
Definition cf22 : config := mkConfig tab_22 true true false false.       (* 2.2, asyncio flavour *)
Definition cf22t : config := mkConfig tab_22 true false false false.     (* 2.2, threaded flavour *)
Definition cf15 : config := mkConfig tab_15 false true false false.      (* 1.5 *)

(* node 1 presents itself and child 0 (S_BINARY), reports V_STATUS = 1 *)
Definition hist1 : list op :=
  [Recv (s2p "1;255;0;0;3;x"); Recv (s2p "1;0;0;0;3;relay"); Recv (s2p "1;0;1;0;2;1")].

Definition new_sends (g g' : gw) : list pstr := skipn (List.length (sends (g_log g))) (sends (g_log g')).

(* a value request for a known child with a value: the set reply, with the request's ack flag *)
Example ex_req_answered :
  let g := run no_oracles 0 (gw_init cf22) hist1 in
  new_sends g (step no_oracles 0 g (Recv (s2p "1;0;2;1;2;"))) = [s2p "1;0;1;1;2;1" ++ [nl]] /\
  prescribed V22 (view_of 0 g) (mkMsg 1 0 2 1 2 []) = [mkMsg 1 0 1 1 2 (s2p "1")].
Proof. vm_compute. split; reflexivity. Qed.

(* no value of that sub-type: nothing *)
Example ex_req_no_value :
  let g := run no_oracles 0 (gw_init cf22) hist1 in
  new_sends g (step no_oracles 0 g (Recv (s2p "1;0;2;0;3;"))) = [] /\
  prescribed V22 (view_of 0 g) (mkMsg 1 0 2 0 3 []) = [].
Proof. vm_compute. split; reflexivity. Qed.

(* unknown child on a 2.2 gateway: exactly one presentation request to the node *)
Example ex_unknown_child_22 :
  let g := run no_oracles 0 (gw_init cf22) hist1 in
  new_sends g (step no_oracles 0 g (Recv (s2p "1;7;2;0;2;"))) = [s2p "1;255;3;0;19;" ++ [nl]] /\
  prescribed V22 (view_of 0 g) (mkMsg 1 7 2 0 2 []) = [presentation_request 1].
Proof. vm_compute. split; reflexivity. Qed.

(* the same on a 1.5 gateway: silence *)
Example ex_unknown_child_15 :
  let g := run no_oracles 0 (gw_init cf15) hist1 in
  new_sends g (step no_oracles 0 g (Recv (s2p "1;7;2;0;2;"))) = [] /\
  prescribed V15 (view_of 0 g) (mkMsg 1 7 2 0 2 []) = [].
Proof. vm_compute. split; reflexivity. Qed.

(* config, time (clock 1700000000), id request, gateway ready on 2.2 *)
Example ex_internal_replies :
  let g := run no_oracles 1700000000 (gw_init cf22) hist1 in
  new_sends g (run no_oracles 1700000000 g
                 [Recv (s2p "1;255;3;0;6;0"); Recv (s2p "1;255;3;1;1;"); Recv (s2p "255;255;3;0;3;");
                  Recv (s2p "0;255;3;0;14;Gateway startup complete.")]) =
  [s2p "1;255;3;0;6;M" ++ [nl]; s2p "1;255;3;0;1;1700000000" ++ [nl]; s2p "255;255;3;0;4;2" ++ [nl];
   s2p "255;255;3;0;20;" ++ [nl]].
Proof. vm_compute. reflexivity. Qed.

(* threaded flavour: the nested presentation request is queued as a job and sent by the pump *)
Example ex_threaded_nested :
  let g := run no_oracles 0 (gw_init cf22t) [Recv (s2p "9;3;1;0;2;1"); Pump] in
  g_jobs g = [JSend (s2p "9;255;3;0;19;" ++ [nl])] /\ sends (g_log g) = [] /\
  sends (g_log (step no_oracles 0 g Pump)) = [s2p "9;255;3;0;19;" ++ [nl]].
Proof. vm_compute. repeat split; reflexivity. Qed.

(* a sleeping node (2.2: pre-sleep notification received): the reply to its request is withheld *)
Example ex_withheld :
  let g := run no_oracles 0 (gw_init cf22) (hist1 ++ [Recv (s2p "1;255;3;0;32;500")]) in
  let g' := step no_oracles 0 g (Recv (s2p "1;0;2;0;2;")) in
  vsleep g 1 = true /\ new_sends g g' = [] /\ queue_of g' 1 = queue_of g 1 ++ [s2p "1;0;1;0;2;1" ++ [nl]].
Proof. vm_compute. repeat split; reflexivity. Qed.

(* corner: id 255 can be registered as a node (validation accepts a presentation from node 255);
   once it sleeps, the broadcast discover request is withheld in "node 255's" queue *)
Example ex_discover_withheld :
  let g := run no_oracles 0 (gw_init cf22)
             [Recv (s2p "255;255;0;0;3;x"); Recv (s2p "255;0;0;0;3;relay"); Recv (s2p "255;255;3;0;32;500")] in
  let g' := step no_oracles 0 g (Recv (s2p "0;255;3;0;14;ready")) in
  vsleep g 255 = true /\ new_sends g g' = [] /\ queue_of g' 255 = [s2p "255;255;3;0;20;" ++ [nl]].
Proof. vm_compute. repeat split; reflexivity. Qed.

(* corner: the id response copies the request's child id and drops its ack flag *)
Example ex_id_response_copies_child :
  sends (g_log (run no_oracles 0 (gw_init cf22) [Recv (s2p "255;-3;3;1;3;")])) = [s2p "255;-3;3;0;4;1" ++ [nl]].
Proof. vm_compute. reflexivity. Qed.

(* the hypotheses of reply_table are satisfiable by a non-trivial state *)
Example ex_reply_table_premises :
  let g := run no_oracles 0 (gw_init cf22) hist1 in
  cfgv V22 g /\ accepted no_oracles g (s2p "1;0;2;1;2;") (mkMsg 1 0 2 1 2 []) /\
  wakes_up V22 (view_of 0 g) (mkMsg 1 0 2 1 2 []) = false /\ g_sensors g <> [].
Proof. vm_compute. repeat split; try reflexivity. discriminate. Qed.

(* ---- the former counterexample of theorem 3 (finding D20, fixed in the library) ---- *)
(* set_child_value(300, 0, 2, "1") on a 2.2 gateway: node 300 is unknown, but 300 is not a node id
   (`sensorid in range(BROADCAST_ID + 1)` fails), so is_sensor asks nobody for a presentation:
   nothing is sent, queued or stored, no exception.  Before the fix the command 300;255;3;0;19;
   was handed to the transport. *)
Example ex_set_child_out_of_range_silent :
  let ops := [SetChild 300 0 (VtInt 2) (PS (s2p "1")) None None] in
  Forall op_wire ops /\
  run no_oracles 0 (gw_init cf22) ops = gw_init cf22 /\
  run no_oracles 0 (gw_init cf22t) ops = gw_init cf22t.
Proof.
  split; [constructor; [reflexivity|constructor]|]. vm_compute. split; reflexivity.
Qed.

(* ... whereas an unknown node with a valid id is still asked to present itself *)
Example ex_set_child_unknown_in_range :
  sends (g_log (run no_oracles 0 (gw_init cf22) [SetChild 200 0 (VtInt 2) (PS (s2p "1")) None None])) =
  [s2p "200;255;3;0;19;" ++ [nl]].
Proof. vm_compute. reflexivity. Qed.

